#!/usr/bin/env python3
"""MANIFEST.setup_cmd: build the harness from files on disk, parse every
specification, run the self-tests of the trusted helpers."""
import glob
import os
import subprocess
import sys

sys.path.insert(0, os.path.dirname(os.path.abspath(__file__)))
from engine import core  # noqa: E402


def main():
    ctx = core.Ctx("SETUP", "quick", 1)
    try:
        vh = ctx.vh_bin
        # generated TLA+ data modules (AGL tables) must exist before the specifications are parsed
        gen = subprocess.run([sys.executable, os.path.join(os.path.dirname(os.path.abspath(__file__)), "tools", "gen_agl.py")],
                             capture_output=True, text=True)
        if gen.returncode != 0:
            print("[setup] gen_agl.py failed:", gen.stdout[-800:], gen.stderr[-800:])
            return 2
        d = ctx.specdir()
        mods = sorted(os.path.basename(p) for p in glob.glob(os.path.join(d, "*.tla")))
        bad = []
        for m in mods:
            p = subprocess.run(["timeout", "120", "tla-sany", m], cwd=d, capture_output=True, text=True)
            out = p.stdout + p.stderr
            if "*** Errors" in out or "Fatal errors" in out or "Parse Error" in out or p.returncode != 0:
                bad.append((m, out[-1500:]))
        if bad:
            for m, out in bad:
                print("SANY FAILED", m, out)
            return 2
        print("[setup] %d modules parse" % len(mods))
        cfg = "INIT Init\nNEXT Next\nINVARIANT Emit\nCHECK_DEADLOCK FALSE\n"
        ctx.tlc("LibTest", cfg, workers=8, timeout=600)
        p = ctx.vh("selftest-lib", os.path.join(d, "libtest.ndjson"))
        print("[setup] lib self-test:", p.stdout.strip())
        return 0
    except core.Broken as ex:
        print("[setup] BROKEN:", ex)
        return 2
    finally:
        ctx.cleanup()


if __name__ == "__main__":
    sys.exit(main())
