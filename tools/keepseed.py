#!/usr/bin/env python3
"""tools/keepseed.py <staged-seed-dir> <result.json> [<more result.json> ...]

Keeps a confirmed seeded change as /verif/seeded/<id>/ : patch.diff, the demonstration test,
notes.txt (the author's description) and meta.json (property, what it needs to manifest, what
was run to confirm it, which checks were run against it and what they reported).  Result files
are the JSON printed by tools/seedcheck.py; later ones add to / override the per-check results."""
import json
import os
import shutil
import sys

VERIF = os.path.dirname(os.path.dirname(os.path.abspath(__file__)))


def main():
    src = os.path.abspath(sys.argv[1])
    sid = os.path.basename(src)
    results = [json.load(open(p)) for p in sys.argv[2:]]
    first = results[0]
    if not first.get("confirmed"):
        sys.exit("%s: not confirmed, not kept" % sid)
    dst = os.path.join(VERIF, "seeded", sid)
    os.makedirs(dst, exist_ok=True)
    for f in os.listdir(src):
        if f == "patch.diff" or f.endswith("_test.go") or f == "notes.txt":
            # the demonstration is kept under a name the go tool ignores inside /verif
            shutil.copyfile(os.path.join(src, f), os.path.join(dst, f.replace("_test.go", "_test.go.txt")))
    meta_path = os.path.join(dst, "meta.json")
    meta = json.load(open(meta_path)) if os.path.exists(meta_path) else {}
    notes = open(os.path.join(src, "notes.txt")).read().strip() if os.path.exists(os.path.join(src, "notes.txt")) else ""
    meta.update({
        "id": sid,
        "breaks_property": sid.split("-")[0],
        "author": "fresh sub-agent given only the property text and a scratch worktree",
        "needs_to_manifest": notes,
        "confirmed_by": ("tools/seedcheck.py in a scratch worktree of /repo HEAD: demonstration passes on the unchanged tree; "
                         "patch applies; go build ./... succeeds; the repository's test suite passes with the patch; "
                         "the demonstration fails with the patch"),
        "confirmation": {k: first.get(k) for k in ("demo_passes_unchanged", "patch_applies", "builds",
                                                   "suite_passes_with_patch", "demo_fails_with_patch")},
        "demonstration": "copy demo_test.go.txt to the path named in its first line (// copy to: ...) and run go test there",
    })
    checks = meta.get("checks", {})
    for r in results:
        for c, v in r.get("checks", {}).items():
            checks[c] = {"tier": r.get("tier", "quick"), "exit": v["exit"], "caught": v["exit"] == 1,
                         "violations": v["violations"][:6]}
    meta["checks"] = checks
    meta["caught_by"] = sorted(c for c, v in checks.items() if v["caught"])
    json.dump(meta, open(meta_path, "w"), indent=1)
    print(sid, "kept; caught by", meta["caught_by"] or "NOTHING")


if __name__ == "__main__":
    main()
