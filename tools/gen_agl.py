#!/usr/bin/env python3
"""Writes AGLData.tla (default: /verif/.build/gen/AGLData.tla): the tables of the
Adobe Glyph List specification as sorted TLA+ sequences.

  AglGlyphList  <<name, text>>   from agl-aglfn/glyphlist.txt     (sorted by name bytes)
  AglDingbats   <<name, text>>   from agl-aglfn/zapfdingbats.txt  (sorted by name bytes)
  AglFN         <<scalar, name>> from agl-aglfn/aglfn.txt         (sorted by scalar)
  AglCompat     <<scalar, text>> from type1/names/compat.go       (sorted by scalar)

This is an INDEPENDENT reader of the three .txt files: it is written from the
format description in the file headers (semicolon-delimited fields, `#` comment
lines, blank lines ignored; second field of glyphlist.txt is a space separated
list of 4-digit upper-case hexadecimal scalar values) and shares no code with
/repo/type1/names/names.go.  In particular the value of an entry is the whole
SEQUENCE of scalars.

The compatibility-expansion table is NOT part of the AGL specification.  It
exists only in the library (compat.go); property C16 calls it "its documented
compatibility expansion".  It is extracted here textually (regular expression
over the Go map literal) and enters the specification as data *documented by
the library*; the specification demands of it only what the property needs
(see AGL.tla, AglCompatWellFormed).

Usage: gen_agl.py [--repo /repo] [--out FILE]   prints a JSON summary on stdout.
Every structural assumption the specification relies on is asserted here as
well (and re-checked by TLC in MC_AGL, family "selfcheck").
"""
import argparse
import json
import os
import re
import sys

HEX4 = re.compile(r"^[0-9A-F]{4}$")
NAME = re.compile(r"^[A-Za-z0-9]+$")


def data_lines(path):
    with open(path, "rb") as f:
        raw = f.read()
    for n, line in enumerate(raw.split(b"\n"), 1):
        line = line.rstrip(b"\r")
        if not line.strip() or line.startswith(b"#"):
            continue
        yield n, line.decode("ascii")


def read_name_first(path, multi):
    """glyphlist.txt / zapfdingbats.txt: name;XXXX[ XXXX]*"""
    out = {}
    for n, line in data_lines(path):
        f = line.split(";")
        if len(f) != 2:
            sys.exit("%s:%d: expected two fields" % (path, n))
        name, val = f
        if not NAME.match(name):
            sys.exit("%s:%d: bad glyph name %r" % (path, n, name))
        vals = val.split(" ")
        if not all(HEX4.match(v) for v in vals) or (len(vals) != 1 and not multi):
            sys.exit("%s:%d: bad value %r" % (path, n, val))
        if name in out:
            sys.exit("%s:%d: duplicate name %r" % (path, n, name))
        out[name] = [int(v, 16) for v in vals]
    return out


def read_aglfn(path):
    """aglfn.txt: XXXX;name;description"""
    out = {}
    names = set()
    for n, line in data_lines(path):
        f = line.split(";")
        if len(f) != 3 or not HEX4.match(f[0]) or not NAME.match(f[1]):
            sys.exit("%s:%d: bad record" % (path, n))
        r = int(f[0], 16)
        if r in out or f[1] in names:
            sys.exit("%s:%d: duplicate scalar or name" % (path, n))
        out[r] = f[1]
        names.add(f[1])
    return out


def read_compat(path):
    """compat.go: `0xXXXX: {0xXXXX, 0xXXXX, ...},` lines inside `var compat = map[rune][]rune{ ... }`"""
    src = open(path).read()
    m = re.search(r"var\s+compat\s*=\s*map\[rune\]\[\]rune\s*\{(.*?)\n\}", src, re.S)
    if not m:
        sys.exit("%s: compat table not found" % path)
    out = {}
    body = m.group(1)
    entries = re.findall(r"(0x[0-9A-Fa-f]+)\s*:\s*\{([^}]*)\}", body)
    # every non-blank line of the literal must be one entry (nothing is skipped silently)
    nlines = len([l for l in body.split("\n") if l.strip() and not l.strip().startswith("//")])
    if nlines != len(entries):
        sys.exit("%s: %d lines but %d entries recognised" % (path, nlines, len(entries)))
    for k, v in entries:
        r = int(k, 16)
        vals = [int(x.strip(), 16) for x in v.split(",") if x.strip()]
        if r in out:
            sys.exit("%s: duplicate key %x" % (path, r))
        out[r] = vals
    return out


def is_scalar(r):
    return 0 <= r <= 0x10FFFF and not (0xD800 <= r <= 0xDFFF)


def tup(xs):
    return "<<" + ",".join(str(x) for x in xs) + ">>"


def bts(s):
    return tup(s.encode("ascii"))


def main():
    ap = argparse.ArgumentParser()
    ap.add_argument("--repo", default=os.environ.get("VERIF_REPO", "/repo"))
    ap.add_argument("--out", default=os.path.join(os.path.dirname(os.path.abspath(__file__)), "..", ".build", "gen",
                                                  "AGLData.tla"))
    a = ap.parse_args()
    base = os.path.join(a.repo, "type1", "names")
    gl = read_name_first(os.path.join(base, "agl-aglfn", "glyphlist.txt"), multi=True)
    zd = read_name_first(os.path.join(base, "agl-aglfn", "zapfdingbats.txt"), multi=False)
    fn = read_aglfn(os.path.join(base, "agl-aglfn", "aglfn.txt"))
    cp = read_compat(os.path.join(base, "compat.go"))

    # structural facts the specification relies on (re-checked by TLC)
    for t in list(gl.values()) + list(zd.values()) + list(cp.values()):
        assert all(is_scalar(r) for r in t), t
    assert all(is_scalar(r) for r in list(fn) + list(cp))
    # (defects of the library's table are not this script's to judge: expansions shorter than two
    # characters or shared by two characters are reported by TLC, MC_AGL!CompatCheck)
    uform = re.compile(r"^u[0-9A-F]{4,}$")
    assert not any(uform.match(n) for n in fn.values()), "an AGLFN name has the u-form"

    out = os.path.abspath(a.out)
    os.makedirs(os.path.dirname(out), exist_ok=True)
    with open(out + ".tmp", "w") as f:
        f.write("------------------------------ MODULE AGLData ------------------------------\n")
        f.write("(* GENERATED by tools/gen_agl.py -- do not edit.  Tables of the Adobe Glyph   *)\n")
        f.write("(* List specification read by an independent parser from glyphlist.txt,      *)\n")
        f.write("(* zapfdingbats.txt and aglfn.txt; AglCompat is the compatibility expansion  *)\n")
        f.write("(* table documented by the library in type1/names/compat.go.                 *)\n")
        f.write("(* Names are byte sequences; all tables are sorted by their key (names in    *)\n")
        f.write("(* lexicographic byte order) so that AGL.tla can use binary search.          *)\n")
        f.write("\n\\* glyphlist.txt: %d entries, %d of them denote several characters\n" %
                (len(gl), sum(1 for v in gl.values() if len(v) > 1)))
        f.write("AglGlyphList == <<\n")
        keys = sorted(gl, key=lambda s: s.encode("ascii"))
        f.write(",\n".join("  <<%s, %s>>" % (bts(k), tup(gl[k])) for k in keys))
        f.write("\n>>\n\n\\* zapfdingbats.txt: %d entries\nAglDingbats == <<\n" % len(zd))
        keys = sorted(zd, key=lambda s: s.encode("ascii"))
        f.write(",\n".join("  <<%s, %s>>" % (bts(k), tup(zd[k])) for k in keys))
        f.write("\n>>\n\n\\* aglfn.txt: %d entries <<scalar, name>>\nAglFN == <<\n" % len(fn))
        f.write(",\n".join("  <<%d, %s>>" % (r, bts(fn[r])) for r in sorted(fn)))
        f.write("\n>>\n\n\\* compat.go: %d entries <<scalar, expansion>> (documented by the library)\nAglCompat == <<\n" % len(cp))
        f.write(",\n".join("  <<%d, %s>>" % (r, tup(cp[r])) for r in sorted(cp)))
        f.write("\n>>\n")
        f.write("=============================================================================\n")
    os.replace(out + ".tmp", out)
    # Independent anchor for the library's table (reported, never used by the specification):
    # an entry deserves the name "compatibility expansion" only if it is compatibility-equivalent
    # to the character in the Unicode character database (NFKD of both sides agree).
    import unicodedata
    not_equiv = sorted(r for r, v in cp.items()
                       if unicodedata.normalize("NFKD", chr(r)) != unicodedata.normalize("NFKD", "".join(map(chr, v))))
    special = set(fn) | set(cp)
    for t in list(gl.values()) + list(zd.values()) + list(cp.values()):
        special.update(t)
    for b in (0, 0x7F, 0x80, 0xFF, 0x100, 0xFFF, 0x1000, 0xD7FF, 0xE000, 0xFFFF, 0x10000, 0x1FFFF, 0x20000, 0xFFFFF,
              0x100000, 0x10FFFF):
        special.add(b)
    special |= {r + d for r in list(special) for d in (-1, 1)}
    special = sorted(r for r in special if is_scalar(r))
    summary = {
        "out": out,
        "unicodedata": unicodedata.unidata_version,
        "compat_not_compatibility_equivalent": not_equiv,
        "special_scalars": special,
        "glyphlist": len(gl),
        "glyphlist_multi": sum(1 for v in gl.values() if len(v) > 1),
        "dingbats": len(zd),
        "aglfn": len(fn),
        "compat": len(cp),
        "aglfn_not_in_glyphlist": sorted(n for n in fn.values() if n not in gl),
        "aglfn_glyphlist_conflicts": sorted(n for r, n in fn.items() if n in gl and gl[n] != [r]),
        "names_in_both_lists": sorted(set(gl) & set(zd)),
        "compat_scalars_with_aglfn_name": sorted(r for r in cp if r in fn),
    }
    json.dump(summary, sys.stdout)
    sys.stdout.write("\n")


if __name__ == "__main__":
    main()
