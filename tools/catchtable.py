#!/usr/bin/env python3
"""tools/catchtable.py : markdown table of the seeded changes (seeded/*/meta.json) and the checks that catch them."""
import json
import os
import sys

VERIF = os.path.dirname(os.path.dirname(os.path.abspath(__file__)))


def first_sentence(s, n=230):
    s = " ".join(s.split())
    return s if len(s) <= n else s[:n].rsplit(" ", 1)[0] + " ..."


def change_summary(notes, n=210):
    """The author's own description, from 'Change:' / 'What:' on, without the seed heading."""
    s = " ".join(notes.split())
    for key in ("Change:", "What:", "Where:"):
        i = s.find(key)
        if 0 <= i < 400:
            s = s[i + len(key):].strip()
            break
    s = s.replace("|", "/")
    return s if len(s) <= n else s[:n].rsplit(" ", 1)[0] + " ..."


def main():
    rows = []
    for sid in sorted(os.listdir(os.path.join(VERIF, "seeded"))):
        mp = os.path.join(VERIF, "seeded", sid, "meta.json")
        if not os.path.exists(mp):
            continue
        m = json.load(open(mp))
        patch = open(os.path.join(VERIF, "seeded", sid, "patch.diff")).read()
        files = sorted({l.split(" b/", 1)[1].strip() for l in patch.splitlines() if l.startswith("diff --git")})
        caught = ", ".join(m.get("caught_by") or []) or "**missed**"
        first = m.get("first_run_caught")
        note = "" if first is None or first else " (after strengthening)"
        if not m.get("caught_by") and m.get("why_not_caught"):
            caught = "not caught: " + m["why_not_caught"]
        if m.get("obsolete_since"):
            note += "; harmless since the repair %s, no longer reported" % m["obsolete_since"]
        viol = ""
        for c in m.get("caught_by") or []:
            v = [x for x in m["checks"][c]["violations"] if x.startswith("  ->")]
            if v:
                viol = first_sentence(v[0][5:], 150)
                break
        rows.append("| %s | %s | %s | %s%s | %s |" % (sid, ", ".join(files), (m.get("summary") or change_summary(m["needs_to_manifest"])), caught, note, viol))
    table = "| seed | file | change (author's words) | caught by | reported as |\n|---|---|---|---|---|\n" + "\n".join(rows) + "\n"
    if "--update-design" in sys.argv:
        path = os.path.join(VERIF, "DESIGN.md")
        text = open(path).read()
        a, b = "<!-- seeded-table:begin -->\n", "<!-- seeded-table:end -->"
        i, j = text.index(a) + len(a), text.index(b)
        open(path, "w").write(text[:i] + table + text[j:])
        print("DESIGN.md updated: %d seeds" % len(rows))
    else:
        print(table)


if __name__ == "__main__":
    main()
