#!/usr/bin/env python3
"""Regenerates /verif/MANIFEST.json from the table below (one entry per
implemented check).  Properties without an entry are listed under
not_applicable with the reason given in PENDING."""
import json
import os

HERE = os.path.dirname(os.path.abspath(__file__))
VERIF = os.path.dirname(HERE)

TRUSTED = ("Trusted base: TLC; the transcription of the reference into TLA+; the Go binding under harness/ "
           "(materialisation, projection, structural comparison); BigInt/Dyadic cross-checked against math/big at setup.")
TECH_MBT = "explicit TLA+ specification, TLC bounded-exhaustive enumeration, model-based test replay into the Go library"

DONE = {
    "C01": dict(
        text=("PSMachine is total (every step continues, ends or fails; budget and limits bound every run); TLC enumerates "
              "every operator of systemdict and CIDInit x adversarial operand tuples and size-parameterised recursion/growth "
              "shapes; the harness runs each against the real readers in child processes (address-space limit, watchdogs) and "
              "reports panics, fatal runtime errors and hangs; hostile charstrings and subroutines, hostile lenIV, every PFB "
              "stream of MC_PFB, corpus files with one byte replaced or cut off at every offset (incl. fonts with CR and CR LF "
              "line ends), AFM files announcing about 2^e entries. A deliberate panic is the negative control of every run. "
              "Bounded-exhaustive over the pools, sampled beyond; no proof of absence of panics."),
        ref="6.1, 11 C01", tech=TECH_MBT + " (crash oracle, child processes)"),
    "C02": dict(
        text=("PSOps.tla (PLRM semantics of the data operators with exact 64-bit integers, correctly rounded reals, "
              "aliasing heap) is enumerated by TLC over every operator x operand tuple of a typed pool; every behaviour is "
              "replayed into the real interpreter and final stacks, dictionaries, reachable heap graph or error name are "
              "compared; families of short programs add dictionary literals, creating operators executed twice around a "
              "change (nothing is handed out twice) and fed random programs. Bounded-exhaustive over the pool, not a proof."),
        ref="6.1, 11 C02", tech=TECH_MBT),
    "C03": dict(
        text=("PSMachine.tla (small-step machine with continuation stack) is run by TLC on every program of a control-flow "
              "grammar (24 forms x bodies x nesting) and on dictionary-stack lookup programs; action properties "
              "ExitScoping, ProcLiteralDeferred, StopIsSuccess are checked on the specification; every behaviour is replayed "
              "and final state, error name and operation count compared."),
        ref="6.1, 11 C03", tech=TECH_MBT),
    "C04": dict(
        text=("PSLex.tla is the PLRM tokenizer as a function from bytes to tokens and DSC comments. TLC enumerates every "
              "byte string up to length 3/4 over representative bytes, object sequences in hand-written spellings joined "
              "by every legal separator (with the specification's own round trip as a TLC invariant), seeded random walks "
              "of longer sequences and DSC layouts (also handed over in several calls); the library must read the same tokens. Trace validation: the output "
              "of String.PS / Name.PS is lexed by the specification."),
        ref="6.2, 11 C04", tech=TECH_MBT + " + trace validation of the serialisers"),
    "C05": dict(
        text=("Eexec.tla: the cipher identities are checked by TLC on every cipher state x byte; MC_Eexec prescribes with "
              "PSMachine the state after a section (plaintext run with systemdict pushed, closefile / end of file, clear "
              "trailer) for plaintext programs x forms x every legal lead-byte class pattern x white-space patterns x "
              "blanks x the white space ending the section (LF, CR, CR LF) x trailers, sections placed at the scanner's refill boundaries; the harness encrypts with its own cipher (checked against Eexec.tla) and compares the "
              "interpreter state; cipher coverage through readstring on long random sections."),
        ref="6.3, 11 C05", tech=TECH_MBT),
    "C06": dict(
        text=("T1Charstring.tla is the Type 1 BuildChar machine with exact rationals; MC_T1Font assembles model fonts "
              "(every charstring command incl. flex after move/line/curve, div, subroutines, hint replacement, sbw, stem3, "
              "seac composites; every container x lenIV x RD/-| names x number encoding x encoding form x line ends LF / CR / CR LF, "
              "an encrypted portion beyond 64 KiB; FontInfo / Private variants with defaults; date layouts x line ends) and prescribes the font a reader must return; an independent writer "
              "in the harness (own ciphers, checked against Eexec.tla) serialises them and type1.Read is compared field by "
              "field. Bounded-exhaustive over the grammar, not a proof."),
        ref="6.5, 10, 11 C06", tech=TECH_MBT),
    "C07": dict(
        text=("CIDInit.tla on PSMachine executes generated CMap files (options x block sequences of the seven kinds x "
              "entry counts incl. 0/99/100 and 101 supplied entries x mixed code lengths x every destination type x single-fault variants) and "
              "prescribes the dictionary ReadCMap must return, or an error; the harness lays the tokens out with seeded "
              "white space, comments and hex case and compares name, system info, type, WMode and every table."),
        ref="6.4, 11 C07", tech=TECH_MBT),
    "C14": dict(
        text=("PFB.tla states the decoding contract (Decode, fill-the-buffer reads, error classes); PFBImpl.tla is the "
              "five-state machine of the decoder with in-place expansion and parked nibble, checked by TLC as a refinement of "
              "PFB.tla for all segment sequences, caller buffer-size sequences and underlying short-read patterns within "
              "bounds; MBT vectors (exhaustive small incl. a Read with an empty buffer, simulated large, all 65536 header byte "
              "pairs, described segments of 64 KiB and 16 MiB) are replayed against pfb.Decode and recorded per-Read traces are validated by TLC (TracePFB)."),
        ref="6.9, 11 C14", tech="explicit TLA+ specification + refinement check with TLC, model-based test replay and trace validation"),
    "C08": dict(
        text=("Font.Write (4 formats) and WritePDF outputs are taken apart by an independent decoder in the harness (PFB "
              "framing, hex, eexec 55665, charstring 4330 + four lead bytes, number/command decoding, tokenizer); TLC validates "
              "the recorded file structure against T1File.tla (segment lengths, end marker, legal lead bytes, WritePDF "
              "lengths) and runs every integer glyph's charstring on the BuildChar machine T1Charstring.tla, demanding the "
              "input glyph and proper number formats; dictionaries, encoding and fractional outlines are compared by the "
              "harness on the independently tokenized program. In addition (TraceT1Exec) the written clear-text program of "
              "small fonts is executed by the specification's own PostScript machine PSMachine.tla in TLC, which must end "
              "with one font whose dictionaries, encoding, info strings, Private values and decrypted charstrings say what "
              "the font says."),
        ref="6.5, 11 C08", tech="explicit TLA+ specification, trace validation of the writer's output with TLC"),
    "C09": dict(
        text=("RoundTrip.tla defines Equiv9 on projected fonts; the harness generates fonts along the axes the property "
              "names, writes each in the four formats, reads it back and records the projected pair as a trace event; TLC "
              "validates every event against Equiv9 (TraceRoundTrip) and names the rejected ones. The specification is a "
              "relation over recorded histories; the strength comes from the generator axes."),
        ref="6.7, 11 C09, 13", tech="explicit TLA+ relation, trace validation of write/read histories with TLC"),
    "C15": dict(
        text=("AFMFormat.tla (line machine, used as independent reader) and AFMCycle.tla (EquivAFM, QuantAFM, second-cycle "
              "identity on exact float64 values); TLC generates model metrics and layouts (MBT both through Metrics.Write "
              "and through an independent writer), validates what Metrics.Write emits line by line, and validates "
              "Read/(Write,Read)^2 histories of accepted inputs."),
        ref="6.7, 11 C15", tech=TECH_MBT + " + trace validation"),
    "C19": dict(
        text=("FontQuery.tla defines GlyphList as a relation and NumGlyphs, glyph / font boxes (plain and PDF), PDF widths "
              "exactly; TLC enumerates small fonts and metrics (glyph sets, encodings incl. non-injective, command lists on a "
              "grid, axis-aligned matrices) with the prescribed answers; the harness calls every query method of type1.Font "
              "and afm.Metrics and compares."),
        ref="6.11, 11 C19", tech=TECH_MBT),
    "C10": dict(
        text=("Accepted inputs (independent writer with unusual legal content, TLC-generated model fonts, fuzz corpus) go "
              "through Read, (Write, Read)^2 in every format; TLC validates every history against RoundTrip!Quant10 (widths "
              "rounded half away from zero, coordinates within 1/214, BlueScale snap) and F2 = F3; write errors and panics on "
              "accepted fonts are violations. A relation over recorded histories; strength comes from the inputs."),
        ref="6.7, 11 C10, 13", tech="explicit TLA+ relation, trace validation of read/write/read histories with TLC"),
    "C11": dict(
        text=("Budget: PSMachine counts operations exactly as the library; TLC checks BudgetTransparent on the lock-step "
              "product of a budgeted and an unbudgeted run for every program x budget and the behaviours are replayed with "
              "MaxOps=N (error identity, NumOps, state), also split over two Execute calls and inside eexec sections. Limits: "
              "recursion/growth shapes against the measured constants; recursion not in tail position must be ended by the nesting "
              "limit whatever object the control operator was given. "
              "Start check: PSStart.tla over all 65536 two-byte prefixes and all call histories up to length 3-4."),
        ref="6.1, 11 C11", tech=TECH_MBT),
}

DONE["C20"] = dict(
    text=("T1Charstring!CanonicalNum / DecodeNum specify the four number formats; every integer of a range, all format "
          "boundaries and powers of two, as coordinate delta / width / hint, is written by Font.Write, located in the file by "
          "the independent decoder and validated by TLC (bytes = proper format, decode = value, value read back); fractional "
          "deltas: TLC checks p q div with exact arithmetic (q <= 107, |p/q - x| <= 1/214); long paths: every point within "
          "1/214 after independent decoding and after type1.Read; T1Drift.tla: TLC verifies the no-accumulation design "
          "argument for unbounded path length on a scaled model."),
    ref="6.5, 6.6, 11 C20", tech="explicit TLA+ specification, trace validation with TLC + exhaustive model check of the drift argument")

DONE["C12"] = dict(
    text=("ScanBuf.tla models the scanner's refill / peek layer over an io.Reader with arbitrary short reads and EOF timing; "
          "TLC checks NothingLost / ErrSticky / EofOnlyAtEnd over all schedules on short inputs and enumerates chunk schedules; "
          "the harness runs a corpus through all five entry points under every two-chunk split, one-byte reads and every "
          "schedule x EOF mode x seekable and compares with the all-at-once run; multi-call splits of programs are generated "
          "and checked (SplitTransparent) with PSMachine and replayed."),
    ref="6.8, 11 C12", tech=TECH_MBT + " (delivery schedules)")
DONE["C13"] = dict(
    text=("Faults.tla states the outcome rules (no panic; delivered fault => error; undelivered => unharmed result; truncated "
          "font / CMap => error or complete result); the harness injects a read fault and a truncation at every byte offset of "
          "every corpus input and a write fault at every write-call index (plus sampled short writes) of every writer; TLC "
          "validates every recorded run. The specification is a thin rule set; the strength is the enumeration of fault points."),
    ref="6.8, 11 C13, 13", tech="fault enumeration, every run validated by TLC against an explicit TLA+ rule set")
DONE["C17"] = dict(
    text=("Determinism.tla: history invariant (one digest per call and input) and an emitter model showing that only sorting "
          "emission loops are deterministic; repeated writes / reads of map-heavy fonts, metrics and multi-CMap files within and "
          "across processes are recorded and validated by TLC."),
    ref="6.11, 11 C17, 13", tech="explicit TLA+ history invariant, trace validation with TLC")
DONE["C18"] = dict(
    text=("PSIsolation.tla (templates, clone vs share; TLC finds the violation when the CIDInit template is shared) drives hostile "
          "histories whose probe digest must equal a clean process; NameTable.tla (mutex-guarded lazy tables; TLC finds the "
          "partial read without the lock) is bound by hook events (H3) recorded under the mutex in first-use races and validated "
          "by TLC; the same runs execute in a -race build whose reports are violations."),
    ref="6.10, 6.11, 11 C18, 13", tech="explicit TLA+ specifications checked with TLC, model-driven hostile histories, hook trace validation, Go race detector as observer",
    note=TRUSTED + " Data races in the Go memory-model sense are observed by the race detector on model-driven runs.")

DONE["C16"] = dict(
    text=("AGL.tla transcribes the Adobe Glyph List specification (ToText, FromScalar, Valid) over byte sequences with tables "
          "generated by an independent parser of the three .txt files; TLC checks the specification's own round trip and table "
          "well-formedness, enumerates every table entry, uni/u forms around all boundaries, malformed and composite names and the "
          "validity classes (MBT), and validates the library's answers for every Unicode scalar value, one event per scalar, in "
          "parallel chunks (thorough: all 1,112,064; quick: BMP and border ranges)."),
    ref="6.10, 11 C16", tech=TECH_MBT + " + exhaustive trace validation of all scalars")

PENDING = "check not built yet in this round (planned, see DESIGN.md section 11)"


def main():
    props = [json.loads(l) for l in open(os.path.join(VERIF, "properties.jsonl"))]
    bl = json.load(open("/root/.vp/BASELINE.json"))
    checks = []
    for p in props:
        d = DONE.get(p["id"])
        if not d:
            continue
        checks.append({
            "property_id": p["id"],
            "quick_cmd": "python3 check.py %s --tier quick" % p["id"],
            "thorough_cmd": "python3 check.py %s --tier thorough" % p["id"],
            "evidence_file": "evidence/%s.json" % p["id"],
            "replay_cmd_template": "python3 check.py %s --replay {path}" % p["id"],
            "engine": "tlc-binding",
            "level_claimed": {"category": d.get("cat", "model_checking"), "text": d["text"], "design_ref": d["ref"]},
            "level_note": d.get("note", TRUSTED),
            "technique": d["tech"],
        })
    hooks_commits = []
    hf = os.path.join(VERIF, "hooks_commits.txt")
    if os.path.exists(hf):
        hooks_commits = [l.split()[0] for l in open(hf) if l.strip()]
    m = {
        "version": 1,
        "setup_cmd": "python3 setup.py",
        "hooks": {
            "guard": "verif",
            "enable": "go build -tags verif (engine/core.py build_harness builds the harness, and with it /repo, with the tag)",
            "baseline_off_cmd": bl["cmd"],
            "source_commits": hooks_commits,
            "add_only": True,
        },
        "engines": [{
            "name": "tlc-binding", "path": "engine/core.py", "serves_properties": sorted(DONE),
            "kind_free_text": ("TLC generates behaviours of explicit TLA+ specifications (stimulus + prescribed outcome) or "
                               "validates traces recorded from the library; harness/cmd/vh is the Go side of the binding"),
        }],
        "checks": checks,
        "notes": ("One check = python3 check.py <id> --tier quick|thorough; exit 0 held / 1 violation (VIOLATION line) / "
                  "2 check broken (never a verdict). known_findings.json lists repaired and known defects. See DESIGN.md."),
        "not_applicable": [{"property_id": p["id"], "reason": PENDING} for p in props if p["id"] not in DONE],
    }
    with open(os.path.join(VERIF, "MANIFEST.json"), "w") as f:
        json.dump(m, f, indent=1)
        f.write("\n")


if __name__ == "__main__":
    main()
