#!/usr/bin/env python3
"""tools/evtable.py [--update-design]: a table of what the last run of every check covered, taken from
evidence/<id>.json (between the markers <!-- evidence-table:begin/end --> of DESIGN.md)."""
import json
import os
import sys

VERIF = os.path.dirname(os.path.dirname(os.path.abspath(__file__)))


def main():
    rows = ["| id | tier | TLC states (all runs) | vectors / events replayed or validated | distinct stimuli | wall |",
            "|---|---|---|---|---|---|"]
    for i in range(1, 21):
        pid = "C%02d" % i
        e = json.load(open(os.path.join(VERIF, "evidence", pid + ".json")))
        c = e["coverage"]
        rows.append("| %s | %s | %s | %s | %s | %.0f s |" % (pid, e["tier"], "{:,}".format(c.get("states", 0)),
                                                            "{:,}".format(c.get("traces_validated_against_impl", 0)),
                                                            "{:,}".format(c.get("distinct_nontrivial", 0)), e.get("wall_s", 0)))
    text = "\n".join(rows)
    if "--update-design" in sys.argv:
        p = os.path.join(VERIF, "DESIGN.md")
        d = open(p).read()
        b, en = "<!-- evidence-table:begin -->", "<!-- evidence-table:end -->"
        i, j = d.index(b) + len(b), d.index(en)
        open(p, "w").write(d[:i] + "\n" + text + "\n" + d[j:])
        print("DESIGN.md updated")
    else:
        print(text)


if __name__ == "__main__":
    main()
