#!/usr/bin/env python3
"""tools/seedcheck.py <seed-dir> <Cxx> [<Cyy> ...] [--tier quick]

Confirms a seeded change (patch.diff + demo test) in a scratch worktree, then applies it to
/repo, runs the named checks, and undoes it straight afterwards.  Prints a JSON summary."""
import json
import os
import re
import shutil
import subprocess
import sys
import tempfile

ENV = dict(os.environ, GOFLAGS="-mod=mod", GOPROXY="off", GOSUMDB="off", GOTOOLCHAIN="local")
# what TLC derives from the specification does not depend on the library: seed checks reuse it
ENV.setdefault("VERIF_TLC_CACHE", "/tmp/tlc-cache")
VERIF = os.path.dirname(os.path.dirname(os.path.abspath(__file__)))


def sh(cmd, cwd, timeout=1800):
    p = subprocess.run(cmd, cwd=cwd, env=ENV, capture_output=True, text=True, errors="replace", timeout=timeout)
    return p.returncode, p.stdout + p.stderr


def demo_target(path):
    first = open(path).readline()
    m = re.search(r"copy to:\s*(\S+)", first)
    return m.group(1) if m else None


def main():
    args = [a for a in sys.argv[1:] if not a.startswith("--")]
    tier = "quick"
    if "--tier" in sys.argv:
        tier = sys.argv[sys.argv.index("--tier") + 1]
        args.remove(tier)
    seed, props = os.path.abspath(args[0]), args[1:]
    patch = os.path.join(seed, "patch.diff")
    demos = [f for f in os.listdir(seed) if f.endswith("_test.go")]
    res = {"seed": seed, "props": props, "tier": tier}
    wt = tempfile.mkdtemp(prefix="seedwt-")
    os.rmdir(wt)
    rc, out = sh(["git", "-C", "/repo", "worktree", "add", "-q", "--detach", wt, "HEAD"], "/repo")
    try:
        def run_demo():
            results = []
            for d in demos:
                tgt = demo_target(os.path.join(seed, d))
                if not tgt:
                    results.append((d, None, "no 'copy to:' line"))
                    continue
                dst = os.path.join(wt, tgt)
                shutil.copyfile(os.path.join(seed, d), dst)
                # only the demonstration's own tests: the package's other tests may leave state behind that hides it
                names = re.findall(r"^func (Test\w+)\(", open(os.path.join(seed, d)).read(), re.M)
                rc, out = sh(["go", "test", "-vet=off", "-count=1", "-run", "^(" + "|".join(names) + ")$" if names else ".",
                              "./" + os.path.dirname(tgt)], wt)
                os.remove(dst)
                results.append((d, rc, out[-600:]))
            return results
        base_demo = run_demo()
        res["demo_passes_unchanged"] = all(r[1] == 0 for r in base_demo)
        rc, out = sh(["git", "apply", patch], wt)
        res["patch_applies"] = rc == 0
        if rc != 0:
            res["error"] = out[-500:]
            print(json.dumps(res, indent=1))
            return
        rc, out = sh(["go", "build", "./..."], wt)
        res["builds"] = rc == 0
        rc, out = sh(["go", "test", "-vet=off", "-count=1", "./..."], wt)
        res["suite_passes_with_patch"] = rc == 0
        if rc != 0:
            res["suite_output"] = out[-800:]
        mut_demo = run_demo()
        res["demo_fails_with_patch"] = all(r[1] not in (0, None) for r in mut_demo)
    finally:
        sh(["git", "-C", "/repo", "worktree", "remove", "--force", wt], "/repo")
        shutil.rmtree(wt, ignore_errors=True)
    confirmed = res.get("demo_passes_unchanged") and res.get("builds") and res.get("suite_passes_with_patch") and res.get("demo_fails_with_patch")
    res["confirmed"] = bool(confirmed)
    # run the checks against /repo with the patch applied
    rc, out = sh(["git", "-C", "/repo", "status", "--porcelain"], "/repo")
    if out.strip():
        res["error"] = "/repo is not clean"
        print(json.dumps(res, indent=1))
        return
    rc, out = sh(["git", "-C", "/repo", "apply", patch], "/repo")
    try:
        checks = {}
        for p in props:
            ev = os.path.join(VERIF, "evidence", p + ".json")
            saved = open(ev).read() if os.path.exists(ev) else None
            rc, out = sh([sys.executable, "check.py", p, "--tier", tier], VERIF, timeout=3600)
            if saved is not None:      # evidence of the unchanged tree is kept, not the mutant's
                open(ev, "w").write(saved)
            shutil.rmtree(os.path.join(VERIF, "replays", p), ignore_errors=True)
            viol = [l for l in out.splitlines() if l.startswith("VIOLATION") or l.startswith("  ->")]
            checks[p] = {"exit": rc, "violations": viol[:8], "tail": out.splitlines()[-1] if out.splitlines() else ""}
        res["checks"] = checks
    finally:
        sh(["git", "-C", "/repo", "checkout", "--", "."], "/repo")
        sh(["git", "-C", "/repo", "clean", "-fdq"], "/repo")
    print(json.dumps(res, indent=1))


if __name__ == "__main__":
    main()
