#!/usr/bin/env python3
"""python3 check.py <Cxx> [--tier quick|thorough] [--replay PATH]

Runs the check of one property (see MANIFEST.json) and writes
evidence/<Cxx>.json.  VERIF_SEED / VERIF_TIER are honoured.
"""
import argparse
import importlib
import os
import sys
import traceback

sys.path.insert(0, os.path.dirname(os.path.abspath(__file__)))
from engine import core  # noqa: E402


def main():
    ap = argparse.ArgumentParser()
    ap.add_argument("prop")
    ap.add_argument("--tier", default=os.environ.get("VERIF_TIER") or "quick")
    ap.add_argument("--replay", default=None)
    ap.add_argument("--keep", action="store_true", help="keep the scratch directory")
    a = ap.parse_args()
    if a.tier not in ("quick", "thorough"):
        a.tier = "quick"
    try:
        seed = int(os.environ.get("VERIF_SEED", "1"))
    except ValueError:
        seed = 1
    prop = a.prop.upper()
    ctx = core.Ctx(prop, a.tier, seed)
    rc = 2
    try:
        mod = importlib.import_module("checks." + prop.lower())
        if a.replay and hasattr(mod, "replay"):
            mod.replay(ctx, a.replay)
        elif a.replay:
            # generic replay: the recorded disagreement names its stimulus in words; the check is run
            # again with the recorded tier and seed and only that signature is looked for
            import json
            rec = json.load(open(a.replay))
            core.log("[replay] %s: %s" % (rec.get("sig"), rec.get("what")))
            core.log("[replay] stimulus: %s" % (str(rec.get("stimulus"))[:600],))
            ctx.tier, ctx.seed = rec.get("tier", ctx.tier), rec.get("seed", ctx.seed)
            mod.run(ctx)
            ctx.violations = [v for v in ctx.violations if v["sig"] == rec.get("sig")]
            if not ctx.violations:
                core.log("[replay] not reproduced: the signature does not occur on the current tree")
        else:
            mod.run(ctx)
        rc = ctx.finish()
    except core.Broken as ex:
        core.log("[broken] %s: %s" % (prop, ex))
        if ctx.has_unlisted_violations():
            # disagreements between the real code and the specification were already observed and
            # reproduced: they stand, whatever a later control, vacuity guard or sub-check could not do
            # (such guards are computed on the tree under test and may themselves trip over the change)
            ctx.notes.append("a later guard could not be evaluated: %s" % (str(ex).splitlines()[0] if str(ex) else ""))
            try:
                rc = ctx.finish()
            except Exception:
                traceback.print_exc()
                rc = 2
        else:
            print("CHECK-BROKEN property=%s (exit 2, no verdict): %s" % (prop, str(ex).splitlines()[0] if str(ex) else ""))
            rc = 2
    except Exception:
        traceback.print_exc()
        print("CHECK-BROKEN property=%s (exit 2, no verdict): internal error" % prop)
        rc = 2
    finally:
        if a.keep:
            core.log("[keep] scratch: " + ctx.scratch)
        else:
            ctx.cleanup()
    sys.exit(rc)


if __name__ == "__main__":
    main()
