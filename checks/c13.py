"""C13 - I/O faults surface as errors and truncation never yields a partial result."""
import json
import os

from checks import tvcommon
from engine import core


def run(ctx):
    ctx.level = "model_checking"
    ctx.rule = ("For every corpus input (programs, CMaps, AFM, fonts in every container from the library's and the "
                "independent writer, a PFB stream): a read fault at every byte offset 0..len (quick: stride 5 on inputs over "
                "3000 bytes) and a truncation at every offset; for Font.Write x 4 formats, WritePDF and Metrics.Write: a "
                "failing writer at every write-call index and short writes at sampled byte offsets. Every run is an event "
                "(kind, offset, fault delivered?, outcome, result equal to the unharmed run?) that TLC validates against "
                "Faults!RunOK: no panic; delivered fault => error; undelivered => unharmed result; truncated font / CMap => "
                "error or the complete result. Two inputs the reader rejects take part in the fault sweep (a clear-text font "
                "that closes its file at top level, a charstring with a stray pop): a delivered fault must surface, an "
                "undelivered one must leave the very same error.")
    ctx.assumptions = ["any non-nil error counts as surfacing the fault (the injected error need not be wrapped)",
                       "truncation is judged for Type 1 fonts and CMap files only, as the property states"]
    d = ctx.specdir()
    tr = "faults.ndjson"
    r = ctx.vh_json("faults", os.path.join(d, tr), ctx.tier, ctx.seed, timeout=2400)
    lines = open(os.path.join(d, tr)).read().splitlines()
    ctx.traces += len(lines)
    ctx.evaluations += len(lines)
    ctx.nontrivial_extra += len(lines)
    ctx.extra["runs_per_kind_and_entry"] = r["per_kind"]
    ctx.extra["fault_points"] = len(lines)
    ctx.exhaustive = ctx.tier == "thorough"
    ctx.sample(r["axes"][0])
    ctx.sample(json.loads(lines[len(lines) // 2]))
    res, rejected = tvcommon.validate(ctx, d, tr, "TraceFaults", "Holds", "trace-faults")
    if not res.ok:
        raise core.Broken("TraceFaults did not consume the trace: %s\n%s" % (res.violated or res.error, res.out[-1500:]))
    for idx in rejected[:400]:
        ev = json.loads(lines[idx - 1])
        ctx.violation("c13 %s %s: delivered=%s outcome=%s equal=%s" % (ev["kind"], ev["entry"].split(" font")[0], ev["delivered"], ev["outcome"], ev["equal"]),
                      "an I/O fault was swallowed, caused a panic, or a truncated file gave a partial result",
                      stimulus="%s at %s: %s" % (ev["input"], ev["at"], ev.get("detail", "")), spec="Faults!RunOK")
    # negative control
    ev = next(json.loads(l) for l in lines if '"readfault"' in l and '"delivered":true' in l)
    ev["outcome"] = "ok"
    with open(os.path.join(d, "negfaults.ndjson"), "w") as f:
        f.write(json.dumps(ev) + "\n")
    rn, rej = tvcommon.validate(ctx, d, "negfaults.ndjson", "TraceFaults", "Holds", "trace-faults-negctl")
    ctx.extra["negative_controls"] = [{"swallowed_fault_event_rejected": bool(rej)}]
    if not rej:
        raise core.Broken("negative control: a swallowed fault was accepted")
