"""C18 - interpreter instances are isolated and the library is free of data races."""
import json
import os
import subprocess

from checks import pscommon, tvcommon
from engine import core


def run(ctx):
    ctx.rule = ("PSIsolation.tla: instances built from immutable package templates with a CLONE of the CIDInit table; TLC "
                "checks TemplatesUntouched / NewSeesBaseline over all interleavings of New and hostile overwrites of three "
                "instances, and finds the violation when New shares the template. The same module enumerates hostile "
                "histories (sequences of up to MaxHist of ten hostile programs: redefining / overwriting operators, "
                "StandardEncoding slots, CIDInit, errordict, failing half-way, growing stacks); each is run on one instance and "
                "a probe workload (fresh interpreter, every reader over the corpus, writers, name look-ups) must have the "
                "digest of a clean process. NameTable.tla: TLC checks BuildAtMostOnce / NoPartialRead / MutualExclusion for the "
                "mutex-guarded lazy tables and finds the partial read without the lock; a -race build runs first-use races of "
                "G goroutines over all entry points in fresh processes (every reader over the corpus, an operator workout on "
                "per-goroutine values, seven fonts with different glyph sets written in all formats by all goroutines at once): the "
                "race detector must stay silent, results must equal the sequential ones, and the hook events (H3, taken under the table mutex) are validated by TLC against "
                "TraceNameTable.")
    ctx.assumptions = ["data races in the Go memory-model sense are observed by the race detector on the model-driven runs; "
                       "a TLA+ model cannot see an unsynchronised memory access (DESIGN.md section 13)"]
    d = ctx.specdir()
    q = ctx.tier == "quick"
    base = ('CONSTANTS\n  Share = %s\n  Family = "%s"\n  MaxHist = %d\n  OutFile = "hist.ndjson"\nINIT Init\nNEXT Next\n%sCHECK_DEADLOCK FALSE\n')
    invs = "INVARIANT TemplatesUntouched\nINVARIANT FreshIsBaseline\nPROPERTY NewSeesBaseline\n"
    ctx.tlc("PSIsolation", base % ("FALSE", "model", 1, invs), label="isolation-model", workers=4)
    r = ctx.tlc("PSIsolation", base % ("TRUE", "model", 1, invs), label="isolation-shared-template", workers=4, must_pass=False, count=False)
    if r.ok:
        raise core.Broken("non-vacuity: sharing the CIDInit template satisfies the isolation invariants")
    for locked, expect in (("TRUE", True), ("FALSE", False)):
        cfg = ("CONSTANTS\n  Procs = {1, 2, 3}\n  Locked = %s\nINIT Init\nNEXT Next\nINVARIANT BuildAtMostOnce\n"
               "INVARIANT NoPartialRead\nINVARIANT MutualExclusion\nCHECK_DEADLOCK FALSE\n" % locked)
        r = ctx.tlc("NameTable", cfg, label="nametable-locked-" + locked.lower(), workers=2, must_pass=False, count=expect)
        if r.ok != expect:
            raise core.Broken("NameTable (Locked=%s): expected %s" % (locked, expect))
    ctx.extra["negative_controls"] = [{"shared_template_rejected_by_TLC": True, "unlocked_table_rejected_by_TLC": True}]
    # hostile histories
    ctx.tlc("PSIsolation", base % ("FALSE", "hist", 2 if q else 3, "INVARIANT EmitHist\n"), label="hostile-histories", workers=1)
    summ = ctx.vh_json("isolate", os.path.join(d, "hist.ndjson"), timeout=2400)
    pscommon.absorb(ctx, summ, "vh isolate", "PSIsolation!TemplatesUntouched (probe = baseline)")
    ctx.extra["hostile_histories"] = summ["vectors"]
    # race build: first-use races in fresh processes
    rb = ctx.vh_race_bin
    procs = 3 if q else 10
    total_events = 0
    for p in range(procs):
        tr = os.path.join(d, "names-%d.ndjson" % p)
        env = dict(os.environ, GORACE="halt_on_error=0 exitcode=66")
        pr = subprocess.run([rb, "racestress", tr, str(8 if q else 16), str(20 if q else 60)], capture_output=True, text=True, env=env, timeout=1200)
        if "DATA RACE" in pr.stderr or pr.returncode == 66:
            first = pr.stderr[pr.stderr.find("WARNING: DATA RACE"):][:1500]
            where = [ln.strip() for ln in first.splitlines() if "/repo/" in ln][:2]
            ctx.violation("race: data race reported by the race detector in %s" % (where[0].split("/repo/")[-1].split(":")[0] if where else "?"),
                          "concurrent use of the library races", stimulus="vh racestress (process %d)" % p, observed=first)
            continue
        if pr.returncode != 0:
            raise core.Broken("racestress failed: %s" % pr.stderr[-1500:])
        res = json.loads(pr.stdout)
        if res["unstable"]:
            ctx.violation("race: concurrent results differ from each other", "results under concurrent use are not those of sequential use",
                          stimulus="vh racestress", observed=str(res["unstable"]))
        total_events += res["events"]
        ctx.evaluations += res["goroutines"] * res["rounds"]
        # validate the hook events of this process
        cfg = 'CONSTANTS\n  TraceFile = "names-%d.ndjson"\nINIT Init\nNEXT Next\nPOSTCONDITION Accepted\nCHECK_DEADLOCK FALSE\n' % p
        rv = ctx.tlc("TraceNameTable", cfg, workers=1, label="trace-nametable-%d" % p, must_pass=False)
        n = len(open(tr).read().splitlines())
        ctx.traces += n
        if not rv.ok:
            ctx.violation("names: lock discipline violated in the hook trace", "the recorded events are not a behaviour of NameTable.tla",
                          stimulus="names-%d.ndjson" % p, observed=rv.out[-800:], spec="TraceNameTable!Step")
    ctx.extra["nametable_hook_events"] = total_events
    # negative control for the hook trace: drop the 'built' event
    lines = open(os.path.join(d, "names-0.ndjson")).read().splitlines()
    bad = [l for l in lines if '"built"' not in l][:200]
    with open(os.path.join(d, "names-neg.ndjson"), "w") as f:
        f.write("\n".join(bad) + "\n")
    cfg = 'CONSTANTS\n  TraceFile = "names-neg.ndjson"\nINIT Init\nNEXT Next\nPOSTCONDITION Accepted\nCHECK_DEADLOCK FALSE\n'
    rn = ctx.tlc("TraceNameTable", cfg, workers=1, label="trace-nametable-negctl", must_pass=False, count=False)
    if rn.ok:
        raise core.Broken("negative control: a hook trace without the 'built' events was accepted")
    ctx.extra["negative_controls"].append({"hook_trace_without_built_rejected": True})
