"""C03 - procedures, name lookup and control flow follow PostScript semantics."""
from checks import pscommon
from engine import core

PROPS = ("ExitScoping", "ProcLiteralDeferred", "StopIsSuccess")


def run(ctx):
    ctx.rule = ("TLC enumerates (MC_PSProg) programs over a grammar: 17 control forms (exec, if/ifelse both ways, "
                "repeat, for up/down, loop, forall on array/string/dict, bind, def+call, literal procedure) around "
                "every body of at most two atoms (push, pop, exit, stop, name lookup, literal procedure, def), "
                "optionally nested in a second form with an atom before and after; plus dictionary-stack lookup "
                "programs. PSMachine's terminal state is the expected outcome; each program is run on the real "
                "interpreter and final state or error name compared. distinct = distinct program texts.")
    ctx.assumptions = ["PSMachine.tla transcribes PLRM 3.5/3.6/8.2 for the supported subset",
                       "state after an error is not compared; dictionary forall only over one-entry dictionaries"]
    consts = {"Tier": '"%s"' % ctx.tier, "StepBound": "150", "MaxBudget": "1", "FeedLen": "1"}
    c1 = dict(consts, Family='"ctl"')
    summ, vec, base = pscommon.run_mbt(ctx, "MC_PSProg", c1, "psprog-ctl", base_heap="FreshHeap",
                                       properties=PROPS)
    pscommon.absorb(ctx, summ, "vh replay-ps (MC_PSProg ctl, tier %s)" % ctx.tier, "PSMachine!Step")
    pscommon.negative_control(ctx, vec, base)
    c2 = dict(consts, Family='"lookup"')
    summ2, vec2, base2 = pscommon.run_mbt(ctx, "MC_PSProg", c2, "psprog-lookup", base_heap="FreshHeap")
    pscommon.absorb(ctx, summ2, "vh replay-ps (MC_PSProg lookup, tier %s)" % ctx.tier, "PSMachine!Exec")
    ctx.exhaustive = True
    ctx.extra["programs_ctl"] = summ["vectors"]
    ctx.extra["programs_lookup"] = summ2["vectors"]
    # stop ends the program also from inside an eexec section (plaintexts 12 and 13 of MC_Eexec)
    from checks import c05
    c05.eexec_layouts(ctx, ctx.tier == "quick", only=(12, 13), how_prefix="stop inside eexec: ")
