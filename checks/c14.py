"""C14 - PFB decoding reproduces the segment contents for every read pattern."""
import json
import os
import re

from engine import core

SPEC = "PFB!PfbReadOK"

IMPL_INVS = ("ImplPrefix", "ImplNibble", "ImplTypeOK", "ImplEnd", "ImplStreamsOK")


def impl_cfg(max_segs, max_len, max_cap, rich, short, bineof):
    cfg = ("CONSTANTS\n  MaxSegs = %d\n  MaxLen = %d\n  MaxCap = %d\n  Rich = %s\n  WithShort = \"%s\"\n  BinEOF = \"%s\"\n"
           "INIT ImplInit\nNEXT ImplNext\n" % (max_segs, max_len, max_cap, "TRUE" if rich else "FALSE", short, bineof))
    for inv in IMPL_INVS:
        cfg += "INVARIANT %s\n" % inv
    cfg += "PROPERTY ImplRefines\n"        # deadlock checking stays on: no state without successor before a terminal result
    return cfg


def gen_cfg(family, out, max_segs=2, max_len=2, max_cap=4, rich=False, short="yes", invs=(), zero=False):
    cfg = ("CONSTANTS\n  Family = \"%s\"\n  MaxSegs = %d\n  MaxLen = %d\n  MaxCap = %d\n  Rich = %s\n  WithShort = \"%s\"\n"
           "  OutFile = \"%s\"\n  ZeroReads = %s\nINIT Init\nNEXT Next\n"
           % (family, max_segs, max_len, max_cap, "TRUE" if rich else "FALSE", short, out, "TRUE" if zero else "FALSE"))
    for inv in tuple(invs) + ("PrefixOK", "Emit"):
        cfg += "INVARIANT %s\n" % inv
    cfg += "CHECK_DEADLOCK FALSE\n"
    return cfg


def read_lines(path):
    with open(path) as f:
        return f.read().splitlines()


def stream_text(ev):
    inp = ev.get("inp", [])
    s = "input bytes %s" % (inp if len(inp) <= 80 else "%s... (%d bytes)" % (inp[:80], len(inp)))
    if "chunks" in ev:
        s += "; underlying reader: chunks %s cyclic, EOF with last bytes=%s" % (ev["chunks"], ev.get("eofwd"))
    return s


def absorb(ctx, summ, how):
    """Account a replay summary (as pscommon.absorb), keeping the raw vector of one example per class for --replay."""
    ctx.evaluations += summ["vectors"]
    ctx.traces += summ["vectors"]
    ctx.nontrivial_extra += summ["distinct"]
    for s in (summ.get("samples") or []):
        ctx.sample(s)
    # disagreements that did not reproduce when re-run alone are not counted; if nothing but such
    # disagreements was seen, the run has no verdict (reproduced ones stand on their own)
    if summ.get("unreproduced", 0) > 0 and not (summ.get("by_sig") or {}):
        raise core.Broken("%d disagreements did not reproduce when re-run alone" % summ["unreproduced"])
    if summ.get("unreproduced", 0) > 0:
        ctx.notes.append("%d further disagreements did not reproduce when re-run alone" % summ["unreproduced"])
    shown = {}
    for dg in (summ.get("disagreements") or []):
        shown.setdefault(dg["sig"], dg)
    for sig, n in (summ.get("by_sig") or {}).items():
        dg = shown.get(sig) or {}
        vec = (summ.get("examples") or {}).get(sig)
        ctx.violation(sig, "%s (%d vector(s))" % (dg.get("what", "disagreement with the specification"), n),
                      stimulus={"text": dg.get("stimulus"),
                                "vector": {k: vec[k] for k in ("inp", "caps", "chunks", "eofwd")} if vec else None},
                      expected=dg.get("expected"), observed=dg.get("observed"), how=how, spec=SPEC)


def validate_trace(ctx, fname, label, strict_first=True, count=True):
    """Validate an ndjson trace against TracePFB.  Returns the list of rejected events
    [(event index, reset index, class)], [] when the whole trace is a behaviour of the contract."""
    base = 'CONSTANTS\n  TraceFile = "%s"\nINIT Init\nNEXT %s\nINVARIANT PrefixInv\nPOSTCONDITION Accepted\nCHECK_DEADLOCK FALSE\n'
    if strict_first:
        r = ctx.tlc("TracePFB", base % (fname, "Next"), workers=1, label=label, must_pass=False, timeout=1800, count=count)
        if r.ok:
            return []
        if not r.violated and not ("Postcondition Accepted" in r.out and "is false" in r.out):
            raise core.Broken("TracePFB (%s) failed: %s\n%s" % (label, r.error, r.out[-2000:]))
    # list every rejected event in one pass
    r = ctx.tlc("TracePFB", base % (fname, "NextDiag"), workers=1, label=label + "-diag", must_pass=False, timeout=1800,
                count=count and not strict_first)
    if not r.ok:
        raise core.Broken("TracePFB diagnostic pass (%s) did not consume the trace: %s\n%s"
                          % (label, r.violated or r.error, r.out[-2000:]))
    rej = [(int(a), int(b), c) for a, b, c in re.findall(r'<<"PFB-REJECT", (\d+), (\d+), "([^"]*)">>', r.out)]
    if strict_first and not rej:
        raise core.Broken("TracePFB (%s): trace not accepted but no event was rejected" % label)
    return rej


def report_rejects(ctx, path, rej, how):
    if not rej:
        return
    lines = read_lines(path)
    seen = {}
    for l, cur, cls in rej:
        seen.setdefault(cls, []).append((l, cur))
    for cls, items in sorted(seen.items()):
        l, cur = items[0]
        reset = json.loads(lines[cur - 1])
        reads = [json.loads(x) for x in lines[cur:l]]
        shown = "; ".join("Read(%d)=(%d,%s,%s)" % (e["cap"], e["n"], bytes(e["out"][:16]), e["err"]) for e in reads[-6:])
        caps = [e["cap"] for e in reads]
        ctx.violation(cls, "a Read result of the real decoder is not a step of the PFB contract (%d stream(s))" % len(items),
                      stimulus={"text": stream_text(reset) + "; buffer sizes %s" % caps[:40],
                                "vector": {"inp": reset["inp"], "caps": caps, "chunks": reset.get("chunks", [1]),
                                           "eofwd": reset.get("eofwd", False)}},
                      expected="every Read is PfbRead(PfbParse(input)...)",
                      observed="event %d rejected; last reads: %s" % (l, shown), how=how, spec=SPEC)


def replay_vectors(ctx, vec, label, every):
    """Replay vectors into pfb.Decode; validate the recorded observations of every k-th vector with TLC
    and cross-check the harness comparator against the specification."""
    d = ctx.specdir()
    obs = label + "-obs.ndjson"
    summ = ctx.vh_json("replay-pfb", "-trace", os.path.join(d, obs), "-every", every, vec, timeout=3000)
    if summ["vectors"] == 0:
        raise core.Broken("%s: the specification emitted no vectors" % label)
    absorb(ctx, summ, "vh replay-pfb (%s)" % label)
    ctx.extra["mbt_" + label] = {"vectors": summ["vectors"], "agreed": summ["agreed"], "classes": summ["per_op"],
                                 "by_sig": summ["by_sig"], "observations_validated_by_tlc": summ["traced_vectors"]}
    if summ.get("hangs", 0) >= 3:
        ctx.notes.append("%s: replay stopped after 3 hanging Read calls" % label)
        return summ
    rej = validate_trace(ctx, obs, "trace-" + label, strict_first=summ["n_disagree"] == 0)
    ctx.traces += summ["traced_vectors"]
    # the harness comparator (judgePFBRead) and TLC must agree on every traced vector
    lines = read_lines(os.path.join(d, obs))
    tlc_bad = set(cur for _, cur, _ in rej)
    go_bad = set()
    for i, ln in enumerate(lines):
        if ln.startswith('{"ev":"reset"') or '"ev":"reset"' in ln[:60]:
            ev = json.loads(ln)
            if ev.get("ev") == "reset" and not ev.get("judged_ok", True):
                go_bad.add(i + 1)
    # a vector the comparator rejected only for a missing terminal result has no rejected event
    if tlc_bad - go_bad:
        i = sorted(tlc_bad - go_bad)[0]
        raise core.Broken("%s: TLC rejects observations the harness comparator accepted (reset event %d: %s)"
                          % (label, i, lines[i - 1][:300]))
    if go_bad - tlc_bad and not any(s == "pfb read: no terminal result" for s in summ["by_sig"]):
        i = sorted(go_bad - tlc_bad)[0]
        raise core.Broken("%s: the harness comparator rejects observations TLC accepts (reset event %d: %s)"
                          % (label, i, lines[i - 1][:300]))
    report_rejects(ctx, os.path.join(d, obs), rej, "TracePFB on the observations of vh replay-pfb (%s)" % label)
    return summ


def generate(ctx, family, label, simulate=None, **kw):
    d = ctx.specdir()
    out = label + ".ndjson"
    if os.path.exists(os.path.join(d, out)):
        os.remove(os.path.join(d, out))
    ctx.tlc("MC_PFB", gen_cfg(family, out, **kw), label=label, timeout=2400, simulate=simulate,
            depth=1500 if simulate else None, workers=1 if simulate else None)
    return os.path.join(d, out)


def negative_control_mbt(ctx, vec):
    bad = []
    with open(vec) as f:
        for line in f:
            v = json.loads(json.loads(line))
            if v["term"] != "eof" or len(v["D"]) < 2 or v["caps"][0] < 2:
                continue
            w = json.loads(json.dumps(v))
            k = len(bad) % 4
            if k == 0:
                w["D"][1] = (w["D"][1] + 1) % 256            # one expected byte changed
            elif k == 1:
                w["D"] = w["D"][:-1]                          # expected content one byte shorter
            elif k == 2:
                w["D"] = w["D"] + [48]                        # expected content one byte longer
            else:
                w["term"] = "invalid"                         # expected error class changed
            bad.append(w)
            if len(bad) >= 400:
                break
    if not bad:
        raise core.Broken("negative control: no vector to corrupt")
    p = os.path.join(ctx.scratch, "negpfb.ndjson")
    with open(p, "w") as f:
        for w in bad:
            f.write(json.dumps(w) + "\n")
    s = ctx.vh_json("replay-pfb", p)
    ctx.extra.setdefault("negative_controls", []).append(
        {"corrupted_vectors": len(bad), "rejected": s["n_disagree"], "classes": s["by_sig"]})
    if s["n_disagree"] != len(bad):
        raise core.Broken("negative control: %d of %d corrupted PFB vectors were accepted" % (len(bad) - s["n_disagree"], len(bad)))


def negative_control_tv(ctx, trace, rejected=()):
    d = ctx.specdir()
    allines = read_lines(trace)
    # whole streams from the start of the trace, leaving out those the contract already rejects
    starts = [i for i, ln in enumerate(allines) if '"ev":"reset"' in ln[:40]] + [len(allines)]
    bad = set(rejected)
    lines = []
    for a, b in zip(starts, starts[1:]):
        if (a + 1) in bad:
            continue
        lines += allines[a:b]
        if len(lines) > 2500:
            break
    if len(lines) < 50:
        raise core.Broken("negative control: trace too short")
    done = []
    for kind in ("byte", "fill"):
        out = list(lines)
        hit = None
        for i, ln in enumerate(out):
            ev = json.loads(ln)
            if ev.get("ev") != "read" or ev["err"] != "nil" or ev["n"] < 1 or i < len(out) // 3:
                continue
            if kind == "byte":
                ev["out"][0] ^= 1                       # one delivered byte altered
            else:
                ev["cap"] += 1                          # the same bytes, but into a larger buffer: no longer filled
            out[i] = json.dumps(ev)
            hit = i
            break
        if hit is None:
            raise core.Broken("negative control: no event to corrupt")
        name = "pfb-neg-%s.ndjson" % kind
        with open(os.path.join(d, name), "w") as f:
            f.write("\n".join(out) + "\n")
        rej = validate_trace(ctx, name, "trace-negctl-" + kind, strict_first=True, count=False)
        if [r[0] for r in rej] != [hit + 1]:
            raise core.Broken("negative control: corrupted event %d of a PFB trace was not the one rejected (%s)" % (hit + 1, rej[:3]))
        done.append({"corrupted_trace": kind, "rejected_as": rej[0][2]})
    ctx.extra.setdefault("negative_controls", []).extend(done)


def run(ctx):
    q = ctx.tier == "quick"
    ctx.rule = ("PFB.tla is the contract (Decode = text verbatim, binary as lower-case hex; Read fills the buffer unless the "
                "stream ends; invalid-PFB for a bad marker/type; an error for a cut-short binary segment). PFBImpl.tla, the "
                "five-state machine of pfb/reader.go with in-place expansion and an io.Reader environment delivering every "
                "short-read pattern, is checked by TLC to refine it for all streams within the bounds x all buffer-size "
                "sequences. MBT: MC_PFB emits (input bytes, buffer sizes, reader script, content, terminal class): exh = all "
                "streams within the bounds x all buffer-size sequences up to the first call that cannot be filled x reader "
                "scripts; hdr = all 65536 first-two-byte values x 4 length fields; sim = seeded random streams with segments "
                "up to 2000 bytes and buffers 0..64; big = described segments of 65535..65537 and 2^24-1..2^24+3 bytes (every byte of the "
                "length field), judged by the harness's transcription of PfbReadOK. Buffer-size sequences of the exh family contain "
                "one Read with an empty buffer (returns nothing, changes nothing). vh replay-pfb calls pfb.Decode(r).Read with exactly those sizes and "
                "judges every result; the recorded observations of a sample are validated again by TLC (TracePFB), which also "
                "cross-checks the harness comparator. TV: seeded random streams/schedules recorded from the real decoder and "
                "validated by TLC against PfbParse of the recorded input. Every vector is a distinct stimulus.")
    ctx.assumptions = ["the underlying reader never returns (0, nil) for a non-empty buffer",
                       "not generated (the property is silent): input ending inside a header or inside a text segment; "
                       "nothing is compared after the first error of a stream",
                       "for streams that are not well-formed only this is demanded: bytes delivered before the error are "
                       "content of the stream in order, and the error has the prescribed class (EOF timing is left open "
                       "everywhere, as io.Reader leaves it open)"]
    # ---- design level: the algorithm of reader.go refines the contract
    ml = 2 if q else 3
    r = ctx.tlc("PFBImpl", impl_cfg(3, ml, 4, not q, "no", "eof"), label="pfbimpl-refines", timeout=1500)
    ctx.extra["pfbimpl"] = {"bounds": "<=3 segments, payload 0..%d, buffers 1..4, all short-read patterns, %s tails"
                            % (ml, "lean" if q else "all"), "distinct_states": r.distinct, "wall_s": round(r.wall, 1)}
    # cut-short binary segments: the repaired variant (io.EOF from ReadFull inside a segment -> ErrUnexpectedEOF) must
    # refine the contract, the variant that passes io.EOF on must not (negative control of the refinement check)
    r1 = ctx.tlc("PFBImpl", impl_cfg(2 if q else 3, ml, 4, not q, "only", "unexpected"), label="pfbimpl-short-repaired",
                 timeout=1500)
    r2 = ctx.tlc("PFBImpl", impl_cfg(1, 2, 4, False, "only", "eof"), label="pfbimpl-short-eof-passed-on",
                 must_pass=False, count=False, timeout=1500)
    if r2.ok or not r2.violated:
        raise core.Broken("negative control: PFBImpl passing io.EOF on inside a binary segment was not rejected by ImplRefines (%s)"
                          % (r2.error,))
    ctx.extra.setdefault("negative_controls", []).append(
        {"model_variant": "BinEOF=eof on cut-short binary segments", "rejected_by": "ImplRefines",
         "repaired_variant_states": r1.distinct})

    # ---- MBT
    if q:
        vec = generate(ctx, "exh", "exh", invs=("ParseAgrees", "ClassAgrees"), max_segs=2, max_len=2, max_cap=4, zero=True)
        s_exh = replay_vectors(ctx, vec, "exh", 8)
        bounds = ["<=2 segments, payload 0..2, buffers 1..4 and one empty buffer per sequence, 4 reader scripts x 2 EOF modes"]
    else:
        vec = generate(ctx, "exh", "exh", invs=("ParseAgrees", "ClassAgrees"), max_segs=3, max_len=2, max_cap=4, zero=True)
        s_exh = replay_vectors(ctx, vec, "exh", 24)
        vec2 = generate(ctx, "exh", "exh2", invs=("ParseAgrees",), max_segs=2, max_len=3, max_cap=4, rich=True)
        replay_vectors(ctx, vec2, "exh2", 48)
        os.remove(vec2)
        bounds = ["<=3 segments, payload 0..2, buffers 1..4, 4 reader scripts x 2 EOF modes",
                  "<=2 segments, payload 0..3, buffers 1..4, all tails, 9 reader scripts x 2 EOF modes"]
    ctx.extra["exhaustive_bounds"] = bounds
    if s_exh["vectors"] < 50000 or len(s_exh["per_op"]) < 4:
        raise core.Broken("exh family: vacuous coverage (%d vectors, classes %s)" % (s_exh["vectors"], s_exh["per_op"]))
    # which variant of the model the code behaves like on cut-short binary segments
    ctx.extra["code_behaves_like_model_variant"] = ("BinEOF=eof (io.EOF passed on; violates the contract)"
                                                    if "pfb short binary: clean EOF" in s_exh["by_sig"]
                                                    else "BinEOF=unexpected (repaired)")
    negative_control_mbt(ctx, vec)
    os.remove(vec)
    vec = generate(ctx, "hdr", "hdr", invs=("HdrExactly",))
    s_hdr = replay_vectors(ctx, vec, "hdr", 64)
    if s_hdr["vectors"] != 65536 * 4 and s_hdr.get("hangs", 0) < 3:
        raise core.Broken("hdr family: %d vectors instead of 262144" % s_hdr["vectors"])
    os.remove(vec)
    # segments of 64 KiB and 16 MiB (every byte of the length field matters); judged by the harness's
    # transcription of PfbReadOK only (TLC cannot read 16 MiB observations back)
    vec = generate(ctx, "big", "big", rich=not q)
    s_big = ctx.vh_json("replay-pfb", vec, timeout=3000)
    if s_big["vectors"] < 20:
        raise core.Broken("big family: %d vectors" % s_big["vectors"])
    absorb(ctx, s_big, "vh replay-pfb (big)")
    ctx.extra["mbt_big"] = {"vectors": s_big["vectors"], "agreed": s_big["agreed"], "classes": s_big["per_op"], "by_sig": s_big["by_sig"]}
    os.remove(vec)
    vec = generate(ctx, "sim", "sim", invs=("ParseAgreesSim",), simulate=400 if q else 10000)
    replay_vectors(ctx, vec, "sim", 1 if q else 4)
    os.remove(vec)

    # ---- TV: seeded random streams and schedules on the real decoder
    d = ctx.specdir()
    for mode, n in (("all", 300 if q else 3000), ("short", 60 if q else 400)):
        name = "pfb-tv-%s.ndjson" % mode
        path = os.path.join(d, name)
        info = ctx.vh_json("trace-pfb", path, n, ctx.seed, 2000, mode)
        if info["hangs"] or info["panics"]:
            ctx.violation("pfb read: hang" if info["hangs"] else "pfb read: panic",
                          "the decoder hung or panicked on a seeded random stream", stimulus="vh trace-pfb %d %d 2000 %s" % (n, ctx.seed, mode))
        rej = validate_trace(ctx, name, "trace-tv-" + mode, strict_first=(mode == "all"))
        ctx.traces += info["streams"]
        ctx.evaluations += info["reads"]
        ctx.nontrivial_extra += info["streams"]
        ctx.extra["tv_" + mode] = {"streams": info["streams"], "reads": info["reads"], "bytes": info["bytes"],
                                   "kinds": info["kinds"], "rejected_streams": len(rej)}
        report_rejects(ctx, path, rej, "TracePFB on vh trace-pfb (%s, seed %d)" % (mode, ctx.seed))
        if mode == "all":
            negative_control_tv(ctx, path, [cur for _, cur, _ in rej])
    ctx.sample("stream 80 02 02 00 00 00 1a b2 (binary, 2 bytes) read with buffers 1,4 => \"1\", \"ab2\"+EOF (or EOF on the next call)")
    ctx.exhaustive = True


def replay(ctx, path):
    """python3 check.py C14 --replay replays/C14/<h>.json: the recorded stimulus alone, driven into the freshly built
    decoder, judged by TLC (TracePFB)."""
    with open(path) as f:
        v = json.load(f)
    stim = (v.get("stimulus") or {}).get("vector") if isinstance(v.get("stimulus"), dict) else None
    if not stim:
        raise core.Broken("replay file carries no stimulus vector")
    d = ctx.specdir()
    sp = os.path.join(ctx.scratch, "stim.ndjson")
    with open(sp, "w") as f:
        f.write(json.dumps(stim) + "\n")
    info = ctx.vh_json("record-pfb", os.path.join(d, "pfb-replay.ndjson"), sp)
    if info["hangs"] or info["panics"]:
        ctx.violation("pfb read: hang" if info["hangs"] else "pfb read: panic", "the decoder hung or panicked",
                      stimulus={"text": stream_text(stim), "vector": stim})
        return
    rej = validate_trace(ctx, "pfb-replay.ndjson", "trace-replay")
    ctx.traces += 1
    ctx.evaluations += 1
    report_rejects(ctx, os.path.join(d, "pfb-replay.ndjson"), rej, "TracePFB on vh record-pfb")
