"""C11 - operation budget, resource limits and the %! start check."""
from checks import pscommon
from engine import core


def run(ctx):
    ctx.rule = ("(a) budget: TLC runs (MC_PSProg, family budget) every control-form program x every budget "
                "N in 1..MaxBudget in lock step with an unbudgeted twin and checks BudgetTransparent; the "
                "budgeted behaviours (status, error, NumOps, final state) are replayed with MaxOps=N. "
                "(b) limits: recursion shapes against the real limits (MC_PSLimits). (c) %! start check "
                "(PSStart). distinct = distinct (program, budget) pairs / shapes / prefix histories.")
    ctx.assumptions = ["PSMachine counts operations exactly as the library does (one per dispatched object; a name and "
                       "its value are two); an error within a few operations of the budget may surface as either",
                       "state after a non-budget error is not compared"]
    mb = 24 if ctx.tier == "quick" else 48
    consts = {"Tier": '"%s"' % ("quick" if ctx.tier == "quick" else "quick"), "StepBound": "400",
              "MaxBudget": str(mb), "Family": '"budget"'}
    summ, vec, base = pscommon.run_mbt(ctx, "MC_PSProg", consts, "psbudget", base_heap="FreshHeap",
                                       invariants=("Emit", "Inv", "BudgetTransparent"))
    pscommon.absorb(ctx, summ, "vh replay-ps (MC_PSProg budget)", "PSMachine!Count / BudgetTransparent")
    pscommon.negative_control(ctx, vec, base)
    ctx.extra["budget_runs"] = summ["vectors"]
