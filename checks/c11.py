"""C11 - operation budget, resource limits and the %! start check."""
from checks import pscommon
from engine import core


def run(ctx):
    ctx.rule = ("(a) budget: TLC runs (MC_PSProg, family budget) every control-form program x every budget "
                "N in 1..MaxBudget in lock step with an unbudgeted twin and checks BudgetTransparent; the "
                "budgeted behaviours (status, error, NumOps, final state) are replayed with MaxOps=N; the same for programs "
                "delivered in two Execute calls (family budgetcalls, BudgetSpansCalls), and loops announced for 100000 rounds that exit "
                "leaves at once. Recursion that is not in tail position - also through an executable name given to if / ifelse / for - "
                "must be ended by the nesting limit, not by the budget (PSShapes!DepthBounded, child processes). "
                "(b) limits: recursion shapes against the real limits (MC_PSLimits). (c) %! start check "
                "(PSStart). distinct = distinct (program, budget) pairs / shapes / prefix histories.")
    ctx.assumptions = ["PSMachine counts operations exactly as the library does (one per dispatched object; a name and "
                       "its value are two); an error within a few operations of the budget may surface as either",
                       "state after a non-budget error is not compared"]
    # limits must exist; their values are measured and passed to the specification as constants
    for name in pscommon.missing_limits(ctx):
        ctx.violation("no limit: " + name, "runaway growth is not cut off: no %s limit found below the search bound" % name,
                      stimulus={"opstack": "{1} loop", "dictstack": "{currentdict begin} loop", "execdepth": "/f {f 1} def f",
                                "maxarray": "268435456 array", "maxstring": "268435456 string", "maxdict": "268435456 dict"}.get(name),
                      expected="stackoverflow / dictstackoverflow / execstackoverflow / limitcheck", how="vh probe-limits",
                      spec="PSMachine CONSTANTS")
    mb = 24 if ctx.tier == "quick" else 48
    consts = {"Tier": '"%s"' % ("quick" if ctx.tier == "quick" else "quick"), "StepBound": "400",
              "MaxBudget": str(mb), "FeedLen": "1", "Family": '"budget"'}
    summ, vec, base = pscommon.run_mbt(ctx, "MC_PSProg", consts, "psbudget", base_heap="FreshHeap",
                                       invariants=("Emit", "Inv", "BudgetTransparent"), replay_args=("-count",))
    pscommon.absorb(ctx, summ, "vh replay-ps (MC_PSProg budget)", "PSMachine!Count / BudgetTransparent")
    pscommon.negative_control(ctx, vec, base)
    ctx.extra["budget_runs"] = summ["vectors"]
    # (a') the budget spans consecutive Execute calls on one interpreter
    cb = dict(consts, Family='"budgetcalls"', MaxBudget=str(12 if ctx.tier == "quick" else 24))
    summ1, _, _ = pscommon.run_mbt(ctx, "MC_PSProg", cb, "psbudgetcalls", base_heap="FreshHeap",
                                   invariants=("Emit", "Inv", "BudgetSpansCalls"), replay_args=("-count",))
    pscommon.absorb(ctx, summ1, "vh replay-ps (MC_PSProg budgetcalls)", "PSMachine!Count across EndCall / BudgetSpansCalls")
    ctx.extra["budget_runs_split_in_two_calls"] = summ1["vectors"]
    # (b) recursion and growth shapes against the real limits
    cl = {"Tier": '"quick"', "StepBound": "9000", "MaxBudget": "1", "FeedLen": "1", "Family": '"limits"'}
    # one worker: the records of this family are long (operand stacks of 500 values), and concurrent
    # appends of several workers to the vector file interleave beyond one write chunk
    summ2, _, _ = pscommon.run_mbt(ctx, "MC_PSProg", cl, "pslimits", base_heap="FreshHeap", workers=1, replay_args=("-count",))
    pscommon.absorb(ctx, summ2, "vh replay-ps (MC_PSProg limits)", "PSMachine!EnterProc/CallProc/Guarded, PSOps!NewContainer")
    ctx.extra["limit_shapes"] = summ2["vectors"]
    # (b'') the nesting limit ends recursion that is not in tail position whatever kind of object the control
    # operator was given to execute (PSShapes, shapes of DepthBounded; each in a child process)
    import os
    d = ctx.specdir()
    cfg = ('CONSTANTS\n  Sizes = {1}\n  Exps = {0}\n  DepthOnly = TRUE\n  OutFile = "depthshapes.ndjson"\n'
           'INIT Init\nNEXT Next\nINVARIANT Emit\nCHECK_DEADLOCK FALSE\n')
    ctx.tlc("PSShapes", cfg, label="psshapes-depth", workers=1)
    s5 = ctx.vh_json("run-shapes", os.path.join(d, "depthshapes.ndjson"), timeout=1200)
    if s5["vectors"] < 5:
        raise core.Broken("depth-bounded shapes: %d vectors" % s5["vectors"])
    pscommon.absorb(ctx, s5, "vh run-shapes (PSShapes, depth-bounded recursion)", "PSShapes!DepthBounded")
    ctx.extra["depth_bounded_shapes"] = s5["vectors"]
    # (b') the dictionary-stack limit also holds inside an eexec section entered at the limit (plaintext 14)
    from checks import c05
    c05.eexec_layouts(ctx, ctx.tier == "quick", only=(14, "eexec[budget]"), how_prefix="limits and budget inside eexec: ", count=True)
    # (c) the %! start check
    import os
    d = ctx.specdir()
    total = 0
    for fam, inv in (("pairs", "EmitPair"), ("hist", "EmitHist")):
        out = "psstart-%s.ndjson" % fam
        cfg = ('CONSTANTS\n  Family = "%s"\n  MaxCalls = %d\n  OutFile = "%s"\nINIT Init\nNEXT Next\n'
               'INVARIANT %s\nPROPERTY CheckOnce\nPROPERTY RejectIsInert\nCHECK_DEADLOCK FALSE\n'
               % (fam, 3 if ctx.tier == "quick" else 4, out, inv))
        ctx.tlc("PSStart", cfg, label="psstart-" + fam, workers=4)
        s3 = ctx.vh_json("replay-start", os.path.join(d, out))
        pscommon.absorb(ctx, s3, "vh replay-start (%s)" % fam, "PSStart!Call")
        total += s3["vectors"]
    ctx.extra["start_check_vectors"] = total
