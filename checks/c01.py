"""C01 - hostile input never crashes or hangs the readers."""
import os

from checks import pscommon
from engine import core


def run(ctx):
    ctx.rule = ("(a) TLC enumerates (MC_PSOps, OpSet hostile) every operator of systemdict and of CIDInit x adversarial "
                "operand tuples (extreme integers, self-referential arrays/procedures, aliased views, 65536-element "
                "containers, every type) and the harness checks that the call returns without panic; "
                "(b) size-parameterised recursion/growth shapes (PSShapes) run in child processes so that stack "
                "exhaustion or absurd allocations are observed as process aborts; (c) every charstring token sequence up to "
                "length 3/4 over an adversarial alphabet (T1Charstring is total), wrapped by the independent writer with "
                "hostile lenIV values; (g) every PFB stream of MC_PFB (empty segments, all 65536 header values, every buffer-size "
                "sequence); (f) one byte replaced at every offset of every corpus file, and every corpus file cut off at every offset; AFM files "
                "whose announcing lines carry counts of about 2^e (no allocation by announcement). A violation is a panic, a process "
                "abort or a hang; any returned result or error value is fine.")
    ctx.assumptions = ["MaxOps is set as the readers set it (1e6); cumulative memory growth over many operations is out of scope"]
    # (a)
    summ, vec, base = pscommon.run_mbt(ctx, "MC_PSOps", {"Tier": '"%s"' % ctx.tier, "OpSet": '"hostile"'},
                                       "pshostile", replay_args=("-crash-only", "-isolate"), timeout=3600)
    pscommon.absorb(ctx, summ, "vh replay-ps -crash-only (MC_PSOps hostile)", "PSMachine total: every operator returns")
    pscommon.crash_control(ctx, vec, base)
    ctx.extra["hostile_operator_vectors"] = summ["vectors"]
    ctx.extra["operators"] = len(summ["per_op"])
    # (b)
    d = ctx.specdir()
    sizes = "{1, 10, 1000, 100000, 1000000}" if ctx.tier == "quick" else "{1, 2, 10, 99, 100, 101, 1000, 1001, 65536, 100000, 1000000, 16000000}"
    cfg = 'CONSTANTS\n  Sizes = %s\n  Exps = {0, 10, 24, 31, 32, 40, 62, 63, 64}\n  DepthOnly = FALSE\n  OutFile = "shapes.ndjson"\nINIT Init\nNEXT Next\nINVARIANT Emit\nCHECK_DEADLOCK FALSE\n' % sizes
    ctx.tlc("PSShapes", cfg, label="psshapes", workers=2)
    s2 = ctx.vh_json("run-shapes", os.path.join(d, "shapes.ndjson"), timeout=3000)
    pscommon.absorb(ctx, s2, "vh run-shapes (child process per shape)", "PSShapes: returns")
    ctx.extra["shape_runs"] = s2["vectors"]
    # (c) malformed charstrings, hostile lenIV (T1Charstring is total; MC_T1Font family hostile)
    from checks import c06
    vec = c06.t1_family(ctx, "hostile", invariants=("Emit", "Total"))
    s3 = ctx.vh_json("replay-t1", "-isolate", vec, timeout=2400)
    pscommon.absorb(ctx, s3, "vh replay-t1 (hostile charstrings, lenIV)", "T1Charstring!T1Run total / type1.Read returns")
    ctx.extra["hostile_charstring_fonts"] = s3["vectors"]
    # (g) the PFB decoder on every stream of MC_PFB (empty segments, odd headers, every buffer-size sequence
    # and short-read pattern): only a panic or a hang counts here, what it outputs is C14's subject
    from checks import c14
    pv = c14.generate(ctx, "exh", "pfb-exh", invs=("ParseAgrees", "ClassAgrees"), max_segs=2, max_len=2, max_cap=4)
    s5 = ctx.vh_json("replay-pfb", pv, timeout=2400)
    hv = c14.generate(ctx, "hdr", "pfb-hdr", invs=("HdrExactly",))
    s6 = ctx.vh_json("replay-pfb", hv, timeout=2400)
    for sx, label in ((s5, "exh"), (s6, "hdr")):
        ctx.evaluations += sx["vectors"]
        ctx.traces += sx["vectors"]
        ctx.nontrivial_extra += sx["vectors"]
        shown = {}
        for dg in (sx.get("disagreements") or []):
            shown.setdefault(dg["sig"], dg)
        for sig, n in (sx.get("by_sig") or {}).items():
            if sig in ("pfb read: panic", "pfb read: hang"):
                dg = shown.get(sig) or {}
                ctx.violation(sig, "%s (%d vector(s))" % (dg.get("what", "pfb.Decode panics or hangs"), n),
                              stimulus=dg.get("stimulus"), expected="a result or an error", observed=dg.get("observed"),
                              how="vh replay-pfb (MC_PFB %s)" % label, spec="PFB!PfbRead total")
    ctx.extra["pfb_streams"] = s5["vectors"] + s6["vectors"]
    os.remove(pv)
    os.remove(hv)
    # (f) structure-aware corruption of valid files
    s4 = ctx.vh_json("corrupt", ctx.tier, ctx.seed, timeout=2400)
    pscommon.absorb(ctx, s4, "vh corrupt", "readers are total")
    ctx.extra["corrupted_files"] = s4["vectors"]
    ctx.extra["corrupted_files_still_accepted"] = sum(s4["per_op_ok"].values())
