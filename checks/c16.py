"""C16 - glyph names and Unicode text map to each other as the AGL specifies.

Specification: spec/names/AGL.tla (ToText, FromScalar, Expand, Valid) over the tables of
AGLData.tla, which tools/gen_agl.py generates at run time with an independent parser from
glyphlist.txt, zapfdingbats.txt, aglfn.txt (and, as data documented by the library, compat.go).

MBT  spec/names/MC_AGL.tla enumerates glyph names with the text / validity the specification
     prescribes; `vh replay-agl` calls names.ToUnicode / names.IsValid and compares.
TV   `vh trace-agl` records names.FromUnicode(r) and names.ToUnicode of that name for every
     scalar of the tier's ranges; spec/trace/TraceAGL.tla validates every event, one TLC
     process per chunk, 16 at a time; the harness also sorts all names (injectivity).
"""
import json
import os
import subprocess
import sys
from concurrent.futures import ThreadPoolExecutor

from checks import pscommon
from engine import core

GEN = os.path.join(core.VERIF, "tools", "gen_agl.py")

# (family, invariants, simulate?) -- see the header of MC_AGL.tla
TEXT_INV = ("Emit", "Concatenation", "SuffixIgnored")
FAMILIES = [
    ("tables", ("Emit", "ListedText", "Concatenation")),
    ("uni1", TEXT_INV),
    ("u4", TEXT_INV),
    ("uniN", TEXT_INV),
    ("uform", TEXT_INV),
    ("malformed", TEXT_INV),
    ("misc", TEXT_INV),
    ("composite", TEXT_INV),
    ("valid2", ("Emit",)),
    ("validlen", ("Emit",)),
]

# quick tier: the BMP and the neighbourhoods of every border / table entry above it
QUICK_RANGES = [(0x0, 0xFFFF), (0x10000, 0x101FF), (0x1F000, 0x1F2FF), (0x1FFF0, 0x2000F), (0x2FFF0, 0x3000F),
                (0xEFFF0, 0xF000F), (0xFFFF0, 0x10000F), (0x10FF00, 0x10FFFF)]
ALL_RANGES = [(0x0, 0x10FFFF)]
N_SCALARS = 0x110000 - 0x800


def generate_tables(ctx):
    p = subprocess.run([sys.executable, GEN, "--repo", core.REPO], capture_output=True, text=True, timeout=120)
    if p.returncode != 0:
        raise core.Broken("tools/gen_agl.py failed:\n" + p.stdout[-2000:] + p.stderr[-4000:])
    try:
        g = json.loads(p.stdout)
    except Exception as ex:
        raise core.Broken("tools/gen_agl.py: bad summary (%s)" % ex)
    if (g["glyphlist"], g["glyphlist_multi"], g["dingbats"], g["aglfn"]) != (4281, 81, 201, 586):
        raise core.Broken("unexpected table sizes: %r" % {k: g[k] for k in ("glyphlist", "glyphlist_multi", "dingbats", "aglfn")})
    return g


def mc_cfg(fam, tier, out, invariants, maxcomp):
    cfg = ('CONSTANTS\n  Family = "%s"\n  Tier = "%s"\n  OutFile = "%s"\n  MaxComp = %d\nINIT Init\nNEXT Next\n'
           % (fam, tier, out, maxcomp))
    for inv in invariants:
        cfg += "INVARIANT %s\n" % inv
    return cfg + "CHECK_DEADLOCK FALSE\n"


def trace_cfg(tracefile, verdict, lo, hi, strict):
    return ('CONSTANTS\n  TraceFile = "%s"\n  VerdictFile = "%s"\n  Lo = %d\n  Hi = %d\n  Strict = %s\n'
            'INIT Init\nNEXT Next\nPOSTCONDITION Accepted\nCHECK_DEADLOCK FALSE\n'
            % (tracefile, verdict, lo, hi, "TRUE" if strict else "FALSE"))


def write(d, name, text):
    with open(os.path.join(d, name), "w") as f:
        f.write(text)
    return name


def parallel_tlc(ctx, jobs, par):
    """jobs: list of dicts(module, cfgfile, label, workers, simulate, depth, timeout).  Runs them `par` at a
    time; returns the TLCResults in order.  Counting is done here (ctx.tlc is called with count=False)."""
    def one(j):
        return ctx.tlc(j["module"], j["cfgfile"], workers=j.get("workers", 1), simulate=j.get("simulate"),
                       depth=j.get("depth"), timeout=j.get("timeout", 900), must_pass=False, count=False,
                       label=j["label"])
    old = os.environ.get("JAVA_TOOL_OPTIONS")
    # many JVMs side by side: bound heap and collector threads of each
    os.environ["JAVA_TOOL_OPTIONS"] = ((old + " ") if old else "") + "-Xmx3g -XX:ParallelGCThreads=2"
    try:
        with ThreadPoolExecutor(max_workers=par) as ex:
            res = list(ex.map(one, jobs))
    finally:
        if old is None:
            del os.environ["JAVA_TOOL_OPTIONS"]
        else:
            os.environ["JAVA_TOOL_OPTIONS"] = old
    for r in res:
        ctx.states += r.distinct
        ctx.transitions += r.generated
    return res


def rejected(r):
    """TLC ran to the end and the trace was not accepted (as opposed to: TLC could not run)."""
    return (not r.ok) and "Postcondition Accepted" in r.out and "is false" in r.out


def tlc_failed(r, what):
    tail = "\n".join(r.out.splitlines()[-40:])
    raise core.Broken("%s failed (%s):\n%s" % (what, r.violated or r.error, tail))


# ------------------------------------------------------------------------- MBT
def run_mbt(ctx, d):
    q = ctx.tier == "quick"
    maxcomp = 2 if q else 3
    jobs, outs = [], []
    for fam, invs in FAMILIES:
        out = "agl-%s.ndjson" % fam
        if os.path.exists(os.path.join(d, out)):
            os.remove(os.path.join(d, out))
        cfgf = write(d, "MC_AGL__%s.cfg" % fam, mc_cfg(fam, ctx.tier, out, invs, maxcomp))
        jobs.append({"module": "MC_AGL", "cfgfile": cfgf, "label": "agl-" + fam, "workers": 4, "timeout": 900})
        outs.append(out)
    # longer random composites / random strings over the name alphabet: seeded simulation, one worker
    for fam, invs, num, depth in (("composim", ("Emit", "Concatenation"), 100 if q else 1200, 12),
                                   ("validsim", ("Emit",), 150 if q else 2500, 34)):
        out = "agl-%s.ndjson" % fam
        if os.path.exists(os.path.join(d, out)):
            os.remove(os.path.join(d, out))
        cfgf = write(d, "MC_AGL__%s.cfg" % fam, mc_cfg(fam, ctx.tier, out, invs, maxcomp))
        jobs.append({"module": "MC_AGL", "cfgfile": cfgf, "label": "agl-" + fam, "workers": 1, "simulate": num,
                     "depth": depth, "timeout": 900})
        outs.append(out)
    # the specification's own structural checks (no vectors)
    cfgf = write(d, "MC_AGL__selfcheck.cfg", mc_cfg("selfcheck", ctx.tier, "agl-none.ndjson", ("SelfCheck",), maxcomp))
    jobs.append({"module": "MC_AGL", "cfgfile": cfgf, "label": "agl-selfcheck", "workers": 1, "timeout": 600})
    # ... and of the table the library documents in compat.go
    cfgf = write(d, "MC_AGL__compatcheck.cfg", mc_cfg("selfcheck", ctx.tier, "agl-none.ndjson", ("CompatCheck",), maxcomp))
    jobs.append({"module": "MC_AGL", "cfgfile": cfgf, "label": "agl-compatcheck", "workers": 1, "timeout": 600})
    res = parallel_tlc(ctx, jobs, 6)
    for j, r in zip(jobs, res):
        if j["label"] == "agl-compatcheck" and r.violated == "CompatCheck":
            ctx.violation("compat table lets two characters share a name",
                          "compat.go has an expansion shorter than two characters or the same expansion / name for two "
                          "characters", observed=r.out[-1200:], how="MC_AGL selfcheck", spec="MC_AGL!CompatCheck")
        elif not r.ok:
            tlc_failed(r, "MC_AGL " + j["label"])
    paths = [os.path.join(d, o) for o in outs]
    for p in paths:
        if not os.path.exists(p) or os.path.getsize(p) == 0:
            raise core.Broken("%s: the specification emitted no vectors" % os.path.basename(p))
    passed = os.path.join(ctx.scratch, "agl-passed.ndjson")
    summ = ctx.vh_json("replay-agl", "-passed", passed, *paths, timeout=1200)
    pscommon.absorb(ctx, summ, "vh replay-agl", "AGL!ToText / AGL!Valid")
    ctx.extra["mbt"] = {"vectors": summ["vectors"], "distinct": summ["distinct"], "agreed": summ["agreed"],
                        "classes": summ["per_op"], "by_sig": summ["by_sig"]}
    # every family must have produced both outcomes it is meant to separate
    per = summ["per_op"]
    for need in ("tables:totext:text", "uni1:totext:text", "uni1:totext:empty", "u4:totext:text", "u4:totext:empty",
                 "uniN:totext:text", "uniN:totext:empty", "uform:totext:text", "uform:totext:empty",
                 "malformed:totext:empty", "composite:totext:text", "valid2:valid:true", "valid2:valid:false",
                 "validlen:valid:true", "validlen:valid:false", "validsim:valid:true", "validsim:valid:false"):
        if per.get(need, 0) == 0:
            raise core.Broken("vacuous coverage: no vector of class " + need)
    return passed


def negative_control_mbt(ctx, passed):
    """Corrupt the prescribed outcome of vectors on which the library agreed (so that the control
    does not depend on the library being free of defects): the replayer must object to every one."""
    bad = []
    with open(passed) as f:
        for line in f:
            v = json.loads(line)
            if v["k"] == "totext":
                v["text"] = v["text"] + [0x41]
            else:
                v["valid"] = not v["valid"]
            bad.append(v)
    p = os.path.join(ctx.scratch, "neg-agl.ndjson")
    with open(p, "w") as f:
        for v in bad:
            f.write(json.dumps(v) + "\n")
    s = ctx.vh_json("replay-agl", p)
    ctx.extra.setdefault("negative_controls", []).append({"corrupted_vectors": len(bad), "rejected": s["n_disagree"]})
    if not bad or s["n_disagree"] != len(bad):
        raise core.Broken("negative control: %d of %d corrupted glyph-name vectors were accepted"
                          % (len(bad) - s["n_disagree"], len(bad)))


# -------------------------------------------------------------------------- TV
SIG_OF_CODE = {
    "name": ("fromUnicode name differs from FromScalar", "names.FromUnicode chose another name than AGL!FromScalar"),
    "roundtrip": ("chosen name does not map back to the character",
                  "names.ToUnicode(names.FromUnicode(r)) is neither r nor its compatibility expansion"),
    "totext": ("toUnicode of the chosen name differs from ToText",
               "names.ToUnicode of the name chosen for a character differs from AGL!ToText"),
}


def run_tv(ctx, d, gen):
    q = ctx.tier == "quick"
    ranges = QUICK_RANGES if q else ALL_RANGES
    chunk = 6000 if q else 35000
    sp = os.path.join(ctx.scratch, "agl-special.json")
    with open(sp, "w") as f:
        json.dump(gen["special_scalars"], f)
    t = ctx.vh_json("trace-agl", d, chunk, sp, *["%d-%d" % r for r in ranges], timeout=600)
    # the chunks tile the ranges: consecutive, complete (this is arithmetic on the chunk table only;
    # that every chunk FILE lists exactly the scalars Lo..Hi is checked by TLC)
    want = sum(hi - lo + 1 - max(0, min(hi, 0xDFFF) - max(lo, 0xD800) + 1) for lo, hi in ranges)
    if t["records"] != want or sum(c["n"] for c in t["chunks"]) != want:
        raise core.Broken("trace-agl recorded %d scalars, expected %d" % (t["records"], want))
    if not q and want != N_SCALARS:
        raise core.Broken("thorough tier does not cover all scalars")
    cs = sorted(t["chunks"], key=lambda c: c["lo"])
    for (lo, hi) in ranges:
        inside = [c for c in cs if lo <= c["lo"] <= hi]
        if not inside or inside[0]["lo"] != lo or inside[-1]["hi"] != hi:
            raise core.Broken("chunks do not cover %X..%X" % (lo, hi))
        for a, b in zip(inside, inside[1:]):
            nxt = a["hi"] + 1 if a["hi"] != 0xD7FF else 0xE000
            if b["lo"] != nxt:
                raise core.Broken("gap between chunks at %X" % a["hi"])
    t["special"]["lo"] = t["special"]["hi"] = 0x110000      # TraceAGL: free order
    chunks = cs + [t["special"]]
    jobs = []
    for c in chunks:
        cfgf = write(d, c["file"] + ".cfg", trace_cfg(c["file"], c["file"] + ".verdict", c["lo"], c["hi"], True))
        jobs.append({"module": "TraceAGL", "cfgfile": cfgf, "label": "trace-" + c["file"][:-7], "timeout": 900})
    res = parallel_tlc(ctx, jobs, 16)
    nrec = t["records"] + t["special"]["n"]
    ctx.traces += nrec
    ctx.evaluations += nrec
    ctx.nontrivial_extra += t["records"]
    for s in t["samples"][:3]:
        ctx.sample("FromUnicode/ToUnicode: " + s)
    bad_chunks, good_chunks = [], []
    for c, r in zip(chunks, res):
        if r.ok:
            good_chunks.append(c)
            if r.distinct != c["n"] + 1:
                raise core.Broken("TraceAGL %s: %d states for %d events" % (c["file"], r.distinct, c["n"]))
        elif rejected(r):
            bad_chunks.append(c)
        else:
            tlc_failed(r, "TraceAGL " + c["file"])
    ctx.extra["tv"] = {"chunks": len(cs), "scalars": t["records"], "special_events": t["special"]["n"],
                       "rejected_chunks": [c["file"] for c in bad_chunks], "dup_names": t["dup_names"],
                       "names_sorted": t["names_sorted"],
                       "chosen_names_not_valid (observation, not demanded by C16)": t["chosen_names_not_valid"],
                       "chosen_names_not_valid_examples": t["chosen_names_not_valid_examples"]}
    if t["names_sorted"] != t["records"]:
        raise core.Broken("injectivity: %d names sorted for %d scalars" % (t["names_sorted"], t["records"]))
    if t["dup_names"]:
        ctx.violation("fromUnicode names are not injective", "two characters share a glyph name",
                      stimulus="; ".join(t["dup_examples"][:3]), expected="different names", observed="the same name",
                      how="vh trace-agl (sort + neighbour compare)", spec="AGL!Injective")
    # diagnostic pass over rejected chunks: every failing scalar, classified
    if bad_chunks:
        djobs = []
        for c in bad_chunks:
            vf = c["file"] + ".verdict"
            if os.path.exists(os.path.join(d, vf)):
                os.remove(os.path.join(d, vf))
            cfgf = write(d, c["file"] + ".diag.cfg", trace_cfg(c["file"], vf, c["lo"], c["hi"], False))
            djobs.append({"module": "TraceAGL", "cfgfile": cfgf, "label": "diag-" + c["file"][:-7], "timeout": 900})
        parallel_tlc(ctx, djobs, 16)
        nbad = 0
        for c in bad_chunks:
            vs = core.read_vectors(os.path.join(d, c["file"] + ".verdict"))
            if not vs:
                raise core.Broken("TraceAGL rejected %s but the diagnostic pass names no event" % c["file"])
            evs = [json.loads(l) for l in open(os.path.join(d, c["file"]))]
            for v in vs:
                nbad += 1
                ev = evs[v["i"] - 1]
                for code in v["codes"]:
                    if code not in SIG_OF_CODE:
                        raise core.Broken("TraceAGL: event %d of %s (U+%04X): %s -- the harness or the specification "
                                          "is inconsistent, not the library" % (v["i"], c["file"], v["r"], code))
                    sig, what = SIG_OF_CODE[code]
                    sig += " [BMP]" if v["r"] < 0x10000 else " [supplementary planes]"
                    ctx.violation(sig, what, stimulus="U+%04X (dingbats=%s)" % (v["r"], v["ding"]),
                                  expected="name %r text %s" % (bytes(v["name"]).decode("latin-1"),
                                                                " ".join("U+%04X" % x for x in v["text"])),
                                  observed="name %r text %s" % (bytes(ev["name"]).decode("latin-1"),
                                                                " ".join("U+%04X" % x for x in ev["text"])),
                                  how="vh trace-agl + TraceAGL", spec="TraceAGL!Codes")
        ctx.extra["tv"]["bad_events"] = nbad
    return [c for c in good_chunks if c["lo"] <= 0x10FFFF and c["n"] >= 400]


def negative_control_tv(ctx, d, accepted):
    """A short genuine trace is accepted; the same trace with one corrupted event is rejected.  The
    genuine trace is the head of a chunk TLC accepted; when the library is so wrong that no chunk was
    accepted there is nothing to corrupt (and the violations are reported anyway)."""
    if not accepted:
        ctx.extra.setdefault("negative_controls", []).append(
            {"trace_control": "skipped: TLC accepted no chunk of the library's trace (violations are reported)"})
        return
    src = os.path.join(d, accepted[0]["file"])
    lines = open(src).read().splitlines()[:400]
    evs = [json.loads(l) for l in lines]

    def variant(tag, mutate):
        es = [dict(e) for e in evs]
        es = mutate(es)
        name = "agl-neg-%s.ndjson" % tag
        with open(os.path.join(d, name), "w") as f:
            for e in es:
                f.write(json.dumps(e) + "\n")
        cfgf = write(d, name + ".cfg", trace_cfg(name, name + ".verdict", evs[0]["r"], evs[-1]["r"], True))
        return {"module": "TraceAGL", "cfgfile": cfgf, "label": "trace-negctl-" + tag, "timeout": 300}

    def m_name(es):
        es[65]["name"] = es[65]["name"] + [0x31]           # in the first chunk: "A" -> "A1"
        return es

    def m_text(es):
        es[256]["text"] = [es[256]["text"][0] + 1]
        return es

    def m_lower(es):
        # event 26 (in the first chunk: u001A): letters after the first byte in the other case
        n = es[26]["name"]
        m = n[:1] + [c ^ 32 if 65 <= c <= 90 or 97 <= c <= 122 else c for c in n[1:]]
        es[26]["name"] = m if m != n else n + [0x61]
        return es

    def m_drop(es):
        return es[:200] + es[201:]

    def m_short(es):
        return es[:-1]

    jobs = [variant("genuine", lambda es: es), variant("name", m_name), variant("text", m_text),
            variant("fallback", m_lower), variant("dropped", m_drop), variant("truncated", m_short)]
    res = parallel_tlc(ctx, jobs, 6)
    # parallel_tlc counted these runs; they are controls, not exploration
    for r in res:
        ctx.states -= r.distinct
        ctx.transitions -= r.generated
    if not res[0].ok:
        tlc_failed(res[0], "TraceAGL on a genuine 400-event trace")
    accepted = [j["label"] for j, r in zip(jobs[1:], res[1:]) if r.ok]
    broken = [j["label"] for j, r in zip(jobs[1:], res[1:]) if not r.ok and not rejected(r)]
    if broken:
        raise core.Broken("negative control: TLC failed for another reason on %s" % broken)
    ctx.extra.setdefault("negative_controls", []).append(
        {"corrupted_traces": len(jobs) - 1, "rejected": len(jobs) - 1 - len(accepted), "genuine_accepted": True})
    if accepted:
        raise core.Broken("negative control: corrupted traces accepted: %s" % accepted)


def run(ctx):
    ctx.rule = ("AGL.tla is the Adobe Glyph List specification as functions on byte sequences; its tables are read from "
                "the three .txt files by an independent parser at run time. MBT: MC_AGL enumerates names with the "
                "prescribed text (every glyph-list, Zapf Dingbats and AGLFN entry with both flag values; uniXXXX and "
                "uXXXX over the tier's BMP ranges; 2-3 group uni names and 3..8 digit u names at the surrogate and "
                "10FFFF borders; one-digit corruptions; a hand list; all composites of 1..MaxComp pool components x "
                "suffixes x flag; seeded random longer composites) and with the prescribed validity (all strings of "
                "length <= 2 over 18 border bytes of the 7 classes, lengths 29..34, neighbours of .notdef, seeded random "
                "strings up to 34). TV: for every scalar of the tier's ranges one event (FromUnicode name, ToUnicode of "
                "it) is validated by TLC against FromScalar, Expand and ToText; chunk files must list exactly their "
                "scalars in order. A case counts as distinct by (kind, flag, name) resp. by scalar.")
    ctx.assumptions = ["the compatibility expansion table is taken from compat.go as data documented by the library "
                       "(the AGL specification has none); the generator only checks that every entry is "
                       "compatibility-equivalent (NFKD) to its character and TLC that expansions have length >= 2 and "
                       "are pairwise different",
                       "Valid uses the 31-character limit the property states (newer editions of the specification allow 63)",
                       "validity of the names chosen by FromUnicode is not part of C16 and not demanded"]
    gen = generate_tables(ctx)
    ctx.extra["tables"] = {k: gen[k] for k in ("glyphlist", "glyphlist_multi", "dingbats", "aglfn", "compat",
                                               "aglfn_not_in_glyphlist", "aglfn_glyphlist_conflicts",
                                               "names_in_both_lists", "unicodedata")}
    if gen["compat_not_compatibility_equivalent"]:
        ctx.violation("compat table entry is not a compatibility expansion",
                      "an entry of compat.go is not compatibility-equivalent to its character",
                      stimulus=", ".join("U+%04X" % r for r in gen["compat_not_compatibility_equivalent"][:10]),
                      how="tools/gen_agl.py (Unicode character database %s)" % gen["unicodedata"])
    d = ctx.specdir()
    passed = run_mbt(ctx, d)
    negative_control_mbt(ctx, passed)
    accepted = run_tv(ctx, d, gen)
    negative_control_tv(ctx, d, accepted)
    if ctx.tier == "thorough":
        ctx.exhaustive = True
