"""C09 - writing a font and reading it back returns the same font in all formats."""
import json
import os

from engine import core
from checks import tvcommon


def run(ctx):
    ctx.rule = ("The harness generates fonts in the writable domain along the axes the property names (1-300 glyphs, "
                "integer and fractional coordinates, curves and hints, encodings: none / subset of StandardEncoding / "
                "arbitrary / codes of existing glyphs left unassigned, info strings over all byte values, default and "
                "non-default private values, creation times in UTC / named / unnamed zones), writes each in the four "
                "formats and reads it back; the projected pair is an event of a trace that TLC validates against "
                "RoundTrip!Equiv9 (TraceRoundTrip). distinct = (font, format) events.")
    ctx.assumptions = ["the projection to fixed point (10^-4) has one unit of slack; exact equality is demanded for integer coordinates",
                       "BlueScale values within 10^-6 of 0.039625 but different from it are not generated (C10 names the snap)"]
    n = 40 if ctx.tier == "quick" else 4000
    r = tvcommon.run_tv(ctx, "cycle-t1", [n, ctx.seed], "TraceRoundTrip", "Relation", "cycle",
                        sigfn=sig9, what="the font read back differs from the font written (RoundTrip!Equiv9)")
    # vacuity guard: every coincidence class of lines (h, v, zero, general) and curves (horizontal / vertical
    # start x vertical / horizontal arrival: the writer's hvcurveto / vhcurveto / rrcurveto choice) was written
    ctx.extra["segment_shapes"] = r.get("shapes")
    if r.get("shapes_missing"):
        raise core.Broken("vacuity: segment shapes never generated: %s" % r["shapes_missing"])


def sig9(ev):
    return "c09 fmt=%s %s" % (ev.get("fmt"), tvcommon.first_diff(ev.get("a"), ev.get("b")))
