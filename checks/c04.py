"""C04 - the tokenizer reads every lexical form as the object it denotes."""
import json
import os

from checks import pscommon
from engine import core


def lex_family(ctx, fam, maxlen, invariants=("Emit",), simulate=None, tag=""):
    d = ctx.specdir()
    out = "lex-%s%s.ndjson" % (fam, tag)
    if os.path.exists(os.path.join(d, out)):
        os.remove(os.path.join(d, out))
    cfg = ('CONSTANTS\n  Family = "%s"\n  MaxLen = %d\n  Tier = "%s"\n  OutFile = "%s"\nINIT Init\nNEXT Next\n'
           % (fam, maxlen, ctx.tier, out))
    for inv in invariants:
        cfg += "INVARIANT %s\n" % inv
    cfg += "CHECK_DEADLOCK FALSE\n"
    ctx.tlc("MC_PSLex", cfg, label="pslex-" + fam + tag, timeout=2400, simulate=simulate,
            depth=maxlen + 1 if simulate else None, workers=1 if simulate else None)
    summ = ctx.vh_json("replay-lex", os.path.join(d, out), timeout=2400)
    pscommon.absorb(ctx, summ, "vh replay-lex (%s)" % fam, "PSLex!Lex")
    ctx.extra["lex_" + fam + tag] = {"vectors": summ["vectors"], "classes": summ["per_op"]}
    return os.path.join(d, out)


def run(ctx):
    ctx.rule = ("PSLex.tla is the PLRM tokenizer as a function. bytes: TLC enumerates every byte string up to MaxLen over "
                "an alphabet of representative bytes (all white space, all delimiters, escape, digit/letter classes); "
                "strbody: every literal string whose body has up to 5 (quick) / 6 bytes over CR, LF, backslash, parentheses, digits, letters; "
                "spell: object sequences x hand-written legal spellings x legal separators, with the specification's own "
                "round trip Lex(Join(..)) = objects checked by TLC; dsc: DSC layouts. Each text is wrapped in { } and "
                "executed; the procedure's tokens and Interpreter.DSC are compared, the DSC comments also when the same text is handed "
                "to one interpreter in several calls cut after line feeds. TV: the library's String.PS/Name.PS "
                "output is lexed by the specification (TracePSWrite). distinct = texts that are legal or illegal token "
                "sequences inside the quantifier (open/unbalanced ones are generated but not compared).")
    ctx.assumptions = ["outside the quantifier and not compared: //immediate names, ASCII85 overflow, reals beyond the float "
                       "range, radix numbers beyond 64 bits, control characters other than white space outside strings"]
    q = ctx.tier == "quick"
    lex_family(ctx, "bytes", 3 if q else 4)
    vec = lex_family(ctx, "spell", 2, invariants=("Emit", "SpecRoundTrip"))
    # longer sequences: seeded random walks of the same generator
    lex_family(ctx, "spellsim", 7, invariants=("Emit", "SpecRoundTrip"), simulate=400 if q else 20000)
    lex_family(ctx, "dsc", 1)
    # the literal-string scanner's state machine (end-of-line normalisation, continuation, escapes, nesting)
    lex_family(ctx, "strbody", 5 if q else 7)
    lex_family(ctx, "hexbody", 4 if q else 5)
    lex_family(ctx, "a85body", 5 if q else 7)
    # negative control: flip the expectation of recorded legal vectors
    bad = []
    with open(vec) as f:
        for line in f:
            v = json.loads(json.loads(line))
            if v["ok"] and v["bal"] and not v["open"] and v["toks"]:
                v["toks"] = v["toks"][:-1]
                bad.append(v)
            if len(bad) >= 200:
                break
    p = os.path.join(ctx.scratch, "neglex.ndjson")
    with open(p, "w") as f:
        for v in bad:
            f.write(json.dumps(v) + "\n")
    s = ctx.vh_json("replay-lex", p)
    ctx.extra.setdefault("negative_controls", []).append({"corrupted_vectors": len(bad), "rejected": s["n_disagree"]})
    if s["n_disagree"] != len(bad) or not bad:
        raise core.Broken("negative control: corrupted lexer vectors were accepted")
    # TV: serialisers
    d = ctx.specdir()
    tr = os.path.join(d, "pswrite.ndjson")
    r = ctx.vh_json("trace-pswrite", tr, 2 if q else 3, 300 if q else 3000, ctx.seed)
    if r["self_roundtrip_failures"]:
        ctx.violation("serialiser: library does not read back its own output", "String.PS/Name.PS output is not read back to the same value",
                      stimulus=r["first_failure"])
    cfg = ('CONSTANTS\n  TraceFile = "pswrite.ndjson"\nINIT Init\nNEXT Next\nINVARIANT ReadsBack\n'
           'POSTCONDITION Accepted\nCHECK_DEADLOCK FALSE\n')
    res = ctx.tlc("TracePSWrite", cfg, workers=1, label="trace-pswrite", must_pass=False, timeout=1200)
    ctx.traces += r["events"]
    ctx.evaluations += r["events"]
    ctx.extra["serialiser_events"] = r["events"]
    if not res.ok:
        if res.violated:
            ctx.violation("serialiser: output not read back by the specification",
                          "String.PS or Name.PS produced a text that the PLRM tokenizer does not read back as the value",
                          observed=res.out[-1500:], spec="TracePSWrite!ReadsBack")
        else:
            raise core.Broken("TracePSWrite failed: %s\n%s" % (res.error, res.out[-2000:]))
    # negative control for the trace: corrupt one recorded text
    lines = open(tr).read().splitlines()
    ev = json.loads(lines[5])
    ev["text"] = ev["text"][:-1] + [40, 41]
    lines[5] = json.dumps(ev)
    with open(os.path.join(d, "pswrite-bad.ndjson"), "w") as f:
        f.write("\n".join(lines[:50]) + "\n")
    cfgb = cfg.replace("pswrite.ndjson", "pswrite-bad.ndjson")
    rb = ctx.tlc("TracePSWrite", cfgb, workers=1, label="trace-pswrite-negctl", must_pass=False, count=False)
    if rb.ok:
        raise core.Broken("negative control: a corrupted serialiser trace was accepted")
    ctx.extra["negative_controls"].append({"corrupted_trace_rejected": True})
    ctx.exhaustive = True
