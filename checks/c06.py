"""C06 - the Type 1 reader recovers exactly the font a conforming file describes."""
import json
import os

from checks import pscommon
from engine import core


def t1_family(ctx, fam, invariants=("Emit", "GlyphOK"), tier=None, workers=None):
    d = ctx.specdir()
    out = "t1-%s.ndjson" % fam
    if os.path.exists(os.path.join(d, out)):
        os.remove(os.path.join(d, out))
    cfg = ('CONSTANTS\n  Family = "%s"\n  Tier = "%s"\n  OutFile = "%s"\nINIT Init\nNEXT Next\n'
           % (fam, tier or ctx.tier, out))
    for inv in invariants:
        cfg += "INVARIANT %s\n" % inv
    cfg += "CHECK_DEADLOCK FALSE\n"
    ctx.tlc("MC_T1Font", cfg, label="t1-" + fam, timeout=2400, workers=workers)
    return os.path.join(d, out)


def run(ctx):
    ctx.rule = ("T1Charstring.tla is the Type 1 BuildChar machine (exact rationals). MC_T1Font: TLC assembles glyphs from "
                "header (hsbw/sbw) x hint set (hstem, vstem, hstem3, vstem3, dotsection) x move spelling x up to 2-3 path "
                "items (every line/curve command, flex after move/line/curve, div operands, subroutine calls, hint "
                "replacement) with operands on the number-format boundaries, decodes them with the machine and emits "
                "tokens + described glyph; family layout: every container x lenIV x RD/-| names x number encoding x "
                "encoding form, the line ends LF / CR / CR LF of the text portions, 1500 filler glyphs (an encrypted portion "
                "beyond 64 KiB); family fontlevel: FontInfo / Private variants x date layouts x line ends; family seac: accented composites (DESIGN.md 10). The harness's independent writer "
                "(Type 1 book structure, own ciphers checked against Eexec.tla) serialises the model font, type1.Read "
                "must return the described outlines, widths, hints, encoding at all 256 codes, FontInfo and Private values "
                "with defaults.")
    ctx.assumptions = ["composites are generated with asb = sbx(composite) = sbx(accent); stem3 not mixed with other stems of "
                       "the same direction; OtherSubr 3 answered without hint replacement (DESIGN.md section 10)",
                       "contours are closed explicitly (the form the Type 1 book recommends)"]
    total = 0
    fams = ("glyph", "layout", "seac", "fontlevel")
    # the four generating runs are independent (most of their time is TLC evaluating the constant
    # definitions of MC_T1Font): run them side by side
    ctx.specdir()
    from concurrent.futures import ThreadPoolExecutor
    with ThreadPoolExecutor(max_workers=4) as ex:
        futs = {fam: ex.submit(t1_family, ctx, fam, ("Emit", "GlyphOK") if fam in ("glyph", "layout") else ("Emit",), None, 4)
                for fam in fams}
        vecs = {fam: f.result() for fam, f in futs.items()}
    for fam in fams:
        vec = vecs[fam]
        summ = ctx.vh_json("replay-t1", vec, timeout=2400)
        pscommon.absorb(ctx, summ, "vh replay-t1 (%s)" % fam, "T1Charstring!T1Run / MC_T1Font!Vector")
        ctx.extra["t1_" + fam] = {"vectors": summ["vectors"], "layouts": summ["per_op"], "features": summ["per_op_ok"]}
        total += summ["vectors"]
        if fam == "glyph":
            need = {"flex-after-line", "flex-after-move", "flex-after-curve", "div", "subr", "callothersubr", "hstem3", "vstem3", "sbw",
                    "rrcurveto", "hvcurveto", "vhcurveto", "rlineto", "hlineto", "vlineto", "hstem", "vstem", "dotsection"}
            missing = need - set(summ["per_op_ok"])
            if missing:
                raise core.Broken("vacuity: features never generated: %s" % sorted(missing))
            glyphvec = vec
    ctx.exhaustive = True
    # negative control: move one described point
    bad = []
    with open(glyphvec) as f:
        for line in f:
            v = json.loads(json.loads(line))
            e = v["expect"][1]
            if e["cmds"]:
                e["cmds"][0]["a"][0]["n"] += 1
                bad.append(v)
            if len(bad) >= 100:
                break
    p = os.path.join(ctx.scratch, "negt1.ndjson")
    with open(p, "w") as f:
        for v in bad:
            f.write(json.dumps(v) + "\n")
    s = ctx.vh_json("replay-t1", p)
    ctx.extra["negative_controls"] = [{"corrupted_vectors": len(bad), "rejected": s["n_disagree"]}]
    if not bad or s["n_disagree"] != len(bad):
        raise core.Broken("negative control: corrupted glyph descriptions were accepted")
