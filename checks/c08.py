"""C08 - the Type 1 writer emits conforming files that say what the font says."""
import json
import os

from checks import tvcommon
from engine import core


def run(ctx):
    ctx.rule = ("Fonts generated along the axes of the property (regular-character names, integer and fractional "
                "coordinates, 2-300 glyphs, all four encoding kinds, info strings over all byte values) are written with "
                "Font.Write in the four formats and with WritePDF; the harness takes the bytes apart with its own decoder "
                "(PFB framing, hex, eexec key 55665, charstring key 4330 + four lead bytes, number / command decoding, "
                "tokenizer) and records a file-structure event and one event per glyph; TLC validates the structure "
                "(T1File!StructureOK: little-endian PFB lengths = payload sizes, end marker, legal binary lead bytes, "
                "WritePDF lengths) and runs every integer glyph's charstring on T1Charstring.tla: outline, width and hints "
                "must be the input glyph's and every number in its proper format. Dictionaries, encoding at all 256 codes "
                "and fractional outlines (bound 1/214) are compared by the harness on the independently tokenized program.")
    ctx.assumptions = ["dictionary entries are extracted from the independent token stream by the '/key value def' pattern of "
                       "the Type 1 book, not by executing the program (the program is executed by the library's own reader in C09)"]
    n = 24 if ctx.tier == "quick" else 3000
    r = tvcommon.run_tv(ctx, "trace-t1write", [n, ctx.seed], "TraceT1Write", "Holds", "file", sigfn=sig8,
                        what="the written file is not a conforming description of the font (TraceT1Write)", neg=False)
    ctx.extra["glyph_events"] = r["glyph_events"]
    ctx.extra["fonts"] = r["fonts"]
    ctx.extra["segment_shapes"] = r.get("shapes")
    if r.get("shapes_missing"):
        raise core.Broken("vacuity: segment shapes never generated: %s" % r["shapes_missing"])
    # negative controls: a wrong PFB length, a wrong PDF length, a moved point
    d = ctx.specdir()
    lines = open(os.path.join(d, "tv-trace-t1write.ndjson")).read().splitlines()
    bad = []
    for ln in lines:
        ev = json.loads(ln)
        if ev["ev"] == "file" and ev["fmt"] == "pfb" and len(bad) == 0:
            ev["f"]["segs"][1]["declared"] += 1
            bad.append(ev)
        elif ev["ev"] == "file" and ev["fmt"] == "pdf" and len(bad) == 1:
            ev["f"]["l2"] -= 1
            bad.append(ev)
        elif ev["ev"] == "glyph" and ev["exact"] and ev["want"]["cmds"] and len(bad) == 2:
            ev["want"]["cmds"][0]["a"][0] += 1
            bad.append(ev)
        elif ev["ev"] == "file" and ev["fmt"] == "binary" and len(bad) == 3:
            ev["f"]["lead"] = [48, 49, 50, 51]
            bad.append(ev)
    with open(os.path.join(d, "negwrite.ndjson"), "w") as f:
        for ev in bad:
            f.write(json.dumps(ev) + "\n")
    rn, rej = tvcommon.validate(ctx, d, "negwrite.ndjson", "TraceT1Write", "Holds", "trace-t1write-negctl")
    ctx.extra["negative_controls"] = [{"corrupted_events": len(bad), "rejected": len(rej)}]
    if len(bad) < 4 or len(rej) != len(bad):
        raise core.Broken("negative control: corrupted writer events were accepted (%d of %d rejected)" % (len(rej), len(bad)))


def sig8(ev):
    if ev["ev"] == "file":
        return "c08 file structure fmt=%s" % ev["fmt"]
    return "c08 glyph charstring (exact=%s)" % ev.get("exact")
