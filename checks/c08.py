"""C08 - the Type 1 writer emits conforming files that say what the font says."""
import json
import os

from checks import tvcommon
from engine import core


def run(ctx):
    ctx.rule = ("Fonts generated along the axes of the property (regular-character names, integer and fractional "
                "coordinates, 2-300 glyphs, all four encoding kinds, info strings over all byte values) are written with "
                "Font.Write in the four formats and with WritePDF; the harness takes the bytes apart with its own decoder "
                "(PFB framing, hex, eexec key 55665, charstring key 4330 + four lead bytes, number / command decoding, "
                "tokenizer) and records a file-structure event and one event per glyph; TLC validates the structure "
                "(T1File!StructureOK: little-endian PFB lengths = payload sizes, end marker, legal binary lead bytes, "
                "WritePDF lengths) and runs every integer glyph's charstring on T1Charstring.tla: outline, width and hints "
                "must be the input glyph's and every number in its proper format. Dictionaries, encoding at all 256 codes "
                "and fractional outlines (bound 1/214) are compared by the harness on the independently tokenized program.")
    ctx.assumptions = ["dictionary entries are extracted from the independent token stream by the '/key value def' pattern of "
                       "the Type 1 book, not by executing the program (the program is executed by the library's own reader in C09)"]
    n = 24 if ctx.tier == "quick" else 3000
    r = tvcommon.run_tv(ctx, "trace-t1write", [n, ctx.seed], "TraceT1Write", "Holds", "file", sigfn=sig8,
                        what="the written file is not a conforming description of the font (TraceT1Write)", neg=False)
    ctx.extra["glyph_events"] = r["glyph_events"]
    ctx.extra["fonts"] = r["fonts"]
    ctx.extra["segment_shapes"] = r.get("shapes")
    if r.get("shapes_missing"):
        raise core.Broken("vacuity: segment shapes never generated: %s" % r["shapes_missing"])
    # negative controls: a wrong PFB length, a wrong PDF length, a moved point
    d = ctx.specdir()
    lines = open(os.path.join(d, "tv-trace-t1write.ndjson")).read().splitlines()
    bad = []
    for ln in lines:
        ev = json.loads(ln)
        if ev["ev"] == "file" and ev["fmt"] == "pfb" and len(bad) == 0:
            ev["f"]["segs"][1]["declared"] += 1
            bad.append(ev)
        elif ev["ev"] == "file" and ev["fmt"] == "pdf" and len(bad) == 1:
            ev["f"]["l2"] -= 1
            bad.append(ev)
        elif ev["ev"] == "glyph" and ev["exact"] and ev["want"]["cmds"] and len(bad) == 2:
            ev["want"]["cmds"][0]["a"][0] += 1
            bad.append(ev)
        elif ev["ev"] == "file" and ev["fmt"] == "binary" and len(bad) == 3:
            ev["f"]["lead"] = [48, 49, 50, 51]
            bad.append(ev)
    with open(os.path.join(d, "negwrite.ndjson"), "w") as f:
        for ev in bad:
            f.write(json.dumps(ev) + "\n")
    rn, rej = tvcommon.validate(ctx, d, "negwrite.ndjson", "TraceT1Write", "Holds", "trace-t1write-negctl")
    ctx.extra["negative_controls"] = [{"corrupted_events": len(bad), "rejected": len(rej)}]
    if len(bad) < 4 or len(rej) != len(bad):
        raise core.Broken("negative control: corrupted writer events were accepted (%d of %d rejected)" % (len(rej), len(bad)))
    exec_part(ctx)


def exec_part(ctx):
    """The written program executed by the specification's own PostScript machine (TraceT1Exec)."""
    from checks import pscommon
    d = ctx.specdir()
    n = 12 if ctx.tier == "quick" else 200
    tr = "t1exec.ndjson"
    r = ctx.vh_json("trace-t1exec", os.path.join(d, tr), n, ctx.seed, timeout=1200)
    for f in r.get("failures") or []:
        ctx.violation(f["Sig"], f["What"], stimulus=f["Stim"], how="vh trace-t1exec")
    lines = open(os.path.join(d, tr)).read().splitlines()
    if not lines:
        raise core.Broken("trace-t1exec produced no events")
    cfg = ("CONSTANTS\n" + pscommon.ps_consts(ctx) + '  TraceFile = "%s"\n  BaseHeap <- FreshHeap\n'
           "INIT Init\nNEXT Next\nINVARIANT Holds\nPOSTCONDITION Accepted\nCHECK_DEADLOCK FALSE\n")
    res = ctx.tlc("TraceT1Exec", cfg % tr, workers=1, label="trace-t1exec", must_pass=False, timeout=2400, xss="512m")
    if not res.ok:
        raise core.Broken("TraceT1Exec did not consume the whole trace: %s\n%s" % (res.violated or res.error, res.out[-1500:]))
    import re
    rejected = [int(x) for x in re.findall(r'"REJECTED-EVENT", (\d+)', res.out)]
    for idx in rejected:
        ev = json.loads(lines[idx - 1])
        ctx.violation("c08 program executed by PSMachine does not say what the font says",
                      "the written font program, executed by the specification's PostScript machine, does not build the "
                      "dictionaries the font describes (TraceT1Exec!Says)",
                      stimulus="font id=%s %s" % (ev.get("id"), ev.get("opts")), how="vh trace-t1exec + TLC TraceT1Exec",
                      spec="TraceT1Exec!Says")
    ctx.traces += len(lines)
    ctx.evaluations += len(lines)
    ctx.extra["programs_executed_by_PSMachine"] = len(lines)
    # negative control: one byte of a FontInfo string, one glyph dropped
    k = next((i for i in range(len(lines)) if (i + 1) not in rejected), None)
    if k is None:
        return
    bad = []
    ev = json.loads(lines[k])
    ev["want"]["strs"]["FullName"] = ev["want"]["strs"]["FullName"] + [33]
    bad.append(ev)
    ev = json.loads(lines[k])
    ev["want"]["matrix"][0], ev["want"]["matrix"][1] = ev["want"]["matrix"][1], ev["want"]["matrix"][0]
    bad.append(ev)
    with open(os.path.join(d, "negexec.ndjson"), "w") as f:
        for e in bad:
            f.write(json.dumps(e) + "\n")
    rn = ctx.tlc("TraceT1Exec", cfg % "negexec.ndjson", workers=1, label="trace-t1exec-negctl", must_pass=False, timeout=600,
                 xss="512m", count=False)
    nrej = len(re.findall(r'"REJECTED-EVENT", (\d+)', rn.out))
    ctx.extra.setdefault("negative_controls", []).append({"corrupted_exec_events": len(bad), "rejected": nrej})
    if nrej != len(bad):
        raise core.Broken("negative control: corrupted TraceT1Exec events were accepted (%d of %d rejected)" % (nrej, len(bad)))


def sig8(ev):
    if ev["ev"] == "file":
        return "c08 file structure fmt=%s" % ev["fmt"]
    return "c08 glyph charstring (exact=%s)" % ev.get("exact")
