"""Trace-validation plumbing shared by the history checks (C09, C10, C17, ...)."""
import json
import os

from engine import core


def first_diff(a, b):
    """Name the first field in which two projected fonts differ (for signatures)."""
    if a is None or b is None:
        return "missing"
    for k in ("enc", "name", "strings", "nums", "ints", "blues", "other", "date"):
        if a.get(k) != b.get(k):
            if k == "strings":
                names = ["version", "notice", "copyright", "fullname", "familyname", "weight"]
                for i, (x, y) in enumerate(zip(a[k], b[k])):
                    if x != y:
                        return "string:" + names[i]
            if k == "nums":
                names = ["italic", "ulpos", "ulthick", "m0", "m1", "m2", "m3", "m4", "m5", "bluescale", "stdhw", "stdvw"]
                for i, (x, y) in enumerate(zip(a[k], b[k])):
                    if x != y:
                        return "num:" + names[i]
            return k
    ga, gb = a.get("glyphs", []), b.get("glyphs", [])
    if [g["name"] for g in ga] != [g["name"] for g in gb]:
        return "glyphset"
    for x, y in zip(ga, gb):
        for k in ("wx", "wy", "h", "v"):
            if x[k] != y[k]:
                return "glyph:" + k
        if [c["op"] for c in x["cmds"]] != [c["op"] for c in y["cmds"]]:
            return "glyph:ops"
        if x["cmds"] != y["cmds"]:
            return "glyph:coords"
    return "none"


import re


def validate(ctx, d, tracefile, module, invariant, label):
    """Validate a trace; returns (result, indices of rejected events).  The trace specifications
    examine every event and print REJECTED-EVENT for the ones that violate the relation."""
    cfg = ('CONSTANTS\n  TraceFile = "%s"\nINIT Init\nNEXT Next\nPOSTCONDITION Accepted\n'
           'CHECK_DEADLOCK FALSE\n' % tracefile)
    res = ctx.tlc(module, cfg, workers=1, label=label, must_pass=False, timeout=2400)
    rejected = [int(m.group(1)) for m in re.finditer(r'<<"REJECTED-EVENT", (\d+)>>', res.out)]
    return res, sorted(set(rejected))


def run_tv(ctx, cmd, args, module, invariant, evname, sigfn, what, neg=True):
    """Run a harness command that writes an ndjson trace and let TLC validate every event."""
    d = ctx.specdir()
    tr = "tv-%s.ndjson" % cmd
    r = ctx.vh_json(cmd, os.path.join(d, tr), *args, timeout=2400)
    for f in r.get("failures") or []:
        ctx.violation(f["Sig"], f["What"], stimulus=f["Stim"], how="vh " + cmd)
    lines = open(os.path.join(d, tr)).read().splitlines()
    if not lines:
        raise core.Broken("%s produced no events" % cmd)
    ctx.traces += len(lines)
    ctx.evaluations += len(lines)
    ctx.nontrivial_extra += len(lines)
    ctx.extra["events"] = len(lines)
    for a in (r.get("axes") or [])[:4]:
        ctx.sample(a)
    res, rejected = validate(ctx, d, tr, module, invariant, "trace-" + cmd)
    if not res.ok:
        raise core.Broken("%s did not consume the whole trace: %s\n%s" % (module, res.violated or res.error, res.out[-1500:]))
    for idx in rejected:
        ev = json.loads(lines[idx - 1])
        ctx.violation(sigfn(ev), what, stimulus="%s id=%s %s" % (ev.get("fmt"), ev.get("id"), ev.get("opts", "")),
                      how="vh %s + TLC %s" % (cmd, module), spec="%s!%s" % (module, invariant))
    ctx.extra["rejected_events"] = len(rejected)
    if neg:
        # negative control: corrupt one recorded field of the first accepted event
        k = next((i for i in range(len(lines)) if (i + 1) not in rejected), None)
        if k is None:
            raise core.Broken("no accepted event for the negative control")
        ev = json.loads(lines[k])
        key = "b" if "b" in ev else "f3"
        ev[key]["name"] = ev[key]["name"] + [88]
        with open(os.path.join(d, "neg.ndjson"), "w") as f:
            f.write(json.dumps(ev) + "\n")
        rn, rej = validate(ctx, d, "neg.ndjson", module, invariant, "trace-negctl")
        ctx.extra.setdefault("negative_controls", []).append({"corrupted_event_rejected": bool(rej)})
        if not rej:
            raise core.Broken("negative control: a corrupted event was accepted")
    return r
