"""C07 - the CMap reader returns exactly the mappings written in the file."""
import json
import os

from checks import pscommon
from engine import core


def run(ctx):
    ctx.rule = ("TLC picks (MC_CMap) an option record (WMode, usecmap, two CMaps in a file, missing begincmap) and a "
                "sequence of up to MaxBlocks blocks of the seven kinds (entry counts incl. 0 and 99/100, mixed code "
                "lengths 1-4, unsorted sources, every destination type) or a single-fault variant (wrong operand "
                "type, unequal lengths, low > high, count larger than supplied, count 101, negative count); PSMachine "
                "+ CIDInit.tla execute the tokens and prescribe the returned dictionary or an error; the harness lays "
                "the tokens out with seeded white space / comments / hex case and calls ReadCMap.")
    ctx.assumptions = ["entries with equal source codes may appear in either order (the library's sort is not stable)",
                       "reversed code-space ranges are not generated as faults (the property's reversed range is a range mapping)"]
    q = ctx.tier == "quick"
    d = ctx.specdir()
    out, base = "cmapvec", "cmap.base.json"
    os.makedirs(os.path.join(d, out), exist_ok=True)
    def cfg(tier, maxblocks):
        return ("CONSTANTS\n" + pscommon.ps_consts(ctx, floors={"opstack": 400}) +
                '  Tier = "%s"\n  MaxBlocks = %d\n  OutFile = "%s"\n  BaseFile = "%s"\n  BaseHeap <- FreshHeap\n'
                "INIT Init\nNEXT Next\nINVARIANT Emit\nINVARIANT Inv\nPROPERTY TablesOnlyGrow\nCHECK_DEADLOCK FALSE\n"
                % (tier, maxblocks, out, base))
    # exhaustive: every option record x every sequence of up to two blocks (measured: quick 0.7 M states / 24 s,
    # thorough entry counts 0.9 M / 23 s; three blocks exhaustively is > 11 M states and does not end in 40 min)
    ctx.tlc("MC_CMap", cfg(ctx.tier, 2), label="cmap", timeout=2400, xss="512m")
    if not q:
        # longer files: random sequences of up to four blocks (one behaviour = one file)
        ctx.tlc("MC_CMap", cfg("thorough", 4), label="cmap-sim4", timeout=2400, simulate=3000, depth=20000, workers=8, xss="512m")
    vec = os.path.join(d, out)
    summ = ctx.vh_json("replay-cmap", "-base", os.path.join(d, base), "-seed", ctx.seed, vec, timeout=2400)
    if set(summ["per_op"]) != {"codespacerange", "cidchar", "cidrange", "bfchar", "bfrange", "notdefchar", "notdefrange"}:
        raise core.Broken("vacuity: not every block kind was generated: %s" % sorted(summ["per_op"]))
    pscommon.absorb(ctx, summ, "vh replay-cmap", "CIDInit!CidOp")
    ctx.extra["files"] = summ["vectors"]
    ctx.extra["expect_ok"] = summ["expect_ok"]
    ctx.extra["expect_error"] = summ["expect_error"]
    ctx.exhaustive = True
    # negative control: drop one entry from an expected table / turn an error into success
    bad = []
    for fn in sorted(os.listdir(vec)):
        with open(os.path.join(vec, fn)) as f:
            v = json.load(f)
            if v["status"] == "done":
                for k, c in v["heap"].items() if isinstance(v["heap"], dict) else []:
                    if c.get("k") == "cmapinfo":
                        for t in ("cidchars", "bfchars", "csr", "cidranges", "bfranges", "ndchars", "ndranges"):
                            if c.get(t):
                                c[t] = c[t][1:]
                                bad.append(v)
                                break
                        break
            if len(bad) >= 100:
                break
    p = os.path.join(ctx.scratch, "negcmap.ndjson")
    with open(p, "w") as f:
        for v in bad:
            f.write(json.dumps(v) + "\n")
    s = ctx.vh_json("replay-cmap", "-base", os.path.join(d, base), "-seed", ctx.seed, p)
    ctx.extra["negative_controls"] = [{"corrupted_vectors": len(bad), "rejected": s["n_disagree"]}]
    if not bad or s["n_disagree"] != len(bad):
        raise core.Broken("negative control: corrupted CMap expectations were accepted (%d of %d rejected)" % (s["n_disagree"], len(bad)))
