"""C05 - eexec-encrypted program sections are transparent."""
import json
import os

from checks import pscommon
from engine import core


def run(ctx):
    ctx.rule = ("Eexec.tla: TLC checks on all 65536 cipher states x 256 byte values that decryption inverts encryption "
                "(EexecTest identity), and emits reference vectors against which the harness's own cipher is checked. "
                "MC_Eexec: TLC picks plaintext programs (defs, readstring with hostile binary data, dict left open, "
                "closefile inside procedures, no closefile, short data) x form (binary, hex lower/upper/mixed) x every "
                "legal pattern of lead-byte classes x white-space patterns after the first four digits (up to three white-space "
                "bytes between any two cipher bytes) x blanks after eexec x the white space that ends the section (LF, CR, CR LF) x "
                "trailer, with the first or the last cipher byte placed at the scanner's refill boundaries; PSMachine prescribes the final state of the equivalent plaintext run with systemdict "
                "pushed; the harness encrypts with its own cipher, lays the section out and compares the interpreter "
                "state. Cipher coverage: a long random binary section read back through readstring.")
    ctx.assumptions = ["white space inside the first four hex digits and sections whose plaintext does not end in white "
                       "space after closefile are not generated (outside the quantifier)",
                       "harness cipher (harness/indep) is checked against Eexec.tla before use"]
    d = ctx.specdir()
    q = ctx.tier == "quick"
    # 1. cipher identities on every state (design level)
    step = 16384 if q else 65536
    cfg = ('CONSTANTS\n  Mode = "identity"\n  OutFile = "x"\n  RLo = 0\n  RHi = %d\nINIT Init\nNEXT Next\n'
           'INVARIANT Identity\nCHECK_DEADLOCK FALSE\n' % (step - 1))
    ctx.tlc("EexecTest", cfg, label="eexec-identity", timeout=900)
    # 2. reference vectors -> self-test of the independent cipher
    out = "eexecvec.ndjson"
    cfg = ('CONSTANTS\n  Mode = "vectors"\n  OutFile = "%s"\n  RLo = 0\n  RHi = 65535\nINIT Init\nNEXT Next\n'
           'INVARIANT Vectors\nCHECK_DEADLOCK FALSE\n' % out)
    cfg = cfg.replace("RLo = 0\n  RHi = 65535", "RLo = 55600\n  RHi = 55700")
    ctx.tlc("EexecTest", cfg, label="eexec-vectors", workers=1, xss="256m")
    st = ctx.vh_json("selftest-eexec", os.path.join(d, out))
    ctx.extra["cipher_selftest"] = st
    # 3. layouts
    eexec_layouts(ctx, q)
    cov_part(ctx, q)


def eexec_layouts(ctx, q, only=None, how_prefix="", count=False):
    """MC_Eexec layouts replayed into the library; `only` keeps the disagreements of some plaintexts
    (used by C03 for stop inside a section and by C11 for the limits inside a section)."""
    d = ctx.specdir()
    out, base = "eexec.ndjson", "eexec.base.json"
    cfg = ("CONSTANTS\n" + pscommon.ps_consts(ctx) +
           '  Tier = "%s"\n  OutFile = "%s"\n  BaseFile = "%s"\n  BaseHeap <- FreshHeap\n'
           "INIT Init\nNEXT Next\nINVARIANT Emit\nINVARIANT Inv\nPROPERTY DictStackRestored\nCHECK_DEADLOCK FALSE\n"
           % (ctx.tier, out, base))
    ctx.tlc("MC_Eexec", cfg, label="eexec-layouts", timeout=1200)
    total = None
    for k in range(1 if q else 4):
        summ = ctx.vh_json("replay-eexec", *(("-count",) if count else ()), "-base", os.path.join(d, base), "-seed", ctx.seed + k,
                           os.path.join(d, out))
        if only is not None:
            keep = tuple(("plaintext#%d " % p) if isinstance(p, int) else p for p in only)
            summ["by_sig"] = {s: n for s, n in (summ.get("by_sig") or {}).items() if any(x in s for x in keep)}
            summ["disagreements"] = [g for g in (summ.get("disagreements") or []) if any(x in g["sig"] for x in keep)]
        pscommon.absorb(ctx, summ, how_prefix + "vh replay-eexec (seed %d)" % (ctx.seed + k), "MC_Eexec / PSMachine!ExecOp eexec")
        total = summ
    ctx.extra["eexec_layouts"] = total["vectors"]
    if only is not None:
        return
    ctx.extra["forms"] = total["per_op"]
    # negative control: expect a different stack
    bad = []
    with open(os.path.join(d, out)) as f:
        for line in f:
            v = json.loads(json.loads(line))
            if v["status"] == "done":
                v["ost"] = v["ost"] + [{"t": "int", "i": {"s": 1, "m": [7]}}]
                bad.append(v)
            if len(bad) >= 60:
                break
    p = os.path.join(ctx.scratch, "negeexec.ndjson")
    with open(p, "w") as f:
        for v in bad:
            f.write(json.dumps(v) + "\n")
    s = ctx.vh_json("replay-eexec", "-base", os.path.join(d, base), "-seed", ctx.seed, p)
    ctx.extra["negative_controls"] = [{"corrupted_vectors": len(bad), "rejected": s["n_disagree"]}]
    if not bad or s["n_disagree"] != len(bad):
        raise core.Broken("negative control: corrupted eexec expectations were accepted")


def cov_part(ctx, q):
    # 4. cipher coverage through the library: random binary data read back with readstring
    cov = ctx.vh_json("eexec-coverage", 20000 if q else 2000000, ctx.seed)
    ctx.extra["cipher_pairs_through_library"] = cov["pairs"]
    ctx.extra["cipher_states_seen"] = cov["states"]
    ctx.evaluations += cov["pairs"]
    if cov["mismatch"]:
        ctx.violation("eexec cipher: decrypted data differs", "binary data read with readstring inside an eexec section is not byte-exact",
                      stimulus=cov["first"], how="vh eexec-coverage", spec="Eexec!Decrypt")
