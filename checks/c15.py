"""C15 - AFM metrics survive writing and reading."""
import copy
import json
import os

from checks import pscommon
from engine import core

SIG_A1 = "afm write: Version/Notice dropped"
FUZZ_SEEDS = os.path.join(core.REPO, "afm", "testdata", "fuzz", "FuzzReadAFM")


def gen(ctx, family, simulate=None):
    d = ctx.specdir()
    out = "afm-%s.ndjson" % family
    if os.path.exists(os.path.join(d, out)):
        os.remove(os.path.join(d, out))
    cfg = ('CONSTANTS\n  Family = "%s"\n  OutFile = "%s"\n  Tier = "%s"\nINIT Init\nNEXT Next\n'
           'INVARIANT Emit\nINVARIANT InDomain\nCHECK_DEADLOCK FALSE\n' % (family, out, ctx.tier))
    ctx.tlc("MC_AFM", cfg, label="afm-gen-" + family, simulate=simulate, depth=12 if simulate else None,
            workers=1 if simulate else None, timeout=900)
    p = os.path.join(d, out)
    if not os.path.exists(p) or os.path.getsize(p) == 0:
        raise core.Broken("MC_AFM %s emitted no vectors" % family)
    return p


def trace_cfg(trace, out):
    return ('CONSTANTS\n  TraceFile = "%s"\n  OutFile = "%s"\nINIT Init\nNEXT Next\nINVARIANT Emit\n'
            'POSTCONDITION Accepted\nCHECK_DEADLOCK FALSE\n' % (trace, out))


def read_lines(path):
    out = []
    with open(path) as f:
        for line in f:
            line = line.strip()
            if line:
                out.append(json.loads(line))
    return out


def split_traces(path):
    """The texts of a line-event trace: id,kind -> (model, [line events])."""
    texts, cur = {}, None
    for ev in read_lines(path):
        if ev["ev"] == "begin":
            cur = (ev["id"], ev["kind"])
            texts[cur] = [ev["m"], []]
        elif ev["ev"] == "line":
            texts[cur][1].append(ev)
    return texts


def format_tv(ctx, trace, label, count=True):
    """Run AFMFormat over a trace of line events; returns the verdicts."""
    d = ctx.specdir()
    out = "verdict-%s.ndjson" % label
    if os.path.exists(os.path.join(d, out)):
        os.remove(os.path.join(d, out))
    ctx.tlc("TraceAFMFormat", trace_cfg(os.path.basename(trace), out), workers=1, label="trace-afmformat-" + label,
            timeout=2400, count=count)
    return core.read_vectors(os.path.join(d, out))


def judge_format(ctx, verdicts, texts):
    """kind lib: C15 (d).  kind indep: self-test of the layout writer and the tokenizer."""
    n_lib = 0
    for v in verdicts:
        key = (v["id"], v["kind"])
        model, lines = texts.get(key, (None, []))
        text = "\n".join(" ".join(e["toks"]) for e in lines)
        if v["kind"] == "indep":
            if v["diff"] or v["err"] or v["mode"] != "done":
                raise core.Broken("self-test: the independent AFM writer's text does not mean its model according to "
                                  "AFMFormat (diff %s, err %r, mode %s):\n%s" % (v["diff"], v["err"], v["mode"], text))
            continue
        n_lib += 1
        stim = "Metrics.Write of %s" % json.dumps(model)
        if v["err"]:
            ctx.violation("afm write: text outside the AFM subset", "the text written by Metrics.Write is not understood by an independent "
                          "reader: " + v["err"], stimulus=stim, expected="a well-formed AFM file", observed=text,
                          how="TraceAFMFormat", spec="AFMFormat!AfmLine")
        elif v["mode"] != "done":
            ctx.violation("afm write: incomplete file", "the text written by Metrics.Write is not a complete AFM file (" + v["mode"] + ")",
                          stimulus=stim, expected="StartFontMetrics .. StartCharMetrics .. EndFontMetrics", observed=text,
                          how="TraceAFMFormat", spec="AFMFormat!AfmComplete")
        for c in v["diff"]:
            if c in ("Version", "Notice") and c in v["absent"]:
                ctx.violation(SIG_A1, "Metrics.Write does not write the %s line: an independent reader of the file does not get the field" % c,
                              stimulus=stim, expected="a line `%s %s`" % (c, model["txt"][c]), observed=text,
                              how="TraceAFMFormat (AFMFormat reads the library's text)", spec="AFMFormat!AfmDiff")
            else:
                ctx.violation("afm write (read by AFMFormat): %s differs" % c,
                              "the text written by Metrics.Write describes different metrics (%s) to an independent reader" % c,
                              stimulus=stim, expected="model " + c, observed=text,
                              how="TraceAFMFormat (AFMFormat reads the library's text)", spec="AFMFormat!AfmDiff")
    return n_lib


def run(ctx):
    q = ctx.tier == "quick"
    ctx.rule = ("MC_AFM.tla generates metrics values inside the domain (1-6 glyphs with/without .notdef, injective codes, 0-3 "
                "ligatures, kerning lists with repeated pairs, all header fields incl. Version and Notice, integral numbers up to "
                "the int16/int32 edges) together with a layout. (a) Build *afm.Metrics, Write, Read, compare with the model; "
                "(b) the harness's own AFM writer lays the model out (field order, blank runs, LF/CRLF, comments, unknown keys, "
                "header order) and afm.Read must return the model; (d) the library's text, cut into line events by the "
                "harness's tokenizer, is read by AFMFormat.tla and must describe the model (the same run checks that the "
                "independent writer's texts mean their model); (c) texts from (b) with out-of-domain numbers, the repository's "
                "fuzz seeds and odd-but-accepted texts go through Read (Write Read)^2 and TLC judges every history with "
                "AFMCycle (QuantAFM, then identity). distinct = distinct texts read by afm.Read.")
    ctx.assumptions = ["not generated (outside the property's domain): CR-only line ends, CH <hex> codes, names of several tokens, "
                       "blanks at the start of a line, .notdef with a code, duplicate glyph names or codes in in-domain files",
                       "negative zero is the number zero; NaN equals NaN in the cycle relation",
                       "ligature order within a line is not compared (map)"]
    d = ctx.specdir()

    # ---- generation
    sim = gen(ctx, "sim", simulate=300 if q else 10000)
    lay1 = gen(ctx, "lay1")
    lay2 = gen(ctx, "lay2")

    # ---- (a), (b) MBT; traces for (d) and the self-test
    tr_sim = os.path.join(d, "afm-trace-sim.ndjson")
    s1 = ctx.vh_json("afm-mbt", "-trace", tr_sim, sim, timeout=1200)
    pscommon.absorb(ctx, s1, "vh afm-mbt (MC_AFM sim)", "AFMFormat!AfmEquiv")
    tr_lay = os.path.join(d, "afm-trace-lay.ndjson")
    s2 = ctx.vh_json("afm-mbt", "-skip-a", "-trace-every", 16 if q else 8, "-trace", tr_lay, lay1, lay2, timeout=1200)
    pscommon.absorb(ctx, s2, "vh afm-mbt (MC_AFM lay1 lay2)", "AFMFormat!AfmEquiv")
    ctx.extra["mbt"] = {"sim": {k: s1[k] for k in ("vectors", "agreed", "per_op", "by_sig")},
                        "layouts": {k: s2[k] for k in ("vectors", "agreed", "per_op", "by_sig")}}

    # ---- (d) TV: AFMFormat reads what the library wrote
    n_lib = 0
    for tr, label in ((tr_sim, "sim"), (tr_lay, "lay")):
        verdicts = format_tv(ctx, tr, label)
        texts = split_traces(tr)
        if len(verdicts) != len(texts):
            raise core.Broken("TraceAFMFormat %s: %d verdicts for %d texts" % (label, len(verdicts), len(texts)))
        n_lib += judge_format(ctx, verdicts, texts)
        ctx.traces += len(verdicts)
        ctx.evaluations += len(verdicts)
    if n_lib == 0:
        raise core.Broken("no text of the library's writer was validated")
    ctx.extra["library_texts_read_by_AFMFormat"] = n_lib

    # ---- (c) TV: closure under write/read cycles
    hist = os.path.join(d, "afm-hist.ndjson")
    texts_p = os.path.join(d, "afm-hist-texts.ndjson")
    args = ["-hist", hist, "-texts", texts_p, "-variants", 3 if q else 4, "-seed", ctx.seed]
    if os.path.isdir(FUZZ_SEEDS):
        args += ["-seeds", FUZZ_SEEDS]
    cy = ctx.vh_json("afm-cycle", *args, sim, timeout=1200)
    ctx.extra["cycle"] = cy
    if cy["histories"] < 100:
        raise core.Broken("only %d cycle histories were recorded" % cy["histories"])
    for ex in cy.get("own_output_rejected_examples") or []:
        ctx.violation("afm cycle: own output rejected", "afm.Read rejects what Metrics.Write wrote for metrics it had read",
                      stimulus=ex, expected="success", observed="error", how="vh afm-cycle")
    out = "verdict-cycle.ndjson"
    ctx.tlc("TraceAFMCycle", trace_cfg(os.path.basename(hist), out), workers=1, label="trace-afmcycle", timeout=2400)
    verdicts = core.read_vectors(os.path.join(d, out))
    if len(verdicts) != cy["histories"]:
        raise core.Broken("TraceAFMCycle: %d verdicts for %d histories" % (len(verdicts), cy["histories"]))
    ctx.traces += len(verdicts)
    ctx.evaluations += len(verdicts)
    ctx.nontrivial_extra += len(verdicts)
    info = {t["id"]: t for t in read_lines(texts_p)}
    # report the shortest input of every signature
    best = {}
    for v in verdicts:
        t = info[v["id"]]
        for cyc, classes in ((1, v["c1"]), (2, v["c2"])):
            for c in classes:
                if cyc == 1 and c in ("Version", "Notice") and not t["t1Has" + c]:
                    sig = SIG_A1
                    what = "a write/read cycle loses %s: Metrics.Write does not write the line" % c
                elif cyc == 1:
                    sig = "afm cycle 1: %s not preserved" % c
                    what = ("the first write/read cycle changes %s by more than the writer's rounding "
                            "(names and text must be preserved, numbers only rounded to integers, boxes outwards)" % c)
                else:
                    sig = "afm cycle 2: %s changed" % c
                    what = "the second write/read cycle changes %s (it must change nothing)" % c
                cur = best.get(sig)
                if cur is None or len(t["text"]) < len(cur[1]["text"]):
                    best[sig] = (what, t, cyc, (cur[3] + 1) if cur else 1)
                else:
                    best[sig] = (cur[0], cur[1], cur[2], cur[3] + 1)
    for sig, (what, t, cyc, n) in sorted(best.items()):
        ctx.violation(sig, what, stimulus="afm.Read of %r (%s), then Write/Read twice" % (t["text"], t["source"]),
                      expected="QuantAFM(m0, m1)" if cyc == 1 else "m2 = m1",
                      observed="after cycle 1: %r; after cycle 2: %r (%d histories with this signature)" % (t["t1"], t["t2"], n),
                      how="TraceAFMCycle", spec="AFMCycle!FirstCycle" if cyc == 1 else "AFMCycle!SecondCycleIdentity")
    ctx.sample("history input %r" % info[verdicts[len(verdicts) // 2]["id"]]["text"][:400])

    try:
        negative_controls(ctx, sim, tr_sim, hist)
    except core.Broken as ex:
        # a library that already violates the property on these very inputs cannot show the controls; the
        # violations stand.  Without violations a failed control means the check is broken (exit 2, never 0).
        if not ctx.violations:
            raise
        ctx.extra.setdefault("negative_controls", []).append({"not_demonstrable": str(ex)})


def negative_controls(ctx, sim, tr_sim, hist):
    d = ctx.specdir()
    nc = ctx.extra.setdefault("negative_controls", [])
    # MBT: one expected value changed per vector
    bad, want = [], []
    classes = ("width differs", "bbox differs", "FontName differs", "kerning differs", "ligatures differs", "code differs")
    for i, v in enumerate(core.read_vectors(sim)[:60]):
        e = copy.deepcopy(v["m"])
        k = i % 6
        if k == 5 and e["glyphs"][-1]["name"] == ".notdef":
            k = 0
        want.append(classes[k])
        if k == 0:
            e["glyphs"][0]["wx"] += 1
        elif k == 1:
            e["glyphs"][-1]["box"][2] -= 1
        elif k == 2:
            e["txt"]["FontName"] += "x"
        elif k == 3:
            e["kern"] = e["kern"][::-1] + [{"l": "A", "r": "A", "adj": 1}]
        elif k == 4:
            e["glyphs"][0]["lig"] = e["glyphs"][0]["lig"] + [{"s": "zz", "l": "zz"}]
        else:
            g = e["glyphs"][-1]
            g["code"] = 200 if g["code"] != 200 else 201
        v["expect"] = e
        bad.append(v)
    p = os.path.join(ctx.scratch, "afm-neg.ndjson")
    with open(p, "w") as f:
        for v in bad:
            f.write(json.dumps(v) + "\n")
    s = ctx.vh_json("afm-mbt", "-per-vector", p)
    # every corrupted expectation must be objected to by both bindings (write+read, layout+read), in its own class
    ok = 0
    for sigs, c in zip(s["per_vector"], want):
        if ("afm write+read: " + c) in sigs and ("afm read (independent layout): " + c) in sigs:
            ok += 1
    nc.append({"mbt_corrupted_vectors": len(bad), "rejected_by_both_bindings": ok, "classes": sorted(set(want))})
    if ok != len(bad) or len(set(want)) != len(classes):
        raise core.Broken("negative control: corrupted AFM expectations were accepted (%d of %d rejected)" % (ok, len(bad)))
    # TV (format): alter one event of a text of the library: a WX value, and drop a KPX line / a char line
    events = read_lines(tr_sim)
    out, done, cur_kind, nbegin = [], set(), None, 0
    for ev in events:
        if ev["ev"] == "begin":
            nbegin += 1
            if nbegin > 40:
                break
            cur_kind = ev["kind"]
            mode = nbegin % 4
            changed = False
        elif ev["ev"] == "line" and cur_kind == "lib" and not changed and ev["toks"]:
            if mode in (1, 3) and "WX" in ev["toks"]:
                i = ev["toks"].index("WX")
                ev = copy.deepcopy(ev)
                ev["num"][i + 1] += 1
                changed = True
                done.add(nbegin)
            elif mode in (2, 0) and ev["toks"][0] == "FontName":
                ev = copy.deepcopy(ev)
                ev["toks"][1] += "x"
                changed = True
                done.add(nbegin)
        out.append(ev)
    while out and out[-1]["ev"] != "end":
        out.pop()
    pb = os.path.join(d, "afm-trace-bad.ndjson")
    with open(pb, "w") as f:
        for ev in out:
            f.write(json.dumps(ev) + "\n")
    verdicts = format_tv(ctx, pb, "negctl", count=False)
    want = {1: "width", 3: "width", 2: "FontName", 0: "FontName"}
    # verdicts come in trace order, one per text: the n-th verdict belongs to the n-th begin event
    nb, ok = 0, 0
    for seq, v in enumerate(verdicts, start=1):
        if seq in done:
            nb += 1
            if want[seq % 4] in v["diff"]:
                ok += 1
    nc.append({"format_trace_corrupted_texts": nb, "rejected": ok})
    if nb == 0 or ok != nb:
        raise core.Broken("negative control: corrupted line events were accepted by AFMFormat (%d of %d rejected)" % (ok, nb))
    # TV (cycle): histories with a drifting second cycle and with a non-rounding first cycle
    hs = read_lines(hist)[:200]
    badh, kinds = [], []
    one = {"k": "fin", "d": {"n": {"s": 1, "m": [1]}, "e": 0}}
    threehalf = {"k": "fin", "d": {"n": {"s": 1, "m": [3]}, "e": -1}}
    three = {"k": "fin", "d": {"n": {"s": 1, "m": [3]}, "e": 0}}
    for i, h in enumerate(hs):
        h = copy.deepcopy(h)
        if i % 3 == 0:
            h["m2"]["num"]["CapHeight"] = one if h["m1"]["num"]["CapHeight"] != one else three
            kinds.append(("c2", "CapHeight"))
        elif i % 3 == 1:
            h["m0"]["num"]["XHeight"] = threehalf
            h["m1"]["num"]["XHeight"] = three          # 1.5 -> 3 is not a rounding
            h["m2"]["num"]["XHeight"] = three
            kinds.append(("c1", "XHeight"))
        else:
            if not h["m0"]["glyphs"]:
                continue
            h["m0"]["glyphs"][0]["box"][0] = threehalf  # lower left 1.5 must go to 1, not 3
            h["m1"]["glyphs"][0]["box"][0] = three
            h["m2"]["glyphs"][0]["box"][0] = three
            kinds.append(("c1", "bbox"))
        badh.append(h)
    pb = os.path.join(d, "afm-hist-bad.ndjson")
    with open(pb, "w") as f:
        for h in badh:
            f.write(json.dumps(h) + "\n")
    out = "verdict-cycle-bad.ndjson"
    ctx.tlc("TraceAFMCycle", trace_cfg(os.path.basename(pb), out), workers=1, label="trace-afmcycle-negctl", count=False)
    vs = core.read_vectors(os.path.join(d, out))
    ok = sum(1 for v, (f, c) in zip(vs, kinds) if c in v[f])
    nc.append({"cycle_corrupted_histories": len(badh), "rejected": ok})
    if len(vs) != len(badh) or ok != len(badh):
        raise core.Broken("negative control: corrupted cycle histories were accepted (%d of %d rejected)" % (ok, len(badh)))
