"""C20 - charstring numbers are exact for integers and drift-free for fractions."""
import json
import os

from checks import tvcommon
from engine import core


def run(ctx):
    ctx.rule = ("(a) every integer of a range (quick -7000..7000, thorough -70000..70000), all format boundaries and powers "
                "of two +-3 and seeded others, used as coordinate delta (out-and-back paths), boundary values also as advance "
                "width and hint value: Font.Write output is taken apart by the harness's independent decoder and each "
                "(value, bytes, value read back) is an event that TLC validates against T1Charstring!CanonicalNum / DecodeNum. "
                "(b) fractional deltas incl. k/q +- eps for all q <= 107: TLC checks the written p q div with exact "
                "arithmetic: q in 1..107 and |p/q - x| <= 1/214. (c) paths of up to 10^3 (10^4) segments: every point after "
                "write + independent decode and after type1.Read is within 1/214 of the original, incl. one staircase per command "
                "form and two paths of 6000 steps whose other coordinate creeps by 9e-7 per step; stem hints of glyphs whose "
                "outline starts away from the origin decode (relative to the declared side bearing point) to the font's values. (d) T1Drift.tla: TLC "
                "verifies the no-accumulation argument for unbounded path length on a scaled model and finds the drift of the "
                "faulty design.")
    ctx.assumptions = ["(c) is judged by the harness in float64 (the exact-rational machine would need unbounded denominators); "
                       "the design argument for it is T1Drift.tla"]
    d = ctx.specdir()
    # (d) design argument
    for drifting, expect_ok in (("FALSE", True), ("TRUE", False)):
        cfg = ("CONSTANTS\n  L = 60\n  QMax = 5\n  Range = %d\n  Drifting = %s\nINIT Init\nNEXT Next\nINVARIANT NoDrift\n"
               "CHECK_DEADLOCK FALSE\n" % (90 if ctx.tier == "quick" else 150, drifting))
        r = ctx.tlc("T1Drift", cfg, label="t1drift-" + drifting.lower(), must_pass=False, count=expect_ok, workers=8)
        if r.ok != expect_ok:
            raise core.Broken("T1Drift (Drifting=%s): expected %s, TLC says %s" % (drifting, expect_ok, r.violated or r.error or "ok"))
    ctx.extra["negative_controls"] = [{"faulty_encoder_design_rejected_by_TLC": True}]
    # (a) (b) (c)
    tr = "t1nums.ndjson"
    r = ctx.vh_json("trace-t1nums", os.path.join(d, tr), ctx.tier, ctx.seed, timeout=2400)
    for f in r.get("failures") or []:
        ctx.violation(f["Sig"], f["What"], stimulus=f["Stim"], how="vh trace-t1nums")
    lines = open(os.path.join(d, tr)).read().splitlines()
    ctx.traces += len(lines)
    ctx.evaluations += len(lines) + r["path_points"]
    ctx.nontrivial_extra += len(lines)
    ctx.extra.update({"integers": r["integers"], "fractions": r["fractions"], "path_points": r["path_points"],
                      "max_deviation_on_paths": r["max_deviation"], "bound": r["bound"],
                      "forms_written_on_paths": r.get("forms_written")})
    # vacuity guard, computed from the requested geometry (not from what the library wrote): every class of
    # coincidences that the writer's choice of hlineto / vlineto / hvcurveto / vhcurveto depends on occurs often
    shapes = r.get("shapes") or {}
    ctx.extra["segment_shapes_on_paths"] = shapes
    for cls in ("L:h", "L:v", "L:r", "C:1010", "C:0101", "C:1001", "C:0110", "C:0000"):
        if shapes.get(cls, 0) < 10:
            raise core.Broken("vacuity: the long paths contain fewer than 10 segments of class %s: %s" % (cls, shapes))
    ctx.sample(r["axes"][0])
    ctx.sample(json.loads(lines[0]))
    ctx.sample(json.loads(lines[-1]))
    res, rejected = tvcommon.validate(ctx, d, tr, "TraceT1Num", "Holds", "trace-t1nums")
    if not res.ok:
        raise core.Broken("TraceT1Num did not consume the trace: %s\n%s" % (res.violated or res.error, res.out[-1500:]))
    for idx in rejected[:200]:
        ev = json.loads(lines[idx - 1])
        if ev["ev"] == "num":
            w = ev["want"]
            cls = "small" if abs(w) <= 107 else "two-byte" if abs(w) <= 1131 else "five-byte"
            ctx.violation("c20 integer %s as %s: bytes or read-back value wrong" % (cls, ev.get("ctx")),
                          "an integer is not written in its proper format or does not come back", stimulus=json.dumps(ev), spec="TraceT1Num!NumOK")
        else:
            ctx.violation("c20 fraction: p/q farther than 1/214 or q outside 1..107", "a fractional delta is approximated too coarsely",
                          stimulus=json.dumps(ev), spec="TraceT1Num!FracOK")
    # negative control on the trace
    ev = json.loads(lines[0])
    ev["bytes"] = [255, 0, 0, 0, 1]
    ev2 = json.loads(next(l for l in lines if '"frac"' in l))
    ev2["p"] += 3
    with open(os.path.join(d, "negnums.ndjson"), "w") as f:
        f.write(json.dumps(ev) + "\n" + json.dumps(ev2) + "\n")
    rn, rej = tvcommon.validate(ctx, d, "negnums.ndjson", "TraceT1Num", "Holds", "trace-t1nums-negctl")
    ctx.extra["negative_controls"].append({"corrupted_events": 2, "rejected": len(rej)})
    if len(rej) != 2:
        raise core.Broken("negative control: corrupted number events were accepted")
    ctx.exhaustive = True
