"""C12 - results do not depend on how the input stream is delivered."""
import json
import os

from checks import pscommon
from engine import core


def run(ctx):
    ctx.rule = ("ScanBuf.tla models the scanner's refill / peek layer over an io.Reader that may deliver any short read and "
                "EOF with or after the last bytes; TLC explores every interleaving of consumer calls and delivery schedules "
                "on short inputs and checks NothingLost / ErrSticky / EofOnlyAtEnd (and finds the violation of a faulty "
                "variant). The same module enumerates cyclic chunk-size schedules; the harness runs every corpus input "
                "(programs padded around the 512-byte boundary, CMaps, AFM, fonts in every container from the library's and "
                "from the independent writer, a PFB stream) through Execute / ReadCMap / type1.Read / afm.Read / pfb.Decode "
                "under every two-chunk split, one-byte reads and every enumerated schedule x {EOF with data, EOF alone} x "
                "{seekable, not}, and compares with the all-at-once result. Multi-call: MC_PSProg family calls splits "
                "programs into 2-3 Execute calls at every token boundary (also inside an open procedure body); TLC checks "
                "SplitTransparent against the unsplit twin and the behaviours are replayed.")
    ctx.assumptions = ["readers that return (0, nil) before the end are outside the quantifier (zero-progress-free short reads)",
                       "programs containing stop are not split: stop ends one call, not the whole feed"]
    d = ctx.specdir()
    q = ctx.tier == "quick"
    base = ("CONSTANTS\n  InLen = %d\n  BufSize = 4\n  MaxPeek = 3\n  Family = \"%s\"\n  OutFile = \"sched.ndjson\"\n  Faulty = %s\n"
            "INIT Init\nNEXT Next\n%sCHECK_DEADLOCK FALSE\n")
    invs = "INVARIANT NothingLost\nINVARIANT ErrSticky\nINVARIANT Bounds\nINVARIANT EofOnlyAtEnd\n"
    ctx.tlc("ScanBuf", base % (7 if q else 9, "buf", "FALSE", invs), label="scanbuf", workers=8)
    r = ctx.tlc("ScanBuf", base % (6, "buf", "TRUE", invs), label="scanbuf-faulty", workers=8, must_pass=False, count=False)
    if r.ok:
        raise core.Broken("non-vacuity: the faulty refill variant satisfies every invariant")
    ctx.extra["negative_controls"] = [{"faulty_refill_variant_rejected_by_TLC": True}]
    ctx.tlc("ScanBuf", base % (1, "sched", "FALSE", "INVARIANT EmitSched\n"), label="schedules", workers=1)
    summ = ctx.vh_json("sched", os.path.join(d, "sched.ndjson"), ctx.seed, ctx.tier, timeout=2400)
    pscommon.absorb(ctx, summ, "vh sched", "ScanBuf (schedules) / all-at-once baseline")
    ctx.extra["delivery_runs"] = summ["vectors"]
    ctx.extra["per_entry_family"] = summ["per_op"]
    # multi-call splits
    consts = {"Tier": '"quick"', "StepBound": "200", "MaxBudget": "1", "FeedLen": "1", "Family": '"calls"'}
    s2, vec, bfile = pscommon.run_mbt(ctx, "MC_PSProg", consts, "pscalls", base_heap="FreshHeap",
                                      invariants=("Emit", "Inv", "SplitTransparent"))
    pscommon.absorb(ctx, s2, "vh replay-ps (MC_PSProg calls)", "PSMachine!ScanTok eoc / SplitTransparent")
    pscommon.negative_control(ctx, vec, bfile, n=100)
    ctx.extra["split_programs"] = s2["vectors"]
    # the same with an operation budget set (MaxOps is the caller's, as the readers of the library set it):
    # the calls share one budget, exactly as one call would use it (family budgetcalls, BudgetSpansCalls)
    cb = dict(consts, Family='"budgetcalls"', MaxBudget="8")
    s3, _, _ = pscommon.run_mbt(ctx, "MC_PSProg", cb, "pscallsbudget", base_heap="FreshHeap",
                                invariants=("Emit", "Inv", "BudgetSpansCalls"), replay_args=("-count",))
    pscommon.absorb(ctx, s3, "vh replay-ps (MC_PSProg budgetcalls)", "PSMachine!Count across EndCall / BudgetSpansCalls")
    ctx.extra["split_programs_under_a_budget"] = s3["vectors"]
