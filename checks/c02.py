"""C02 - data operators compute what the PostScript reference prescribes."""
from checks import pscommon
from engine import core


def run(ctx):
    ctx.rule = ("TLC enumerates (MC_PSOps) every data operator x every operand tuple from a typed pool "
                "(boundary integers, reals, aliased views, big containers, dictionaries, names, mark, ...) and "
                "every shorter stack; the terminal state of PSMachine is the expected outcome; each vector is "
                "replayed into a fresh postscript.Interpreter and the final stacks, dictionaries and reachable "
                "heap graph (up to cell renaming, including aliasing) or the error name are compared. "
                "distinct = distinct (operator, operand tuple) stimuli.")
    ctx.assumptions = [
        "PSOps.tla transcribes the PLRM; named deviations of the library are accepted as documented in DESIGN.md Appendix A",
        "error names are compared as sets when the reference leaves the choice open or several preconditions are violated",
        "harness: psbind (materialisation and graph comparison), model/BigInt cross-checked against math/big by setup",
    ]
    summ, vec, base = pscommon.run_mbt(ctx, "MC_PSOps", {"Tier": '"%s"' % ctx.tier, "OpSet": '"data"'}, "psops")
    ctx.exhaustive = True
    missing = [op for op, n in summ["per_op"].items() if summ["per_op_ok"].get(op, 0) == 0]
    if missing:
        raise core.Broken("vacuity: operators without a single successful vector: %s" % missing)
    ctx.extra["operators"] = len(summ["per_op"])
    ctx.extra["expect_ok"] = summ["expect_ok"]
    ctx.extra["expect_error"] = summ["expect_error"]
    pscommon.absorb(ctx, summ, "vh replay-ps (MC_PSOps, tier %s)" % ctx.tier, "PSOps!DataOp")
    pscommon.negative_control(ctx, vec, base)
    # dictionary literals with repeated keys (pairs are entered in order)
    cd = {"Tier": '"quick"', "StepBound": "400", "MaxBudget": "1", "FeedLen": "1", "Family": '"dictlit"'}
    s3, _, _ = pscommon.run_mbt(ctx, "MC_PSProg", cd, "psdictlit", base_heap="FreshHeap", invariants=("Emit", "Inv"))
    pscommon.absorb(ctx, s3, "vh replay-ps (MC_PSProg dictlit)", "PSOps!DataOp >> (pairs in stack order)")
    ctx.extra["dictionary_literals"] = s3["vectors"]
    # creating operators create: make, change, make again (nothing is handed out twice)
    cf = dict(cd, Family='"fresh"')
    s4, _, _ = pscommon.run_mbt(ctx, "MC_PSProg", cf, "psfresh", base_heap="FreshHeap", invariants=("Emit", "Inv"))
    pscommon.absorb(ctx, s4, "vh replay-ps (MC_PSProg fresh)", "PSOps!DataOp: matrix / array / string / dict / ] / >> allocate")
    ctx.extra["fresh_object_programs"] = s4["vectors"]
    # longer programs: seeded random walks in which the environment feeds tokens that the
    # specification says are in the operators' domains (MC_PSProg family feed)
    n = 1500 if ctx.tier == "quick" else 20000  # measured: 25 programs per second, one worker
    consts = {"Tier": '"quick"', "StepBound": "400", "MaxBudget": "1", "FeedLen": "24", "Family": '"feed"'}
    s2, _, _ = pscommon.run_mbt(ctx, "MC_PSProg", consts, "psfeed", base_heap="FreshHeap", invariants=("Emit", "Inv"),
                                simulate=n, depth=200, workers=1, timeout=3000)
    pscommon.absorb(ctx, s2, "vh replay-ps (MC_PSProg feed, simulation seed %d)" % ctx.seed, "PSMachine!Step on fed programs")
    ctx.extra["fed_programs"] = s2["vectors"]
    ctx.extra["fed_programs_ending_ok"] = s2["expect_ok"]
