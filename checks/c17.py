"""C17 - output and results are deterministic."""
import json
import os

from checks import tvcommon
from engine import core


def run(ctx):
    ctx.rule = ("Fonts (3 / 40 / 300 glyphs, all encodings), metrics (up to 200 glyphs, four ligatures on every third glyph) "
                "and input files (the corpus plus a file defining five CMaps) are written / read R times in each of P "
                "separate processes (fresh map hash seeds); every observation (call, input, process, repetition, digest) is an "
                "event; metrics files are read and written repeatedly (one with NaN glyph boxes, which the reader accepts); three fonts (one of them uses the package's StandardEncoding table itself as its encoding) are written before "
                "and after each other and the table is digested before and after; TLC validates that every digest equals the first digest of its (call, input) group "
                "(Determinism!Consistent via TraceDeterminism). Determinism.tla also contains the emitter model: TLC shows "
                "that a sorting emission loop has one output and a non-sorting one several. distinct = (call, input) groups.")
    ctx.assumptions = ["with k unordered entries a non-sorting loop escapes R repetitions with probability (1/k!)^(R-1)"]
    d = ctx.specdir()
    q = ctx.tier == "quick"
    # emitter model: sorted -> unique output; unsorted -> TLC finds another order
    for srt, expect in (("TRUE", True), ("FALSE", False)):
        cfg = ("CONSTANTS\n  Keys = {1, 2, 3, 4}\n  Sorted = %s\nINIT Init\nNEXT Next\nINVARIANT OneOutput\nCHECK_DEADLOCK FALSE\n" % srt)
        r = ctx.tlc("Determinism", cfg, label="emitter-sorted-" + srt.lower(), must_pass=False, workers=2, count=expect)
        if r.ok != expect:
            raise core.Broken("emitter model (Sorted=%s): expected %s" % (srt, expect))
    ctx.extra["negative_controls"] = [{"unsorted_emitter_rejected_by_TLC": True}]
    r = tvcommon.run_tv(ctx, "determ", [6 if q else 60, 12 if q else 30, 3, ctx.seed], "TraceDeterminism", "Holds", "obs",
                        sigfn=lambda ev: "c17 nondeterministic %s" % ev["call"],
                        what="the same call on the same input produced different output", neg=False)
    ctx.extra["groups"] = r["groups"]
    ctx.nontrivial_extra = r["groups"]
    # negative control
    lines = open(os.path.join(d, "tv-determ.ndjson")).read().splitlines()
    ev = json.loads(lines[3])
    ev["digest"] = "0000"
    with open(os.path.join(d, "negdet.ndjson"), "w") as f:
        f.write(json.dumps(ev) + "\n")
    rn, rej = tvcommon.validate(ctx, d, "negdet.ndjson", "TraceDeterminism", "Holds", "trace-determ-negctl")
    ctx.extra["negative_controls"].append({"corrupted_digest_rejected": bool(rej)})
    if not rej:
        raise core.Broken("negative control: a differing digest was accepted")
