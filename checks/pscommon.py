"""Shared plumbing of the PostScript-machine bindings (C01 C02 C03 C05 C07 C11)."""
import json
import os

from engine import core

DEFAULT_LIMITS = {"execdepth": 100, "opstack": 500, "dictstack": 20, "maxarray": 65536, "maxstring": 65536, "maxdict": 65536}


def ps_consts(ctx, floors=None):
    """The resource limits of the interpreter under test, as CONSTANTS of the PS specifications.
    `floors`: values a property itself demands at least (C07: blocks of 100 range entries, three operands each).

    The properties demand that limits exist (C11), not their values: they are measured (vh probe-limits).
    A limit that cannot be found is C11's finding; every other check then uses the default value."""
    lim = getattr(ctx, "_limits", None)
    if lim is None:
        lim = ctx.vh_json("probe-limits", timeout=600)
        ctx._limits = lim
        ctx.extra["measured_limits"] = dict(lim)
    v = {k: (lim.get(k) or DEFAULT_LIMITS[k]) for k in DEFAULT_LIMITS}
    for k, f in (floors or {}).items():
        v[k] = max(v[k], f)
    # the containers of the operand pools (65536 elements) must stay legal for the pools to mean what they say
    return ("  MaxExecDepth = %(execdepth)d\n  MaxOpStack = %(opstack)d\n  MaxDictStack = %(dictstack)d\n"
            "  ImplLimitArr = %(maxarray)d\n  ImplLimitStr = %(maxstring)d\n  ImplLimitDict = %(maxdict)d\n" % v)


def missing_limits(ctx):
    ps_consts(ctx)
    return [k for k in DEFAULT_LIMITS if not ctx._limits.get(k)]


def run_mbt(ctx, module, consts, label, base_heap="Heap0", invariants=("Emit", "Inv"),
            simulate=None, depth=None, timeout=1500, outfile=None, workers=None, extra_cfg="",
            properties=(), replay_args=()):
    """Run a generating configuration and replay its vectors into the library.
    Returns the harness summary."""
    outfile = outfile or (label + ".ndjson")
    basefile = label + ".base.json"
    cfg = "CONSTANTS\n" + ps_consts(ctx)
    cfg += '  OutFile = "%s"\n  BaseFile = "%s"\n' % (outfile, basefile)
    cfg += "  BaseHeap <- %s\n" % base_heap
    for k, v in consts.items():
        cfg += "  %s = %s\n" % (k, v)
    cfg += "INIT Init\nNEXT Next\n"
    for inv in invariants:
        cfg += "INVARIANT %s\n" % inv
    for pr in properties:
        cfg += "PROPERTY %s\n" % pr
    cfg += "CHECK_DEADLOCK FALSE\n" + extra_cfg
    d = ctx.specdir()
    for f in (outfile, basefile):
        if os.path.exists(os.path.join(d, f)):
            os.remove(os.path.join(d, f))
    # a big Java stack: recursive operators of the specification walk 65536-element containers
    ctx.tlc(module, cfg, simulate=simulate, depth=depth, timeout=timeout, label=label,
            workers=workers, xss="512m")
    vec = os.path.join(d, outfile)
    if not os.path.exists(vec) or os.path.getsize(vec) == 0:
        raise core.Broken("%s: the specification emitted no vectors" % label)
    summ = ctx.vh_json("replay-ps", *replay_args, "-base", os.path.join(d, basefile), vec, timeout=3000)
    return summ, vec, os.path.join(d, basefile)


def absorb(ctx, summ, how, spec):
    """Account a replay summary: counts, samples, violations."""
    ctx.evaluations += summ["vectors"]
    ctx.traces += summ["vectors"]
    ctx.nontrivial_extra += summ["distinct"]
    for s in (summ.get("samples") or []):
        ctx.sample(s)
    # disagreements that did not reproduce when re-run alone are not counted; if nothing but such
    # disagreements was seen, the run has no verdict (reproduced ones stand on their own)
    if summ.get("unreproduced", 0) > 0 and not (summ.get("by_sig") or {}):
        raise core.Broken("%d disagreements did not reproduce when re-run alone" % summ["unreproduced"])
    if summ.get("unreproduced", 0) > 0:
        ctx.notes.append("%d further disagreements did not reproduce when re-run alone" % summ["unreproduced"])
    shown = {}
    for dg in (summ.get("disagreements") or []):
        shown.setdefault(dg["sig"], dg)
    for sig, n in (summ.get("by_sig") or {}).items():
        dg = shown.get(sig)
        for _ in range(1):
            ctx.violation(sig, dg["what"] if dg else "disagreement with the specification",
                          stimulus=dg["stimulus"] if dg else None,
                          expected=dg["expected"] if dg else None,
                          observed=dg["observed"] if dg else None,
                          how=how, spec=spec)


def negative_control(ctx, vec, base, n=400):
    """Corrupt the expected outcome of recorded vectors: the replayer must object."""
    good = []
    with open(vec) as f:
        for line in f:
            v = json.loads(line)
            if isinstance(v, str):
                v = json.loads(v)
            good.append(v)
            if len(good) >= n:
                break
    bad = []
    for v in good:
        w = json.loads(json.dumps(v))
        if w["status"] == "done":
            # expected success with a spurious extra operand left on the stack
            w["ost"] = w["ost"] + [{"t": "int", "i": {"s": 1, "m": [7]}}]
        else:
            w["errs"] = ["?no-such-error"]
        bad.append(w)
    p = os.path.join(ctx.scratch, "negctl.ndjson")
    with open(p, "w") as f:
        for w in bad:
            f.write(json.dumps(w) + "\n")
    summ = ctx.vh_json("replay-ps", "-base", base, p)
    ctx.extra.setdefault("negative_controls", []).append(
        {"corrupted_vectors": len(bad), "rejected": summ["n_disagree"]})
    if summ["n_disagree"] != len(bad):
        raise core.Broken("negative control: %d of %d corrupted vectors were accepted"
                          % (len(bad) - summ["n_disagree"], len(bad)))


def crash_control(ctx, vec, base, n=50):
    """Negative control of the crash-only replay: vectors whose program is replaced by a
    deliberate panic inside the replay scope must all be reported."""
    bad = []
    with open(vec) as f:
        for line in f:
            v = json.loads(line)
            if isinstance(v, str):
                v = json.loads(v)
            v["op"], v["prog"] = ".verif-selftest-panic", []
            bad.append(v)
            if len(bad) >= n:
                break
    p = os.path.join(ctx.scratch, "crashctl.ndjson")
    with open(p, "w") as f:
        for w in bad:
            f.write(json.dumps(w) + "\n")
    summ = ctx.vh_json("replay-ps", "-crash-only", "-base", base, p)
    ctx.extra.setdefault("negative_controls", []).append(
        {"deliberate_panics": len(bad), "reported": summ["n_disagree"]})
    if summ["n_disagree"] != len(bad):
        raise core.Broken("crash control: %d of %d deliberate panics went unreported"
                          % (len(bad) - summ["n_disagree"], len(bad)))
