"""C19 - font and metrics query methods agree with their definitions."""
import copy
import json
import os

from checks import pscommon
from engine import core


def gen(ctx, family, maxenc, maxcmds, simulate=None):
    d = ctx.specdir()
    out = "fq-%s-%d-%d.ndjson" % (family, maxenc, maxcmds)
    if os.path.exists(os.path.join(d, out)):
        os.remove(os.path.join(d, out))
    cfg = ('CONSTANTS\n  Family = "%s"\n  OutFile = "%s"\n  MaxEnc = %d\n  MaxCmds = %d\nINIT Init\nNEXT Next\n'
           'INVARIANT Emit\nINVARIANT Inv\nCHECK_DEADLOCK FALSE\n' % (family, out, maxenc, maxcmds))
    ctx.tlc("MC_FontQuery", cfg, label="fontquery-%s-%d-%d" % (family, maxenc, maxcmds), simulate=simulate, depth=8 if simulate else None,
            workers=1 if simulate else None, timeout=1500)
    p = os.path.join(d, out)
    if not os.path.exists(p) or os.path.getsize(p) == 0:
        raise core.Broken("MC_FontQuery %s emitted no vectors" % family)
    return p


def run(ctx):
    q = ctx.tier == "quick"
    ctx.rule = ("FontQuery.tla defines GlyphList (as a relation), NumGlyphs, GlyphBox, FontBox (raw and through the font matrix "
                "times 1000, exact in half units), WidthPDF. MC_FontQuery enumerates: list = every glyph set over 5 names x every "
                "encoding up to MaxEnc over the names, .notdef and a non-glyph name (absent, partial, missing glyphs, non-injective); "
                "box = every command list up to 2 commands over a 3x3 grid (curves with control points outside) x 64 matrices (thorough: up to 3 commands x 8 matrices); "
                "biglist = seeded random glyph sets of up to 20 names with encodings of up to 6 entries; fbox = 3 glyphs x 7 archetypes each (empty, closepath only, point at origin, ...) x 64 matrices x with/without "
                ".notdef; sim = seeded random fonts. Each font is built as *type1.Font and *afm.Metrics (encoding as given and "
                "spread over 256 codes) and every query method is called for every pool name and a name that is no glyph; "
                "results within 1e-9 relative. distinct = distinct fonts.")
    ctx.assumptions = ["'non-empty glyph box' in the font box is read on the box value: the zero rectangle is skipped (so the box "
                       "of a glyph whose only points lie at the origin is skipped as well)",
                       "'alphabetically' = bytewise order of names (the biglist pool has upper- and lower-case names)",
                       "metrics boxes are proper (ll <= ur); axis-aligned matrices only"]
    fams = [gen(ctx, "list", 3 if q else 4, 0),
            gen(ctx, "box", 0, 2),
            gen(ctx, "fbox", 0, 0),
            gen(ctx, "sim", 4, 3, simulate=4000 if q else 150000),
            gen(ctx, "biglist", 6, 0, simulate=1500 if q else 8000)]
    if not q:
        fams.append(gen(ctx, "box", 0, 3))
    summ = ctx.vh_json("fontquery", *fams, timeout=2400)
    pscommon.absorb(ctx, summ, "vh fontquery (MC_FontQuery list box fbox sim)", "FontQuery")
    ctx.extra["fonts"] = summ["vectors"]
    ctx.extra["by_sig"] = summ["by_sig"]
    ctx.exhaustive = False

    # negative control: one prescribed answer changed per vector
    vecs = []
    for p in fams[:3]:
        vs = head(p, 4000)
        vecs += [v for v in vs if v["font"]["glyphs"]][-40:]
    bad, want = [], []
    kinds = ["type1 NumGlyphs", "type1 GlyphList: not an admissible list", "type1 Glyph.BBox", "type1 GlyphBBoxPDF",
             "type1 FontBBox", "type1 FontBBoxPDF", "type1 GlyphWidthPDF", "type1 WidthsMapPDF",
             "afm NumGlyphs", "afm FontBBoxPDF", "afm GlyphWidthPDF", "afm GlyphList"]
    for i, v in enumerate(vecs):
        v = copy.deepcopy(v)
        k = kinds[i % len(kinds)]
        g = v["font"]["glyphs"][0]["name"]
        if k.endswith("NumGlyphs"):
            v["num"] += 1                   # both NumGlyphs answers are prescribed by the one field
            k = "type1 NumGlyphs"
        elif "GlyphList" in k:
            v["lists"] = [l[:1] + ["zz"] + l[1:] for l in v["lists"]]
            k = "type1 GlyphList: not an admissible list"
        elif k == "type1 Glyph.BBox":
            v["q"][g]["box"][3] += 1
            k = "type1 Glyph.BBox"
        elif k == "type1 GlyphBBoxPDF":
            v["q"][g]["boxpdf"][0] -= 1
        elif k == "type1 FontBBox":
            v["fbox"][2] += 1
        elif k == "type1 FontBBoxPDF":
            v["fboxpdf"][1] -= 1
        elif k == "type1 GlyphWidthPDF":
            v["q"]["zz"]["w"] += 1
        elif k == "type1 WidthsMapPDF":
            v["wkeys"] = v["wkeys"] + ["zz"]
        elif k == "afm FontBBoxPDF":
            v["afmfbox"][0] -= 1
        elif k == "afm GlyphWidthPDF":
            v["q"]["zz"]["afmw"] += 1
        bad.append(v)
        want.append(k)
    p = os.path.join(ctx.scratch, "fq-neg.ndjson")
    with open(p, "w") as f:
        for v in bad:
            f.write(json.dumps(v) + "\n")
    s = ctx.vh_json("fontquery", "-per-vector", p)
    ok = sum(1 for sigs, k in zip(s["per_vector"], want) if k in sigs)
    ctx.extra["negative_controls"] = [{"corrupted_vectors": len(bad), "rejected": ok, "classes": sorted(set(want))}]
    if not bad or ok != len(bad):
        missed = [k for sigs, k in zip(s["per_vector"], want) if k not in sigs]
        # a library that already disagrees on these very fonts cannot show the control; its violations stand
        if not ctx.violations:
            raise core.Broken("negative control: corrupted answers were accepted (%d of %d rejected; missed %s)"
                              % (ok, len(bad), missed[:5]))
        ctx.extra["negative_controls"].append({"not_demonstrable": missed[:5]})


def head(path, n):
    out = []
    with open(path) as f:
        for line in f:
            line = line.strip()
            if not line:
                continue
            v = json.loads(line)
            if isinstance(v, str):
                v = json.loads(v)
            out.append(v)
            if len(out) >= n:
                break
    return out
