------------------------------ MODULE AFMCycle ------------------------------
(***************************************************************************)
(* The relations of property C15 between the metrics values of a history   *)
(*    text --Read--> m0 --Write;Read--> m1 --Write;Read--> m2              *)
(*                                                                         *)
(*   EquivAFM   equality of metrics: header fields, per glyph width, box,  *)
(*              ligature map and code, kerning pairs in order              *)
(*   QuantAFM   what one write/read cycle may do to a value the reader     *)
(*              accepted: names and text fields are preserved, a number is *)
(*              either unchanged or rounded to an integer by the writer's  *)
(*              rounding (nearest integer, either neighbour on a tie;      *)
(*              bounding boxes outwards: lower left floor, upper right     *)
(*              ceiling)                                                   *)
(*   SecondCycleIdentity   the second cycle changes nothing                *)
(*                                                                         *)
(* Numbers here are what a float64 can hold, exactly:                      *)
(*   [k |-> "fin", d |-> dyadic n*2^e in canonical form]  or  k \in        *)
(*   {"nan", "pinf", "ninf"} (d = DZero).  Negative zero is the number     *)
(*   zero.  NaN equals NaN (the comparison is on values, not IEEE ==).     *)
(* Metrics values arrive in a canonical layout: glyphs sorted by name,     *)
(* ligatures sorted by successor, so that equality of sequences is         *)
(* equality of maps; enc lists the encoding vector (codes whose name is    *)
(* not .notdef, ascending), code the first code of each glyph or -1.       *)
(***************************************************************************)
EXTENDS Dyadic, Sequences, FiniteSets

AcTextKeys == {"FontName", "FullName", "Version", "Notice"}
AcNumKeys  == {"CapHeight", "XHeight", "Ascender", "Descender", "UnderlinePosition",
               "UnderlineThickness", "ItalicAngle"}

AcFin(x) == x.k = "fin"
AcHalf == [n |-> One, e |-> -1]
AcOne  == [n |-> One, e |-> 0]
AcTwo63 == [n |-> TwoPow(63), e |-> 0]
AcDiffD(x, y) == DAddX(x.d, DNeg(y.d))          \* x - y, exact

AcIsInt(x) == AcFin(x) /\ DIsInt(x.d)
\* y is x rounded to a nearest integer
AcIsRound(x, y) == AcFin(x) /\ AcIsInt(y) /\ DCmp(DAbs(AcDiffD(x, y)), AcHalf) <= 0
AcIsFloor(x, y) == AcFin(x) /\ AcIsInt(y) /\ DCmp(y.d, x.d) <= 0 /\ DCmp(AcDiffD(x, y), AcOne) < 0
AcIsCeil(x, y)  == AcFin(x) /\ AcIsInt(y) /\ DCmp(y.d, x.d) >= 0 /\ DCmp(AcDiffD(y, x), AcOne) < 0
\* outside what an int64 holds: the writer's integer conversion has no value to give
AcBig(x) == ~AcFin(x) \/ DCmp(DAbs(x.d), AcTwo63) >= 0

AcNumQ(x, y) == x = y \/ AcIsRound(x, y)
AcLLQ(x, y)  == x = y \/ AcIsFloor(x, y)
AcURQ(x, y)  == x = y \/ AcIsCeil(x, y)

AcNames(m) == [i \in 1..Len(m.glyphs) |-> m.glyphs[i].name]

(***************************************************************************)
(* The classes of fields in which b is NOT a permitted successor of a.     *)
(* strict = TRUE: nothing may change (EquivAFM); FALSE: QuantAFM.          *)
(***************************************************************************)
AcDiff(a, b, strict) ==
  LET NQ(x, y) == IF strict THEN x = y ELSE AcNumQ(x, y)
      LQ(x, y) == IF strict THEN x = y ELSE AcLLQ(x, y)
      UQ(x, y) == IF strict THEN x = y ELSE AcURQ(x, y)
      same == AcNames(a) = AcNames(b)
      idx == IF same THEN 1..Len(a.glyphs) ELSE {}
      BoxOK(i, j) == IF j <= 2 THEN LQ(a.glyphs[i].box[j], b.glyphs[i].box[j])
                                ELSE UQ(a.glyphs[i].box[j], b.glyphs[i].box[j])
      badBox == {<<i, j>> \in idx \X (1..4) : ~BoxOK(i, j)}
  IN {k \in AcTextKeys : a.txt[k] # b.txt[k]}
     \cup {k \in AcNumKeys : ~NQ(a.num[k], b.num[k])}
     \cup (IF a.fixed # b.fixed THEN {"IsFixedPitch"} ELSE {})
     \cup (IF ~same THEN {"glyph set"} ELSE {})
     \cup (IF a.enc # b.enc \/ \E i \in idx : a.glyphs[i].code # b.glyphs[i].code THEN {"code"} ELSE {})
     \cup (IF \E i \in idx : ~NQ(a.glyphs[i].wx, b.glyphs[i].wx) THEN {"width"} ELSE {})
     \cup (IF \E p \in badBox : ~AcBig(a.glyphs[p[1]].box[p[2]]) THEN {"bbox"} ELSE {})
     \cup (IF \E p \in badBox : AcBig(a.glyphs[p[1]].box[p[2]]) THEN {"bbox beyond int64"} ELSE {})
     \cup (IF \E i \in idx : a.glyphs[i].lig # b.glyphs[i].lig THEN {"ligatures"} ELSE {})
     \cup (IF a.kern # b.kern THEN {"kerning"} ELSE {})

EquivAFM(a, b) == AcDiff(a, b, TRUE) = {}
QuantAFM(a, b) == AcDiff(a, b, FALSE) = {}
\* a history <<m0, m1, m2>>
FirstCycle(h) == QuantAFM(h[1], h[2])
SecondCycleIdentity(h) == EquivAFM(h[2], h[3])

(***************************************************************************)
(* Design-level sanity of the relations on a grid of quarters: every       *)
(* number has a rounding, both neighbours of a tie are roundings, nothing  *)
(* else is, and a rounded number admits no further change (so a second     *)
(* cycle of a correct writer is the identity).                             *)
(***************************************************************************)
AcQ(q) == [k |-> "fin", d |-> DNorm([n |-> BI(q), e |-> -2])]      \* q/4
AcGrid == {AcQ(q) : q \in -10..10}
AcInts == {AcQ(4 * q) : q \in -3..3}
AcLemma ==
  /\ \A x \in AcGrid : \E y \in AcInts : AcIsRound(x, y) /\ (\E f \in AcInts : AcIsFloor(x, f)) /\ (\E c \in AcInts : AcIsCeil(x, c))
  /\ AcIsRound(AcQ(2), AcQ(0)) /\ AcIsRound(AcQ(2), AcQ(4)) /\ ~AcIsRound(AcQ(3), AcQ(0)) /\ ~AcIsRound(AcQ(5), AcQ(8))
  /\ AcIsRound(AcQ(-6), AcQ(-8)) /\ AcIsRound(AcQ(-6), AcQ(-4)) /\ ~AcIsRound(AcQ(-5), AcQ(-8))
  /\ AcIsFloor(AcQ(-1), AcQ(-4)) /\ ~AcIsFloor(AcQ(-1), AcQ(0)) /\ AcIsCeil(AcQ(-1), AcQ(0)) /\ AcIsCeil(AcQ(1), AcQ(4))
  /\ \A y \in AcInts, z \in AcGrid : (AcNumQ(y, z) \/ AcLLQ(y, z) \/ AcURQ(y, z)) => z = y
  /\ \A x \in AcGrid, y \in AcGrid : AcNumQ(x, y) => (y = x \/ AcIsInt(y))
  /\ AcNumQ([k |-> "nan", d |-> DZero], [k |-> "nan", d |-> DZero])
  /\ ~AcNumQ([k |-> "nan", d |-> DZero], AcQ(0)) /\ ~AcLLQ([k |-> "pinf", d |-> DZero], AcQ(0))
  /\ AcBig([k |-> "fin", d |-> [n |-> One, e |-> 63]]) /\ ~AcBig([k |-> "fin", d |-> [n |-> BI(32767), e |-> 48]])
=============================================================================
