------------------------------- MODULE MC_AFM -------------------------------
(***************************************************************************)
(* Generating configurations for C15.  A vector is [m, lay]:               *)
(*   m    a metrics value of AFMFormat inside the property's domain        *)
(*        (single-token names, injective encoding, integral numbers in     *)
(*        range, 0-3 ligatures per glyph, kerning lists with repeats),     *)
(*   lay  a layout for the harness's own AFM writer.                       *)
(* The prescribed outcome of every vector is m itself:                     *)
(*   Read(Write(m)) = m   and   Read(Layout(m, lay)) = m   (AfmEquiv).     *)
(*                                                                         *)
(* Family "sim":  seeded random metrics and layouts, one per simulated     *)
(*                behaviour (every step draws once, so a behaviour has one *)
(*                successor per state).                                    *)
(* Family "lay1": one fixed metrics value x every order of the fields of a *)
(*                character line x ligature split x tight semicolons x     *)
(*                line end x trailing blanks (exhaustive).                 *)
(* Family "lay2": the same value x blank runs x comment positions x extra  *)
(*                keys x header order x final line end (exhaustive).       *)
(***************************************************************************)
EXTENDS AFMFormat, TLC, Json, CSV

CONSTANTS Family, OutFile, Tier

\* "x", "H", "d", "p": the glyphs from which tools derive XHeight, CapHeight, Ascender and Descender (a header value
\* is what the header says, also when it is 0 and such a glyph exists)
Names == {".notdef", "A", "B", "C", "L", "N", "f", "fi", "ffi", "space", "a.sc", "Euro", "x", "H", "d", "p"}
SuccPool == {"f", "i", "l", "A", "N"}
LigPool == {"fi", "ffi", "ff", "L", "a.sc"}
Widths == {0, 1, 250, 500, 1000, 32767, -32768, -1}
BoxVals == {-100000, -32768, -200, -1, 0, 1, 250, 1000, 32767, 100000, 2147483647}
Codes == {0, 1, 32, 65, 127, 128, 255}
HdrVals == {0, 1, -1, 700, -200, 50, 1000000, 2147483647, -2147483647}
Angles == {0, -12, 5, 90, -90}
FontNames == {"Test-Regular", "X", "Times-Roman", "a.b_c"}
FullNames == {"Test Regular", "X", "Times New Roman Bold Italic", "", "Single", "Demo 50% Condensed", "100%% %s %d"}
Versions == {"", "001.000", "1.0 beta 2", "Version 2", "2.0 100%"}
RECURSIVE Rep(_, _)
Rep(str, n) == IF n = 0 THEN "" ELSE str \o Rep(str, n - 1)
\* the last one makes a line of more than 4096 bytes (a text value runs to the end of its line, however long)
Notices == {"", "Copyright (c) 2024 Test Foundry. All rights reserved.", "x", "(c) A; B", "Notice Notice", "100% free %v",
            Rep("Long notice, sentence after sentence. ", 130) \o "End."}
KernNames == {"A", "f", "N"}
KernVals == {-50, 0, 10, 32767, -32768}
KernRecs == [l : KernNames, r : KernNames, adj : KernVals]

Seps == {<<32>>, <<32, 32>>, <<9>>, <<32, 9, 32>>}
Trails == {<<>>, <<32>>, <<9, 32>>}
Perm5 == {p \in [1..5 -> 1..5] : \A i, j \in 1..5 : i # j => p[i] # p[j]}
Triples == {t \in [1..3 -> SuccPool] : t[1] # t[2] /\ t[1] # t[3] /\ t[2] # t[3]}

Lay0 == [perm |-> <<1, 2, 3, 4, 5>>, lsplit |-> 3, seps |-> <<<<32>>, <<32>>, <<32>>>>, tight |-> FALSE,
         eol |-> "lf", trail |-> <<>>, finalEOL |-> TRUE, comments |-> <<FALSE, FALSE, FALSE, FALSE, FALSE>>,
         xkeys |-> FALSE, hrot |-> 0, hrev |-> FALSE, emptykern |-> FALSE]

Hdr(fn, fu, ve, no, c, x, a, d, up, ut, it, fx) ==
  [txt |-> [k \in AfmHdrText |-> CASE k = "FontName" -> fn [] k = "FullName" -> fu [] k = "Version" -> ve [] OTHER -> no],
   num |-> [k \in AfmHdrNum |-> CASE k = "CapHeight" -> c [] k = "XHeight" -> x [] k = "Ascender" -> a
                                  [] k = "Descender" -> d [] k = "UnderlinePosition" -> up
                                  [] k = "UnderlineThickness" -> ut [] OTHER -> it],
   fixed |-> fx]

\* the fixed value of the layout families
M0 == LET h == Hdr("Test-Regular", "Test Sans Bold", "001.000", "Copyright (c) 2024 Test; all rights reserved.",
                   700, 500, 800, -200, -100, 50, -12, FALSE)
      IN [txt |-> h.txt, num |-> h.num, fixed |-> h.fixed,
          glyphs |-> << [name |-> "f", code |-> 65, wx |-> 400, box |-> <<20, -100, 500, 800>>,
                         lig |-> <<[s |-> "i", l |-> "fi"], [s |-> "f", l |-> "ff"], [s |-> "l", l |-> "L"]>>],
                        [name |-> ".notdef", code |-> -1, wx |-> 500, box |-> <<0, 0, 500, 800>>, lig |-> <<>>],
                        [name |-> "N", code |-> -1, wx |-> 700, box |-> <<0, 0, 0, 0>>, lig |-> <<>>],
                        [name |-> "B", code |-> 0, wx |-> 0, box |-> <<-5, -6, 7, 8>>, lig |-> <<[s |-> "B", l |-> "N"]>>] >>,
          kern |-> <<[l |-> "f", r |-> "N", adj |-> -50], [l |-> "N", r |-> "f", adj |-> 10], [l |-> "f", r |-> "N", adj |-> -50]>>]

VARIABLES m, lay, phase, want
vars == <<m, lay, phase, want>>

Init == m = AfmEmpty /\ lay = Lay0 /\ phase = "start" /\ want = 0

(***************************************************************************)
(* Family "sim".                                                           *)
(***************************************************************************)
Used == AfmNames(m)
UsedCodes == {g.code : g \in AfmRange(m.glyphs)}

SimStart == /\ phase = "start"
            /\ \E n \in {RandomElement(1..6)}, nd \in {RandomElement(BOOLEAN)}, w0 \in {RandomElement(Widths)} :
                  /\ want' = n
                  /\ m' = IF nd THEN [m EXCEPT !.glyphs = <<[name |-> ".notdef", code |-> -1,
                                                             wx |-> w0,
                                                             box |-> <<0, 0, 500, 700>>, lig |-> <<>>]>>]
                               ELSE m
            /\ phase' = "glyphs" /\ UNCHANGED lay

SimGlyph == /\ phase = "glyphs" /\ Len(m.glyphs) < want
            /\ \E nm \in {RandomElement(Names \ (Used \cup {".notdef"}))},
                  w \in {RandomElement(Widths)},
                  b1 \in {RandomElement(BoxVals)}, b2 \in {RandomElement(BoxVals)},
                  b3 \in {RandomElement(BoxVals)}, b4 \in {RandomElement(BoxVals)},
                  enc \in {RandomElement(1..3)},
                  c0 \in {RandomElement(Codes)},
                  nl \in {RandomElement(0..2)}, nl2 \in {RandomElement(0..3)},
                  ss \in {RandomElement(Triples)},
                  l1 \in {RandomElement(LigPool)}, l2 \in {RandomElement(LigPool)}, l3 \in {RandomElement(LigPool)} :
                  LET c == IF enc = 1 \/ c0 \in UsedCodes THEN -1 ELSE c0
                      k == IF nl = 0 THEN 0 ELSE nl2
                      ll == <<l1, l2, l3>>
                  IN m' = [m EXCEPT !.glyphs = Append(@, [name |-> nm, code |-> c, wx |-> w,
                                                            box |-> <<b1, b2, b3, b4>>,
                                                            lig |-> [i \in 1..k |-> [s |-> ss[i], l |-> ll[i]]]])]
            /\ UNCHANGED <<lay, phase, want>>

SimKern == /\ phase = "glyphs" /\ Len(m.glyphs) >= want
           /\ \E n \in {RandomElement(0..4)}, k1 \in {RandomElement(KernRecs)}, k2 \in {RandomElement(KernRecs)},
                 k3 \in {RandomElement(KernRecs)}, rep \in {RandomElement(BOOLEAN)} :
                 m' = [m EXCEPT !.kern = SubSeq(<<k1, k2, IF rep THEN k1 ELSE k3, k2>>, 1, n)]
           /\ phase' = "hdr" /\ UNCHANGED <<lay, want>>

SimHdr == /\ phase = "hdr"
          /\ \E fn \in {RandomElement(FontNames)}, fu \in {RandomElement(FullNames)},
                ve \in {RandomElement(Versions)}, no \in {RandomElement(Notices)},
                c \in {RandomElement(HdrVals)}, x \in {RandomElement(HdrVals)}, a \in {RandomElement(HdrVals)},
                d \in {RandomElement(HdrVals)}, up \in {RandomElement(HdrVals)}, ut \in {RandomElement(HdrVals)},
                it \in {RandomElement(Angles)}, fx \in {RandomElement(BOOLEAN)} :
                LET h == Hdr(fn, fu, ve, no, c, x, a, d, up, ut, it, fx)
                IN m' = [m EXCEPT !.txt = h.txt, !.num = h.num, !.fixed = h.fixed]
          /\ phase' = "lay" /\ UNCHANGED <<lay, want>>

SimLay == /\ phase = "lay"
          /\ \E p \in {RandomElement(Perm5)}, ls \in {RandomElement(0..3)},
                s1 \in {RandomElement(Seps)}, s2 \in {RandomElement(Seps)}, s3 \in {RandomElement(Seps)},
                tg \in {RandomElement(BOOLEAN)}, el \in {RandomElement({"lf", "crlf"})},
                tr \in {RandomElement(Trails)}, fe \in {RandomElement(BOOLEAN)},
                cm \in {RandomElement([1..5 -> BOOLEAN])}, xk \in {RandomElement(BOOLEAN)},
                hr \in {RandomElement(0..11)}, hv \in {RandomElement(BOOLEAN)}, ek \in {RandomElement(BOOLEAN)} :
                lay' = [perm |-> p, lsplit |-> ls, seps |-> <<s1, s2, s3>>, tight |-> tg, eol |-> el, trail |-> tr,
                        finalEOL |-> fe, comments |-> cm, xkeys |-> xk, hrot |-> hr, hrev |-> hv, emptykern |-> ek]
          /\ phase' = "done" /\ UNCHANGED <<m, want>>

(***************************************************************************)
(* Families "lay1", "lay2".                                                *)
(***************************************************************************)
Lay1 == /\ Family = "lay1" /\ phase = "start"
        /\ \E p \in Perm5, ls \in 0..3, tg \in BOOLEAN, el \in {"lf", "crlf"}, tr \in Trails :
              lay' = [Lay0 EXCEPT !.perm = p, !.lsplit = ls, !.tight = tg, !.eol = el, !.trail = tr]
        /\ m' = M0 /\ phase' = "done" /\ UNCHANGED want
Lay2 == /\ Family = "lay2" /\ phase = "start"
        /\ \E s1 \in Seps, s2 \in Seps, s3 \in (IF Tier = "quick" THEN {<<32>>} ELSE {<<32>>, <<9>>}),
              cm \in [1..5 -> BOOLEAN], xk \in BOOLEAN,
              hr \in (IF Tier = "quick" THEN {0, 5} ELSE {0, 1, 5, 11}), hv \in (IF Tier = "quick" THEN {FALSE} ELSE BOOLEAN),
              fe \in BOOLEAN, el \in {"lf", "crlf"} :
              lay' = [Lay0 EXCEPT !.seps = <<s1, s2, s3>>, !.comments = cm, !.xkeys = xk, !.hrot = hr, !.hrev = hv,
                                  !.finalEOL = fe, !.eol = el, !.perm = <<3, 5, 1, 4, 2>>, !.lsplit = 1]
        /\ m' = M0 /\ phase' = "done" /\ UNCHANGED want

Next == \/ (Family = "sim" /\ (SimStart \/ SimGlyph \/ SimKern \/ SimHdr \/ SimLay))
        \/ Lay1 \/ Lay2

(***************************************************************************)
(* Design-level checks of the generator: what is emitted is inside the     *)
(* domain of the property.                                                 *)
(***************************************************************************)
InDomain ==
  phase = "done" =>
     /\ Cardinality(AfmNames(m)) = Len(m.glyphs)
     /\ \A i, j \in 1..Len(m.glyphs) : (i # j /\ m.glyphs[i].code >= 0) => m.glyphs[i].code # m.glyphs[j].code
     /\ \A g \in AfmRange(m.glyphs) : /\ g.code \in -1..255 /\ g.wx \in -32768..32767 /\ Len(g.lig) <= 3
                                       /\ (g.name = ".notdef" => g.code = -1)
                                       /\ \A i, j \in 1..Len(g.lig) : i # j => g.lig[i].s # g.lig[j].s
     /\ \A k \in AfmRange(m.kern) : k.adj \in -32768..32767
     /\ AfmEquiv(m, m)

Emit == phase = "done" => CSVWrite("%1$s", <<ToJson([m |-> m, lay |-> lay])>>, OutFile)
=============================================================================
