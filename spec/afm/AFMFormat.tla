----------------------------- MODULE AFMFormat -----------------------------
(***************************************************************************)
(* The subset of the Adobe Font Metrics format that property C15 talks     *)
(* about, as a line machine.  A file is a sequence of lines, a line a      *)
(* sequence of blank-separated tokens (the character ";" is a token of its *)
(* own).  The machine gives the meaning of a file: an abstract metrics     *)
(* value AM.  It is used                                                    *)
(*   - as the independent reader of what Metrics.Write emits (TV), and     *)
(*   - as the definition of what a file laid out by the harness's own      *)
(*     writer means (self-test of that writer and of the tokenizer).       *)
(*                                                                         *)
(* Abstract metrics value (all numbers are integers in this module):       *)
(*   [txt    : header text fields  FontName FullName Version Notice,       *)
(*    num    : header numbers      CapHeight XHeight Ascender Descender    *)
(*                                 UnderlinePosition UnderlineThickness    *)
(*                                 ItalicAngle,                            *)
(*    fixed  : IsFixedPitch,                                               *)
(*    glyphs : sequence (file order) of                                    *)
(*             [name, code (-1 = not encoded), wx, box <<llx,lly,urx,ury>>,*)
(*              lig : sequence of [s |-> successor, l |-> ligature]],      *)
(*    kern   : sequence of [l, r, adj]]                                    *)
(*                                                                         *)
(* A line event is [toks, isn, num, rest]: the tokens as strings, for each *)
(* token whether it is a decimal integer and its value, and the text after *)
(* the first token with surrounding blanks removed (text-valued keys).     *)
(* Outside the subset (never generated, flagged as err): CH <hex> codes,   *)
(* names of several tokens, a glyph name or a code used twice, a header    *)
(* key given twice, non-integral numbers.                                  *)
(***************************************************************************)
EXTENDS Integers, Sequences, FiniteSets

AfmHdrText == {"FontName", "FullName", "Version", "Notice"}
AfmHdrNum  == {"CapHeight", "XHeight", "Ascender", "Descender", "UnderlinePosition",
               "UnderlineThickness", "ItalicAngle"}
AfmHdrKeys == AfmHdrText \cup AfmHdrNum \cup {"IsFixedPitch"}

AfmEmpty == [txt |-> [k \in AfmHdrText |-> ""], num |-> [k \in AfmHdrNum |-> 0], fixed |-> FALSE,
             glyphs |-> <<>>, kern |-> <<>>]

AfmInit == [mode |-> "start", m |-> AfmEmpty, err |-> "", seen |-> {}, nch |-> -1, nkp |-> -1,
            hadChars |-> FALSE]

AfmFail(st, why) == IF st.err = "" THEN [st EXCEPT !.err = why] ELSE st
AfmKey(e) == IF Len(e.toks) = 0 THEN "" ELSE e.toks[1]
AfmRange(s) == {s[i] : i \in 1..Len(s)}

(***************************************************************************)
(* Header lines: `Key value`.                                              *)
(***************************************************************************)
AfmHeaderLine(st, e) ==
  LET k == AfmKey(e)
      n == Len(e.toks)
      st1 == [st EXCEPT !.seen = @ \cup {k}]
  IN IF k \in st.seen THEN AfmFail(st, "header key given twice")
     ELSE IF k = "FontName"
          THEN IF n = 2 THEN [st1 EXCEPT !.m.txt[k] = e.toks[2]]
               ELSE IF n = 1 THEN st1 ELSE AfmFail(st1, "FontName is not a single token")
     ELSE IF k \in AfmHdrText THEN [st1 EXCEPT !.m.txt[k] = e.rest]
     ELSE IF k \in AfmHdrNum
          THEN IF n = 2 /\ e.isn[2] THEN [st1 EXCEPT !.m.num[k] = e.num[2]]
               ELSE AfmFail(st1, "header number is not one integer")
     ELSE IF n = 2 /\ e.toks[2] \in {"true", "false"} THEN [st1 EXCEPT !.m.fixed = (e.toks[2] = "true")]
          ELSE AfmFail(st1, "IsFixedPitch is not true or false")

(***************************************************************************)
(* Character lines: fields separated by ";", in any order.                 *)
(***************************************************************************)
\* the fields of a line as sequences of token indices
RECURSIVE AfmSplit(_, _, _)
AfmSplit(toks, i, cur) ==
  IF i > Len(toks) THEN (IF cur = <<>> THEN <<>> ELSE <<cur>>)
  ELSE IF toks[i] = ";" THEN <<cur>> \o AfmSplit(toks, i + 1, <<>>)
  ELSE AfmSplit(toks, i + 1, Append(cur, i))

AfmChar0 == [name |-> "", code |-> -1, wx |-> 0, box |-> <<0, 0, 0, 0>>, lig |-> <<>>, keys |-> {}, err |-> ""]

AfmField(c, e, f) ==
  IF f = <<>> THEN c
  ELSE LET k == e.toks[f[1]]
           n == Len(f) - 1
           dup == k \in c.keys
           c1 == [c EXCEPT !.keys = @ \cup {k}]
           Bad(w) == IF c.err = "" THEN [c EXCEPT !.err = w] ELSE c
           IsN(j) == e.isn[f[j]]
           Val(j) == e.num[f[j]]
       IN IF k = "C"
          THEN IF dup \/ n # 1 THEN Bad("C field malformed")
               ELSE IF ~IsN(2) THEN Bad("C field malformed")
               ELSE IF Val(2) < -1 \/ Val(2) > 255 THEN Bad("code out of range")
               ELSE [c1 EXCEPT !.code = Val(2)]
          ELSE IF k = "CH" THEN Bad("CH codes are outside the subset")
          ELSE IF k = "WX"
          THEN IF dup \/ n # 1 THEN Bad("WX field malformed")
               ELSE IF ~IsN(2) THEN Bad("WX is not an integer")
               ELSE [c1 EXCEPT !.wx = Val(2)]
          ELSE IF k = "N"
          THEN IF dup \/ n # 1 THEN Bad("N field malformed") ELSE [c1 EXCEPT !.name = e.toks[f[2]]]
          ELSE IF k = "B"
          THEN IF dup \/ n # 4 THEN Bad("B field malformed")
               ELSE IF ~(IsN(2) /\ IsN(3) /\ IsN(4) /\ IsN(5)) THEN Bad("B is not four integers")
               ELSE [c1 EXCEPT !.box = <<Val(2), Val(3), Val(4), Val(5)>>]
          ELSE IF k = "L"
          THEN IF n # 2 THEN Bad("L field malformed")
               ELSE IF \E p \in AfmRange(c.lig) : p.s = e.toks[f[2]] THEN Bad("two ligatures for one successor")
               ELSE [c EXCEPT !.lig = Append(@, [s |-> e.toks[f[2]], l |-> e.toks[f[3]]])]
          ELSE c     \* a key this subset gives no meaning to

RECURSIVE AfmFoldFields(_, _, _, _)
AfmFoldFields(c, e, fs, i) == IF i > Len(fs) THEN c ELSE AfmFoldFields(AfmField(c, e, fs[i]), e, fs, i + 1)

AfmCharLine(st, e) ==
  LET c == AfmFoldFields(AfmChar0, e, AfmSplit(e.toks, 1, <<>>), 1)
      gs == AfmRange(st.m.glyphs)
  IN IF c.err # "" THEN AfmFail(st, c.err)
     ELSE IF c.name = "" THEN AfmFail(st, "character line without a name")
     ELSE IF \E g \in gs : g.name = c.name THEN AfmFail(st, "glyph name given twice")
     ELSE IF c.code >= 0 /\ c.name # ".notdef" /\ (\E g \in gs : g.code = c.code /\ g.name # ".notdef")
          THEN AfmFail(st, "code given twice")
     ELSE [st EXCEPT !.m.glyphs = Append(@, [name |-> c.name, code |-> c.code, wx |-> c.wx,
                                                box |-> c.box, lig |-> c.lig])]

(***************************************************************************)
(* The line machine.                                                       *)
(***************************************************************************)
AfmCount(st, e) == IF Len(e.toks) = 2 /\ e.isn[2] THEN e.num[2] ELSE -2

AfmLine(st, e) ==
  LET k == AfmKey(e) IN
  IF st.mode = "chars"
  THEN IF k = "EndCharMetrics"
       THEN LET st1 == [st EXCEPT !.mode = "body"]
            IN IF st.nch = Len(st.m.glyphs) THEN st1 ELSE AfmFail(st1, "StartCharMetrics count differs from the lines")
       ELSE IF k = "" \/ k = "Comment" THEN st
       ELSE AfmCharLine(st, e)
  ELSE IF k = "" \/ k = "Comment" THEN st
  ELSE IF st.mode = "start"
  THEN IF k = "StartFontMetrics" THEN [st EXCEPT !.mode = "body"]
       ELSE AfmFail([st EXCEPT !.mode = "body"], "StartFontMetrics missing")
  ELSE IF st.mode = "kernpairs"
  THEN IF k = "KPX"
       THEN IF Len(e.toks) = 4 /\ e.isn[4]
            THEN [st EXCEPT !.m.kern = Append(@, [l |-> e.toks[2], r |-> e.toks[3], adj |-> e.num[4]])]
            ELSE AfmFail(st, "KPX line malformed")
       ELSE IF k = "EndKernPairs"
       THEN LET st1 == [st EXCEPT !.mode = "kerndata"]
            IN IF st.nkp = Len(st.m.kern) THEN st1 ELSE AfmFail(st1, "StartKernPairs count differs from the lines")
       ELSE AfmFail(st, "unexpected line between StartKernPairs and EndKernPairs")
  ELSE IF st.mode = "kerndata"
  THEN IF k = "StartKernPairs"
       THEN IF st.nkp >= 0 THEN AfmFail(st, "second StartKernPairs")
            ELSE [st EXCEPT !.mode = "kernpairs", !.nkp = AfmCount(st, e)]
       ELSE IF k = "EndKernData" THEN [st EXCEPT !.mode = "body"]
       ELSE st
  ELSE IF st.mode = "body"
  THEN IF k = "StartCharMetrics"
       THEN IF st.hadChars THEN AfmFail(st, "second StartCharMetrics")
            ELSE [st EXCEPT !.mode = "chars", !.nch = AfmCount(st, e), !.hadChars = TRUE]
       ELSE IF k = "StartKernData" THEN [st EXCEPT !.mode = "kerndata"]
       ELSE IF k = "EndFontMetrics" THEN [st EXCEPT !.mode = "done"]
       ELSE IF k \in {"KPX", "StartKernPairs", "EndKernPairs", "EndKernData", "EndCharMetrics"}
            THEN AfmFail(st, "section line outside its section")
       ELSE IF k \in AfmHdrKeys THEN AfmHeaderLine(st, e)
       ELSE st
  ELSE AfmFail(st, "text after EndFontMetrics")

RECURSIVE AfmReadFrom(_, _, _)
AfmReadFrom(st, lines, i) == IF i > Len(lines) THEN st ELSE AfmReadFrom(AfmLine(st, lines[i]), lines, i + 1)
AfmRead(lines) == AfmReadFrom(AfmInit, lines, 1)

\* a complete, well-formed file
AfmComplete(st) == st.mode = "done" /\ st.err = "" /\ st.hadChars

(***************************************************************************)
(* Equality of metrics (the EquivAFM of C15 on integral metrics): header   *)
(* fields, for every glyph its width, box, ligature MAP and code, kerning  *)
(* pairs in order.  The order of character lines and of L fields carries   *)
(* no meaning; a line that names .notdef assigns no code.                  *)
(***************************************************************************)
AfmGlyphNorm(g) == [name |-> g.name, code |-> IF g.name = ".notdef" THEN -1 ELSE g.code, wx |-> g.wx,
                    box |-> g.box, lig |-> {<<p.s, p.l>> : p \in AfmRange(g.lig)}]
AfmGlyphSet(m) == {AfmGlyphNorm(g) : g \in AfmRange(m.glyphs)}
AfmNames(m) == {g.name : g \in AfmRange(m.glyphs)}
AfmGlyphOf(m, n) == CHOOSE g \in AfmGlyphSet(m) : g.name = n

\* the classes of fields in which two metrics differ (empty = equal)
AfmDiff(a, b) ==
  LET common == AfmNames(a) \cap AfmNames(b)
      GD(f(_)) == \E n \in common : f(AfmGlyphOf(a, n)) # f(AfmGlyphOf(b, n))
      FCode(g) == g.code
      FWx(g) == g.wx
      FBox(g) == g.box
      FLig(g) == g.lig
  IN {k \in AfmHdrText : a.txt[k] # b.txt[k]}
     \cup {k \in AfmHdrNum : a.num[k] # b.num[k]}
     \cup (IF a.fixed # b.fixed THEN {"IsFixedPitch"} ELSE {})
     \cup (IF AfmNames(a) # AfmNames(b) \/ Cardinality(AfmNames(a)) # Len(a.glyphs)
              \/ Cardinality(AfmNames(b)) # Len(b.glyphs) THEN {"glyph set"} ELSE {})
     \cup (IF GD(FCode) THEN {"code"} ELSE {})
     \cup (IF GD(FWx) THEN {"width"} ELSE {})
     \cup (IF GD(FBox) THEN {"bbox"} ELSE {})
     \cup (IF GD(FLig) THEN {"ligatures"} ELSE {})
     \cup (IF a.kern # b.kern THEN {"kerning"} ELSE {})

AfmEquiv(a, b) == AfmDiff(a, b) = {}
=============================================================================
