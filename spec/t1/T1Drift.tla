------------------------------- MODULE T1Drift -------------------------------
(***************************************************************************)
(* Why rounding errors do not accumulate along a path (C20).  One axis.    *)
(* Positions are integers in units of 1/L.  The writer wants to reach the  *)
(* target positions t1, t2, ... ; for each segment it approximates the     *)
(* delta from ITS OWN RECONSTRUCTION of the decoder's position (enc) to    *)
(* the target by the nearest fraction p/q with q <= QMax, emits it, and    *)
(* advances enc by the value actually emitted.  The decoder adds the same  *)
(* emitted values.  Invariant: decoder and encoder agree, and the decoder  *)
(* is within 1/(2 QMax) of the current target -- whatever the path length. *)
(* The error after a segment depends only on that segment's approximation, *)
(* so the state space (error values) is finite and TLC covers paths of     *)
(* unbounded length.  The library uses QMax = 107; the model is scaled.    *)
(*                                                                         *)
(* DriftingEncoder is the faulty design (advance by the requested delta):  *)
(* TLC finds the accumulation, which shows the invariant is not vacuous.   *)
(***************************************************************************)
EXTENDS Integers

CONSTANTS L,        \* resolution: positions are multiples of 1/L; every q <= QMax divides L
          QMax,
          Range,    \* targets lie in -Range..Range (units of 1/L)
          Drifting  \* FALSE: the library's design; TRUE: the faulty one

VARIABLES target, enc, dec
vars == <<target, enc, dec>>

AbsV(x) == IF x < 0 THEN 0 - x ELSE x
\* the representable fractions p/q (q <= QMax) nearest to d, in units of 1/L: for every q the
\* two multiples of L/q around d are candidates, the nearest of all candidates wins (ties: any)
Cand(d) == UNION {{((d * q) \div L) * (L \div q), (((d * q) \div L) + 1) * (L \div q)} : q \in 1..QMax}
Nearest(d) == {r \in Cand(d) : \A r2 \in Cand(d) : AbsV(r - d) <= AbsV(r2 - d)}

Init == target = 0 /\ enc = 0 /\ dec = 0
Segment == \E t \in (0 - Range)..Range :
              \E r \in Nearest(t - enc) :
                 /\ target' = t
                 /\ dec' = dec + r
                 /\ enc' = IF Drifting THEN t ELSE enc + r     \* the faulty encoder believes it reached t
Next == Segment
\* 2 QMax |dec - target| <= L   i.e.  |dec - target| <= 1/(2 QMax)
Bound == 2 * QMax * AbsV(dec - target) <= L
NoDrift == Bound /\ (~Drifting => enc = dec)
=============================================================================
