------------------------------- MODULE T1File -------------------------------
(***************************************************************************)
(* Structure of a written Type 1 font file (C08), as a predicate on the    *)
(* structure record that the harness's independent decoder extracts:       *)
(*   fmt      "pfa" | "pfb" | "binary" | "noeexec" | "pdf"                 *)
(*   segs     PFB segment headers found: <<[type, declared, payload]>>     *)
(*   endmark  PFB end marker present; afterend: bytes after it             *)
(*   lead     the first four bytes of the encrypted portion as written     *)
(*   clear, cipher, total   sizes in bytes of the clear-text portion, of   *)
(*            the encrypted portion as it stands in the file, and of the   *)
(*            whole output; l1, l2 the lengths WritePDF reported           *)
(*   trailer  "zeros" if the file ends with 512 zeros and cleartomark      *)
(***************************************************************************)
EXTENDS Eexec

PFBOK(f) == /\ Len(f.segs) = 4
            /\ f.segs[1].type = 1 /\ f.segs[2].type = 2 /\ f.segs[3].type = 1 /\ f.segs[4].type = 3
            /\ \A j \in 1..3 : f.segs[j].declared = f.segs[j].payload      \* little-endian length = payload size
            /\ f.endmark /\ f.afterend = 0
            /\ LegalBinaryLead(f.lead)
StructureOK(f) ==
    CASE f.fmt = "pfb" -> PFBOK(f) /\ f.trailer = "zeros"
      [] f.fmt = "binary" -> LegalBinaryLead(f.lead) /\ f.trailer = "zeros" /\ f.segs = <<>>
      [] f.fmt = "pfa" -> (\A j \in 1..4 : IsHexDigit(f.lead[j])) /\ f.trailer = "zeros" /\ f.segs = <<>>
      [] f.fmt = "noeexec" -> f.cipher = 0 /\ f.segs = <<>>
      [] f.fmt = "pdf" -> /\ LegalBinaryLead(f.lead)
                          /\ f.l1 = f.clear /\ f.l2 = f.cipher /\ f.l1 + f.l2 = f.total   \* nothing after the encrypted portion
      [] OTHER -> FALSE
=============================================================================
