----------------------------- MODULE RoundTrip -----------------------------
(***************************************************************************)
(* The relations of C09 and C10 on projected fonts (harness/fontgen        *)
(* Project): coordinates and widths are fixed-point integers in units of   *)
(* 10^-4, other numbers in units of 10^-6, strings are byte sequences.     *)
(*                                                                         *)
(*  Equiv9(a, b)   "reading what was written yields an equal font": same   *)
(*      glyph set, outlines exact for integer coordinates and within 0.005 *)
(*      otherwise, widths, hints, the same name at all 256 codes, font     *)
(*      name and info strings byte for byte, matrix, private values,       *)
(*      creation time to the second.                                       *)
(*  Quant10(a, b)  the writer's documented quantisation: widths rounded to *)
(*      whole units (half away from zero), coordinates within 1/214,       *)
(*      BlueScale snapped to 0.039625 when within 10^-6 of it; everything  *)
(*      else equal.                                                        *)
(*  One unit of slack absorbs the rounding of the fixed-point projection.  *)
(***************************************************************************)
EXTENDS Integers, Sequences

AbsD(x) == IF x < 0 THEN 0 - x ELSE x
Tol9 == 50 + 1            \* 0.005 in units of 10^-4
Tol10 == 47 + 1           \* 1/214 in units of 10^-4 (46.7)
BlueDefault == 39625      \* 0.039625 in units of 10^-6

ArgsClose(x, y, tol) == Len(x) = Len(y) /\ \A j \in 1..Len(x) : AbsD(x[j] - y[j]) <= tol
\* exactness is demanded for glyphs all of whose coordinates are integers: an integral point
\* that follows fractional ones is reached by fractional deltas and shares their tolerance
CmdEq9(c, d, exact) == c.op = d.op /\ (IF exact THEN c.a = d.a ELSE ArgsClose(c.a, d.a, Tol9))
CmdEq10(c, d) == c.op = d.op /\ ArgsClose(c.a, d.a, Tol10)
\* half away from zero, in units of 10^-4
RoundUnits(w) == IF w >= 0 THEN ((w + 5000) \div 10000) * 10000 ELSE 0 - (((0 - w) + 5000) \div 10000) * 10000

GlyphEq9(g, h) == /\ g.name = h.name /\ g.wx = h.wx /\ g.wy = h.wy /\ g.h = h.h /\ g.v = h.v
                  /\ Len(g.cmds) = Len(h.cmds) /\ \A j \in 1..Len(g.cmds) : CmdEq9(g.cmds[j], h.cmds[j], g.i)
\* "advance widths rounded to whole units": a nearest whole unit, either neighbour on a tie
IsRoundOf(w, r) == r % 10000 = 0 /\ AbsD(r - w) <= 5000
GlyphEq10(g, h) == /\ g.name = h.name /\ IsRoundOf(g.wx, h.wx) /\ IsRoundOf(g.wy, h.wy) /\ g.h = h.h /\ g.v = h.v
                   /\ Len(g.cmds) = Len(h.cmds) /\ \A j \in 1..Len(g.cmds) : CmdEq10(g.cmds[j], h.cmds[j])

Rest(a, b) == /\ a.enc = b.enc /\ a.name = b.name /\ a.strings = b.strings /\ a.ints = b.ints
              /\ a.blues = b.blues /\ a.other = b.other /\ a.date = b.date

Equiv9(a, b) == /\ Len(a.glyphs) = Len(b.glyphs) /\ \A j \in 1..Len(a.glyphs) : GlyphEq9(a.glyphs[j], b.glyphs[j])
                /\ Rest(a, b) /\ a.nums = b.nums

BlueIdx == 10             \* position of BlueScale in nums
Quant10(a, b) == /\ Len(a.glyphs) = Len(b.glyphs) /\ \A j \in 1..Len(a.glyphs) : GlyphEq10(a.glyphs[j], b.glyphs[j])
                 /\ Rest(a, b)
                 /\ Len(a.nums) = Len(b.nums)
                 /\ \A j \in 1..Len(a.nums) :
                        IF j = BlueIdx /\ AbsD(a.nums[j] - BlueDefault) <= 1 THEN b.nums[j] = BlueDefault
                        ELSE a.nums[j] = b.nums[j]
=============================================================================
