------------------------------ MODULE MC_T1Font ------------------------------
(***************************************************************************)
(* Generating configuration for the Type 1 reader (C06, C01c, C10 inputs). *)
(* A model font is                                                         *)
(*   glyphs  : name -> charstring tokens        subrs : token sequences    *)
(*   enc     : "std" | "custom" | "customseac" | "none"   (see EncOf)       *)
(*   info    : FontInfo / Private variant id    lay : layout record        *)
(* The prescribed result of reading any conforming serialisation of it     *)
(* (T1FontSem below) is: every glyph decoded by T1Charstring, composites   *)
(* assembled through StandardEncoding, codes of absent glyphs mapped to    *)
(* .notdef, defaults for omitted Private entries.                          *)
(* Families:                                                               *)
(*   "glyph"  header x hints x contour of path items (every command, flex  *)
(*            after a move, a line and a curve, div operands, subroutine   *)
(*            calls, hint replacement), one layout per vector by rotation  *)
(*   "layout" a few glyphs x every layout (container, lenIV, RD/ND names,  *)
(*            number encoding, encoding form)                              *)
(*   "seac"   accented composites under the constraints of DESIGN.md 10    *)
(*   "hostile" malformed charstrings (C01c): outcome not prescribed        *)
(***************************************************************************)
EXTENDS T1Charstring, FiniteSets, Json, CSV

CONSTANTS Family, Tier, OutFile

N(v) == NumT(v)
C(c) == CmdT(c)

\* ---- operand pools (format boundaries included)
Vals == IF Tier = "quick" THEN <<50, -30, 108, -1131>> ELSE <<50, -30, 107, 108, -108, 1131, 1132, -1131, -1132, 0, 30000>>
V(k) == Vals[((k - 1) % Len(Vals)) + 1]

Headers == << <<N(0), N(500), C("hsbw")>>, <<N(40), N(612), C("hsbw")>>, <<N(25), N(-10), N(480), N(7), C("sbw")>> >>
HintSets == << <<>>,
               <<N(10), N(20), C("hstem")>>,
               <<N(-5), N(40), C("vstem"), N(100), N(30), C("vstem")>>,
               <<N(0), N(15), C("hstem"), N(200), N(25), C("hstem"), N(60), N(50), C("vstem")>>,
               <<N(0), N(20), N(100), N(30), N(210), N(20), C("hstem3")>>,
               <<N(20), N(30), N(90), N(40), N(170), N(30), C("vstem3"), C("dotsection")>> >>
Moves(k) == << <<N(V(k)), N(V(k + 1)), C("rmoveto")>>, <<N(V(k)), C("hmoveto")>>, <<N(V(k + 2)), C("vmoveto")>> >>

FlexMoves == << <<N(30), N(0)>>, <<N(5), N(-3)>>, <<N(10), N(-7)>>, <<N(15), N(0)>>, <<N(15), N(0)>>, <<N(10), N(7)>>, <<N(5), N(3)>> >>
RECURSIVE FlexBody(_)
FlexBody(j) == IF j > 7 THEN <<>> ELSE FlexMoves[j] \o <<C("rmoveto"), N(2), C("callsubr")>> \o FlexBody(j + 1)
\* the flex end needs the absolute end point: run the machine on what precedes it
FlexAt(prefix, subrs) ==
    LET body == <<N(1), C("callsubr")>> \o FlexBody(1)
        m == T1Run(prefix \o body, subrs)
    IN body \o <<N(50), N(m.x.n), N(m.y.n), N(0), C("callsubr")>>

\* path items; "flex", "sub" and "hr" are expanded when the glyph is assembled
Items == <<"rl", "hl", "vl", "rrc", "hvc", "vhc", "flex", "divl", "sub", "hr", "rl2">>
NItems == IF Tier = "quick" THEN 10 ELSE Len(Items)
ItemToks(it, k, prefix, subrs) ==
    CASE it = "rl" -> <<N(V(k)), N(V(k + 3)), C("rlineto")>>
      [] it = "rl2" -> <<N(-7), N(13), C("rlineto")>>
      [] it = "hl" -> <<N(V(k + 1)), C("hlineto")>>
      [] it = "vl" -> <<N(V(k + 2)), C("vlineto")>>
      [] it = "rrc" -> <<N(10), N(V(k)), N(20), N(-15), N(V(k + 1)), N(5), C("rrcurveto")>>
      [] it = "hvc" -> <<N(V(k)), N(12), N(-8), N(30), C("hvcurveto")>>
      [] it = "vhc" -> <<N(25), N(-12), N(V(k + 2)), N(18), C("vhcurveto")>>
      [] it = "flex" -> FlexAt(prefix, subrs)
      [] it = "divl" -> <<N(7), N(2), C("div"), N(-9), N(4), C("div"), C("rlineto")>>
      [] it = "sub" -> <<N(4), C("callsubr")>>
      [] OTHER -> <<N(5), N(1), N(3), C("callothersubr"), C("pop"), C("callsubr")>>      \* hint replacement
ExtraSubrs == << <<N(33), N(-21), C("rlineto"), N(12), C("hlineto"), C("return")>>,          \* 4: a path fragment
                 <<N(300), N(10), C("hstem"), C("return")>> >>                               \* 5: replacement hints
Subrs == StdSubrs \o ExtraSubrs
\* subroutines of the hostile family: self-calls in tail and non-tail position, a cycle of two
HostileSubrs == Subrs \o << <<N(6), C("callsubr")>>,                  \* 6: calls itself as its last operation
                            <<N(7), C("callsubr"), C("return")>>,     \* 7: calls itself, then returns
                            <<N(9), C("callsubr")>>,                  \* 8 -> 9 -> 8 ...
                            <<N(8), C("callsubr")>> >>

RECURSIVE Assemble(_, _, _)
Assemble(prefix, items, k) ==
    IF items = <<>> THEN prefix
    ELSE Assemble(prefix \o ItemToks(Head(items), k, prefix, Subrs), Tail(items), k + 1)
GlyphToks(g) == Assemble(Headers[g.h] \o HintSets[g.hs] \o Moves(g.k)[g.mv], g.items, g.k)
                \o <<C("closepath"), C("endchar")>>

Notdef == <<N(0), N(250), C("hsbw"), C("endchar")>>

\* ---- layouts
Containers == {"pfa", "bin", "pfb", "clear"}
\* eol: the line ends of the text portions (line feed, carriage return, both); fill: so many further
\* glyphs (copies of the last one under other names: with 1500 of them the encrypted portion passes
\* 64 KiB, the third byte of a PFB segment length)
LayoutSet == {[cont |-> c, leniv |-> l, names |-> nm, longnum |-> ln, enc |-> e, eol |-> "lf", fill |-> 0] :
                 c \in Containers, l \in {0, 1, 4, 5}, nm \in {"RD", "bar"}, ln \in BOOLEAN, e \in {"std", "custom", "none"}}
             \cup {[cont |-> c, leniv |-> 4, names |-> "RD", longnum |-> FALSE, enc |-> e, eol |-> el, fill |-> 0] :
                      c \in Containers, e \in {"std", "custom", "none"}, el \in {"cr", "crlf"}}
             \cup {[cont |-> c, leniv |-> 4, names |-> "RD", longnum |-> FALSE, enc |-> "std", eol |-> "lf", fill |-> 1500] : c \in Containers}
DefaultLayout == [cont |-> "pfa", leniv |-> 4, names |-> "RD", longnum |-> FALSE, enc |-> "std", eol |-> "lf", fill |-> 0]

\* ---- seac (DESIGN.md section 10: asb = sbx(composite) = sbx(accent))
BaseA == <<N(30), N(500), C("hsbw"), N(20), N(0), C("rmoveto"), N(100), C("hlineto"), N(200), C("vlineto"), C("closepath"), C("endchar")>>
Accent(sb) == <<N(sb), N(300), C("hsbw"), N(10), N(400), C("rmoveto"), N(40), N(60), C("rlineto"), N(-80), C("hlineto"), C("closepath"), C("endchar")>>
Composite(sb, adx, ady) == <<N(sb), N(500), C("hsbw"), N(sb), N(adx), N(ady), N(97), N(193), C("seac")>>
\* the seac family: a base of ten path commands (not a power of two: readers that grow
\* buffers by doubling have spare room behind it), two accents, two composites on the same base
SeacBase == <<N(30), N(500), C("hsbw"), N(20), N(0), C("rmoveto"), N(100), C("hlineto"), N(200), C("vlineto"),
              N(-30), C("hlineto"), N(-40), C("vlineto"), N(-30), C("hlineto"), N(-50), C("vlineto"),
              N(-20), N(-20), C("rlineto"), N(-20), C("hlineto"), C("closepath"), C("endchar")>>
Accent2(sb) == <<N(sb), N(300), C("hsbw"), N(15), N(410), C("rmoveto"), N(-40), N(55), C("rlineto"), N(70), C("hlineto"), C("closepath"), C("endchar")>>
Composite2(sb, adx, ady) == <<N(sb), N(500), C("hsbw"), N(sb), N(adx + 15), N(ady - 20), N(97), N(194), C("seac")>>

\* ---- hostile charstrings (C01c)
HostileAlpha == << N(0), N(-1), N(3), N(25), N(2147483647), N(-2147483647 - 1), C("callothersubr"), C("callsubr"), C("pop"),
                   C("div"), C("seac"), C("hsbw"), C("rrcurveto"), C("return"), C("endchar"), C("setcurrentpoint"),
                   C("hstem3"), C("closepath"), C("rmoveto"), N(1), N(4), N(6), N(7), N(8) >>
NHostile == IF Tier = "quick" THEN 3 ELSE 4

\* ---- font-level values (FontInfo strings and numbers, Private values and their documented
\* defaults, creation date).  A variant records what the file says; Expected(v) what a reader
\* must return.  Numbers are given in units of 10^-6.
StrTable == <<  \* [val |-> bytes of the string, sp |-> one legal spelling]
    [val |-> <<>>, sp |-> <<40, 41>>],
    [val |-> <<65, 98>>, sp |-> <<40, 65, 98, 41>>],
    [val |-> <<97, 40, 98>>, sp |-> <<40, 97, 92, 40, 98, 41>>],
    [val |-> <<97, 40, 98, 41, 99>>, sp |-> <<40, 97, 40, 98, 41, 99, 41>>],
    [val |-> <<92, 41>>, sp |-> <<40, 92, 92, 92, 41, 41>>],
    [val |-> <<169, 32, 49, 57, 57, 48>>, sp |-> <<40, 92, 50, 53, 49, 32, 49, 57, 57, 48, 41>>],
    [val |-> <<76, 49, 10, 76, 50>>, sp |-> <<40, 76, 49, 92, 110, 76, 50, 41>>],
    [val |-> <<120, 13, 121>>, sp |-> <<40, 120, 92, 114, 121, 41>>],
    [val |-> <<37, 33, 47, 123>>, sp |-> <<60, 50, 53, 50, 49, 50, 70, 55, 66, 62>>],
    \* short octal escapes followed by the digits 8 and 9, and by an octal digit: (\119 \08 \1234)
    [val |-> <<9, 57, 32, 0, 56, 32, 83, 52>>, sp |-> <<40, 92, 49, 49, 57, 32, 92, 48, 56, 32, 92, 49, 50, 51, 52, 41>>],
    \* a line continuation, an unknown escape (the backslash is dropped), CR LF inside the string read as one LF
    [val |-> <<97, 98, 113, 10, 99>>, sp |-> <<40, 97, 92, 10, 98, 92, 113, 13, 10, 99, 41>>] >>
Dates == {"none", "iso", "ctime", "rfc", "short"}
Variants == {[bs |-> bs, bshift |-> sh, bfuzz |-> fz, fb |-> fb, std |-> sd, other |-> ot, ia |-> ia, fixed |-> fx, str |-> st, date |-> dt] :
                bs \in {"omit", "50000", "39625"}, sh \in {"omit", "7", "3"}, fz \in {"omit", "1", "0"},
                fb \in {"omit", "true", "false"}, sd \in {"omit", "int", "real"}, ot \in {"omit", "set"},
                ia \in {"0", "-12", "-12.5"}, fx \in BOOLEAN, st \in 1..Len(StrTable), dt \in Dates}
\* a covering subset: every value of every field, pairs along a diagonal
Pick(v) == (v.bs = "omit") = (v.bshift = "omit") \/ v.str = 1
Expected(v) ==
    [bluescale |-> CASE v.bs = "omit" -> 39625 [] v.bs = "50000" -> 50000 [] OTHER -> 39625,
     blueshift |-> CASE v.bshift = "omit" -> 7 [] v.bshift = "7" -> 7 [] OTHER -> 3,
     bluefuzz |-> CASE v.bfuzz = "omit" -> 1 [] v.bfuzz = "1" -> 1 [] OTHER -> 0,
     forcebold |-> v.fb = "true",
     stdhw |-> CASE v.std = "omit" -> 0 [] v.std = "int" -> 30000000 [] OTHER -> 30500000,
     stdvw |-> CASE v.std = "omit" -> 0 [] v.std = "int" -> 80000000 [] OTHER -> 80250000,
     otherblues |-> IF v.other = "set" THEN <<-250, -240>> ELSE <<>>,
     italic |-> CASE v.ia = "0" -> 0 [] v.ia = "-12" -> -12000000 [] OTHER -> -12500000,
     fixed |-> v.fixed,
     text |-> StrTable[v.str].val,
     date |-> IF v.date = "none" THEN <<>> ELSE <<1991, 9, 13, IF v.date = "short" THEN 0 ELSE 11, IF v.date = "short" THEN 0 ELSE 15,
                                               IF v.date = "short" THEN 0 ELSE 12>>]

VARIABLES stim, phase
vars == <<stim, phase>>
Init == /\ phase = "pick"
        /\ stim = [g |-> [h |-> 1, hs |-> 1, mv |-> 1, k |-> 1, items |-> <<>>], lay |-> DefaultLayout,
                   seac |-> <<>>, hostile |-> <<>>,
                   fl |-> [bs |-> "omit", bshift |-> "omit", bfuzz |-> "omit", fb |-> "omit", std |-> "omit", other |-> "omit",
                           ia |-> "0", fixed |-> FALSE, str |-> 1, date |-> "none"]]

PickGlyph ==
    /\ Family \in {"glyph", "layout"} /\ phase = "pick"
    /\ \E h \in 1..Len(Headers), hs \in 1..Len(HintSets), mv \in 1..3, k \in 1..(IF Tier = "quick" THEN 2 ELSE 4) :
          /\ (Family = "layout" => (h = 2 /\ hs \in {1, 4} /\ mv = 1 /\ k = 1))
          /\ stim' = [stim EXCEPT !.g = [h |-> h, hs |-> hs, mv |-> mv, k |-> k, items |-> <<>>]]
    /\ phase' = "items"
AddItem ==
    /\ phase = "items" /\ Len(stim.g.items) < (IF Tier = "quick" /\ Family = "glyph" THEN 2 ELSE 3)
    /\ \E j \in 1..NItems : stim' = [stim EXCEPT !.g.items = Append(@, Items[j])]
    /\ UNCHANGED phase
\* "layout": the current glyph with every layout
PickLayout ==
    /\ Family = "layout" /\ phase = "items" /\ Len(stim.g.items) = 2
    /\ \E l \in LayoutSet : stim' = [stim EXCEPT !.lay = l]
    /\ phase' = "laid"
PickSeac ==
    /\ Family = "seac" /\ phase = "pick"
    /\ \E sb \in {0, 30}, adx \in {0, 120, -40}, ady \in {0, 150}, e \in {"std", "customseac", "none"}, c \in {"pfa", "pfb"} :
          stim' = [stim EXCEPT !.seac = <<sb, adx, ady>>, !.lay = [DefaultLayout EXCEPT !.enc = e, !.cont = c]]
    /\ phase' = "laid"
GrowHostile ==
    /\ Family = "hostile" /\ Len(stim.hostile) < NHostile
    /\ \E j \in 1..Len(HostileAlpha) : stim' = [stim EXCEPT !.hostile = Append(@, HostileAlpha[j])]
    /\ UNCHANGED phase
PickVariant ==
    /\ Family = "fontlevel" /\ phase = "pick"
    /\ \E bs \in {"omit", "50000", "39625"}, sh \in {"omit", "7", "3"}, fz \in {"omit", "1", "0"},
          fb \in {"omit", "true", "false"}, sd \in {"omit", "int", "real"}, ot \in {"omit", "set"},
          ia \in {"0", "-12", "-12.5"}, fx \in BOOLEAN, st \in 1..Len(StrTable), dt \in Dates, el \in {"lf", "cr", "crlf"},
          ct \in {"pfa", "pfb", "clear"} :
          \* a covering subset instead of the full product: two fields vary freely, the others follow
          /\ (sh = "omit") = (bs = "omit") /\ (fz = "omit") = (fb = "omit") /\ (ot = "set") = fx
          /\ (sd = "omit") = (ia = "0")
          \* other line ends with two of the strings and every date layout; the PFB container with those
          /\ (el # "lf" => st \in {1, 11}) /\ (ct = "pfb") = (el = "cr") /\ (ct = "clear") = (el = "crlf")
          /\ stim' = [stim EXCEPT !.fl = [bs |-> bs, bshift |-> sh, bfuzz |-> fz, fb |-> fb, std |-> sd, other |-> ot,
                                          ia |-> ia, fixed |-> fx, str |-> st, date |-> dt],
                                  !.lay = [DefaultLayout EXCEPT !.eol = el, !.cont = ct]]
    /\ phase' = "laid"
Next == PickGlyph \/ AddItem \/ PickLayout \/ PickSeac \/ GrowHostile \/ PickVariant

\* ---------------------------------------------------------------- T1FontSem
Dec(toks) == T1Run(toks, Subrs)
GlyphRes(r) == [cmds |-> r.cmds, hst |-> r.hst, vst |-> r.vst, wx |-> r.wx, wy |-> r.wy, st |-> r.st]
\* translation of an outline
Shift(cmds, dx, dy) ==
    [j \in 1..Len(cmds) |->
        [op |-> cmds[j].op,
         a |-> [i \in 1..Len(cmds[j].a) |-> IF i % 2 = 1 THEN QAdd(cmds[j].a[i], QI(dx)) ELSE QAdd(cmds[j].a[i], QI(dy))]]]
\* composite: base outline, then the accent's outline moved by (adx, ady); the base's advance
SeacRes(sb, adx, ady) ==
    LET b == Dec(SeacBase)  a == Dec(Accent(sb))
    IN [cmds |-> b.cmds \o Shift(a.cmds, adx, ady), wx |-> b.wx, wy |-> b.wy, st |-> "done"]
SeacRes2(sb, adx, ady) ==
    LET b == Dec(SeacBase)  a == Dec(Accent2(sb))
    IN [cmds |-> b.cmds \o Shift(a.cmds, adx + 15, ady - 20), wx |-> b.wx, wy |-> b.wy, st |-> "done"]

IsGlyphFam == Family \in {"glyph", "layout"}
Ready == (IsGlyphFam /\ ((Family = "glyph" /\ phase = "items" /\ Len(stim.g.items) >= 1) \/ phase = "laid"))
         \/ (Family = "seac" /\ phase = "laid")
         \/ (Family = "hostile" /\ Len(stim.hostile) >= 1)
         \/ (Family = "fontlevel" /\ phase = "laid")

Vector ==
    IF Family = "hostile" THEN
        [fam |-> Family, lay |-> DefaultLayout, subrs |-> HostileSubrs,
         glyphs |-> [name |-> <<".notdef", "A">>, toks |-> <<Notdef, stim.hostile>>],
         expect |-> <<>>]
    ELSE IF Family = "fontlevel" THEN
        [fam |-> Family, lay |-> stim.lay, subrs |-> Subrs,
         glyphs |-> [name |-> <<".notdef", "A">>, toks |-> <<Notdef, BaseA>>],
         expect |-> <<GlyphRes(Dec(Notdef)), GlyphRes(Dec(BaseA))>>,
         variant |-> stim.fl, spelling |-> StrTable[stim.fl.str].sp, fontlevel |-> Expected(stim.fl)]
    ELSE IF Family = "seac" THEN
        [fam |-> Family, lay |-> stim.lay, subrs |-> Subrs,
         glyphs |-> [name |-> <<".notdef", "a", "grave", "acute", "agrave", "aacute">>,
                     toks |-> <<Notdef, SeacBase, Accent(stim.seac[1]), Accent2(stim.seac[1]),
                                Composite(stim.seac[1], stim.seac[2], stim.seac[3]), Composite2(stim.seac[1], stim.seac[2], stim.seac[3])>>],
         expect |-> <<GlyphRes(Dec(Notdef)), GlyphRes(Dec(SeacBase)), GlyphRes(Dec(Accent(stim.seac[1]))),
                      GlyphRes(Dec(Accent2(stim.seac[1]))),
                      SeacRes(stim.seac[1], stim.seac[2], stim.seac[3]), SeacRes2(stim.seac[1], stim.seac[2], stim.seac[3])>>]
    ELSE
        [fam |-> Family, lay |-> stim.lay, subrs |-> Subrs,
         glyphs |-> [name |-> <<".notdef", "A">>, toks |-> <<Notdef, GlyphToks(stim.g)>>],
         expect |-> <<GlyphRes(Dec(Notdef)), GlyphRes(Dec(GlyphToks(stim.g)))>>]

Emit == Ready => CSVWrite("%1$s", <<ToJson(Vector)>>, OutFile)

\* design-level checks on every generated glyph: the machine ends normally, paths are
\* well formed, a flex contributes exactly two curves, hints are offset by the side bearing
Lsbx == CASE stim.g.h = 1 -> 0 [] stim.g.h = 2 -> 40 [] OTHER -> 25
Lsby == IF stim.g.h = 3 THEN -10 ELSE 0
GlyphOK == (IsGlyphFam /\ Ready) =>
    LET r == Dec(GlyphToks(stim.g))
        nflex == Cardinality({j \in 1..Len(stim.g.items) : stim.g.items[j] = "flex"})
        ncurve == Cardinality({j \in 1..Len(r.cmds) : r.cmds[j].op = "C"})
        ncurveItems == Cardinality({j \in 1..Len(stim.g.items) : stim.g.items[j] \in {"rrc", "hvc", "vhc"}})
    IN /\ r.st = "done" /\ PathWellFormed(r)
       /\ ncurve = 2 * nflex + ncurveItems
       /\ r.cmds[1].op = "M" /\ r.cmds[Len(r.cmds)].op = "Z"
       \* hints are positioned relative to the side bearing point
       /\ (stim.g.hs = 2 => r.hst = <<QI(Lsby + 10), QI(Lsby + 30)>>)
       /\ (stim.g.hs = 3 => r.vst = <<QI(Lsbx - 5), QI(Lsbx + 35), QI(Lsbx + 100), QI(Lsbx + 130)>>)
\* totality of the machine on malformed charstrings (those whose numbers stay in TLC's range)
SmallNums == \A j \in 1..Len(stim.hostile) : stim.hostile[j].t = "n" => (stim.hostile[j].v < 100 /\ stim.hostile[j].v > -100)
Total == (Family = "hostile" /\ Ready /\ SmallNums) => T1Run(stim.hostile, HostileSubrs).st \in {"done", "error", "done-noend"}
=============================================================================
