---------------------------- MODULE T1Charstring ----------------------------
(***************************************************************************)
(* The Type 1 BuildChar machine (Adobe Type 1 Font Format, chapter 6 and   *)
(* 8): charstring number encodings and the interpretation of a charstring  *)
(* as outline, advance width and stem hints.                               *)
(*                                                                         *)
(* A charstring is given as a sequence of tokens                           *)
(*     [t |-> "n", v |-> int]      a number (32-bit)                       *)
(*     [t |-> "c", c |-> name]     a command                               *)
(* Subrs is a sequence of such sequences (index 0 first).  The machine is  *)
(* total: every token sequence ends in "done" or "error".                  *)
(*                                                                         *)
(* Numbers on the operand stack are exact rationals [n, d] (div).          *)
(* Result of Run(tokens, subrs):                                           *)
(*   [st, cmds, hst, vst, wx, wy, seac]                                    *)
(*   cmds: <<[op |-> "M"|"L"|"C"|"Z", a |-> <<rationals>>]>> absolute      *)
(*   hst / vst: sequences of rationals, pairs (edge, edge + width),        *)
(*       positions relative to the glyph origin (side bearing added)       *)
(*   seac: <<>> or <<asb, adx, ady, bchar, achar>>                         *)
(*                                                                         *)
(* Readings of the book that differ (DESIGN.md section 10) are avoided by  *)
(* the generators, not decided here.                                       *)
(***************************************************************************)
EXTENDS Integers, Sequences, TLC

\* ------------------------------------------------------------ number formats
\* the proper (shortest) encoding of a 32-bit integer
CanonicalNum(x) ==
    IF x >= -107 /\ x <= 107 THEN <<x + 139>>
    ELSE IF x >= 108 /\ x <= 1131 THEN <<((x - 108) \div 256) + 247, (x - 108) % 256>>
    ELSE IF x >= -1131 /\ x <= -108 THEN <<((0 - x - 108) \div 256) + 251, (0 - x - 108) % 256>>
    ELSE <<255, (x \div 16777216) % 256, (x \div 65536) % 256, (x \div 256) % 256, x % 256>>
\* the five-byte form is legal for every value
LongNum(x) == <<255, (x \div 16777216) % 256, (x \div 65536) % 256, (x \div 256) % 256, x % 256>>
\* value and length of the number starting at b[i]; len = 0 if b[i] is not a number lead byte
DecodeNum(b, i) ==
    LET v == b[i]
    IN IF v >= 32 /\ v <= 246 THEN [len |-> 1, val |-> v - 139]
       ELSE IF v >= 247 /\ v <= 250 THEN
            (IF i + 1 > Len(b) THEN [len |-> -1, val |-> 0] ELSE [len |-> 2, val |-> (v - 247) * 256 + b[i + 1] + 108])
       ELSE IF v >= 251 /\ v <= 254 THEN
            (IF i + 1 > Len(b) THEN [len |-> -1, val |-> 0] ELSE [len |-> 2, val |-> 0 - (v - 251) * 256 - b[i + 1] - 108])
       ELSE IF v = 255 THEN
            (IF i + 4 > Len(b) THEN [len |-> -1, val |-> 0]
             ELSE [len |-> 5, val |-> (IF b[i + 1] >= 128 THEN b[i + 1] - 256 ELSE b[i + 1]) * 16777216
                                     + b[i + 2] * 65536 + b[i + 3] * 256 + b[i + 4]])
       ELSE [len |-> 0, val |-> 0]

OpCode == [hstem |-> <<1>>, vstem |-> <<3>>, vmoveto |-> <<4>>, rlineto |-> <<5>>, hlineto |-> <<6>>,
           vlineto |-> <<7>>, rrcurveto |-> <<8>>, closepath |-> <<9>>, callsubr |-> <<10>>, return |-> <<11>>,
           hsbw |-> <<13>>, endchar |-> <<14>>, rmoveto |-> <<21>>, hmoveto |-> <<22>>, vhcurveto |-> <<30>>,
           hvcurveto |-> <<31>>, dotsection |-> <<12, 0>>, vstem3 |-> <<12, 1>>, hstem3 |-> <<12, 2>>,
           seac |-> <<12, 6>>, sbw |-> <<12, 7>>, div |-> <<12, 12>>, callothersubr |-> <<12, 16>>,
           pop |-> <<12, 17>>, setcurrentpoint |-> <<12, 33>>]
CmdNames == DOMAIN OpCode

\* ------------------------------------------------------------------ rationals
RECURSIVE Gcd(_, _)
Gcd(a, b) == IF b = 0 THEN a ELSE Gcd(b, a % b)
AbsI(a) == IF a < 0 THEN 0 - a ELSE a
Q(n, d) == LET g == Gcd(AbsI(n), AbsI(d))
               s == IF d < 0 THEN -1 ELSE 1
           IN IF n = 0 THEN [n |-> 0, d |-> 1] ELSE [n |-> s * (n \div g), d |-> s * (d \div g)]
QI(n) == [n |-> n, d |-> 1]
QAdd(a, b) == Q(a.n * b.d + b.n * a.d, a.d * b.d)
QDiv(a, b) == Q(a.n * b.d, a.d * b.n)         \* b # 0
QIsInt(a) == a.d = 1
QZero == QI(0)

\* ------------------------------------------------------------------- machine
MaxStack == 24
MaxCall == 10

T1Init(tokens) ==
    [st |-> "run", stack |-> <<>>, ps |-> <<>>, x |-> QZero, y |-> QZero, lsbx |-> QZero, lsby |-> QZero,
     wx |-> QZero, wy |-> QZero, cmds |-> <<>>, hst |-> <<>>, vst |-> <<>>, flex |-> <<>>, inflex |-> FALSE,
     code |-> tokens, pc |-> 1, calls |-> <<>>, seac |-> <<>>, sawsb |-> FALSE]

Err(m) == [m EXCEPT !.st = "error"]
Clr(m) == [m EXCEPT !.stack = <<>>]
\* relative moves, lines and curves on the current point
MoveBy(m, dx, dy) ==
    LET nx == QAdd(m.x, dx)  ny == QAdd(m.y, dy)
    IN IF m.inflex THEN [m EXCEPT !.x = nx, !.y = ny]        \* inside flex: the point moves, the path does not
       ELSE [m EXCEPT !.x = nx, !.y = ny, !.cmds = Append(@, [op |-> "M", a |-> <<nx, ny>>])]
LineBy(m, dx, dy) ==
    LET nx == QAdd(m.x, dx)  ny == QAdd(m.y, dy)
    IN [m EXCEPT !.x = nx, !.y = ny, !.cmds = Append(@, [op |-> "L", a |-> <<nx, ny>>])]
CurveBy(m, d1x, d1y, d2x, d2y, d3x, d3y) ==
    LET ax == QAdd(m.x, d1x)  ay == QAdd(m.y, d1y)
        bx == QAdd(ax, d2x)   by == QAdd(ay, d2y)
        cx == QAdd(bx, d3x)   cy == QAdd(by, d3y)
    IN [m EXCEPT !.x = cx, !.y = cy, !.cmds = Append(@, [op |-> "C", a |-> <<ax, ay, bx, by, cx, cy>>])]

S(m, k) == m.stack[k]                 \* operands are taken from the bottom of the stack
Need(m, k) == Len(m.stack) >= k
Top(m, k) == m.stack[Len(m.stack) - k]

\* one command
Cmd(m, c, subrs) ==
    CASE c = "hsbw" ->
            IF ~Need(m, 2) THEN Err(m)
            ELSE Clr([m EXCEPT !.x = S(m, 1), !.y = QZero, !.lsbx = S(m, 1), !.lsby = QZero,
                               !.wx = S(m, 2), !.wy = QZero, !.sawsb = TRUE])
      [] c = "sbw" ->
            IF ~Need(m, 4) THEN Err(m)
            ELSE Clr([m EXCEPT !.x = S(m, 1), !.y = S(m, 2), !.lsbx = S(m, 1), !.lsby = S(m, 2),
                               !.wx = S(m, 3), !.wy = S(m, 4), !.sawsb = TRUE])
      [] c = "rmoveto" -> IF ~Need(m, 2) THEN Err(m) ELSE Clr(MoveBy(m, S(m, 1), S(m, 2)))
      [] c = "hmoveto" -> IF ~Need(m, 1) THEN Err(m) ELSE Clr(MoveBy(m, S(m, 1), QZero))
      [] c = "vmoveto" -> IF ~Need(m, 1) THEN Err(m) ELSE Clr(MoveBy(m, QZero, S(m, 1)))
      [] c = "rlineto" -> IF ~Need(m, 2) THEN Err(m) ELSE Clr(LineBy(m, S(m, 1), S(m, 2)))
      [] c = "hlineto" -> IF ~Need(m, 1) THEN Err(m) ELSE Clr(LineBy(m, S(m, 1), QZero))
      [] c = "vlineto" -> IF ~Need(m, 1) THEN Err(m) ELSE Clr(LineBy(m, QZero, S(m, 1)))
      [] c = "rrcurveto" ->
            IF ~Need(m, 6) THEN Err(m) ELSE Clr(CurveBy(m, S(m, 1), S(m, 2), S(m, 3), S(m, 4), S(m, 5), S(m, 6)))
      [] c = "hvcurveto" ->
            IF ~Need(m, 4) THEN Err(m) ELSE Clr(CurveBy(m, S(m, 1), QZero, S(m, 2), S(m, 3), QZero, S(m, 4)))
      [] c = "vhcurveto" ->
            IF ~Need(m, 4) THEN Err(m) ELSE Clr(CurveBy(m, QZero, S(m, 1), S(m, 2), S(m, 3), S(m, 4), QZero))
      [] c = "closepath" -> Clr([m EXCEPT !.cmds = Append(@, [op |-> "Z", a |-> <<>>])])
      [] c = "hstem" ->
            IF ~Need(m, 2) THEN Err(m)
            ELSE Clr([m EXCEPT !.hst = @ \o <<QAdd(m.lsby, S(m, 1)), QAdd(QAdd(m.lsby, S(m, 1)), S(m, 2))>>])
      [] c = "vstem" ->
            IF ~Need(m, 2) THEN Err(m)
            ELSE Clr([m EXCEPT !.vst = @ \o <<QAdd(m.lsbx, S(m, 1)), QAdd(QAdd(m.lsbx, S(m, 1)), S(m, 2))>>])
      [] c = "hstem3" ->
            IF ~Need(m, 6) THEN Err(m)
            ELSE Clr([m EXCEPT !.hst = @ \o <<QAdd(m.lsby, S(m, 1)), QAdd(QAdd(m.lsby, S(m, 1)), S(m, 2)),
                                              QAdd(m.lsby, S(m, 3)), QAdd(QAdd(m.lsby, S(m, 3)), S(m, 4)),
                                              QAdd(m.lsby, S(m, 5)), QAdd(QAdd(m.lsby, S(m, 5)), S(m, 6))>>])
      [] c = "vstem3" ->
            IF ~Need(m, 6) THEN Err(m)
            ELSE Clr([m EXCEPT !.vst = @ \o <<QAdd(m.lsbx, S(m, 1)), QAdd(QAdd(m.lsbx, S(m, 1)), S(m, 2)),
                                              QAdd(m.lsbx, S(m, 3)), QAdd(QAdd(m.lsbx, S(m, 3)), S(m, 4)),
                                              QAdd(m.lsbx, S(m, 5)), QAdd(QAdd(m.lsbx, S(m, 5)), S(m, 6))>>])
      [] c = "dotsection" -> Clr(m)
      [] c = "div" ->
            IF ~Need(m, 2) \/ Top(m, 0).n = 0 THEN Err(m)
            ELSE [m EXCEPT !.stack = Append(SubSeq(@, 1, Len(@) - 2), QDiv(Top(m, 1), Top(m, 0)))]
      [] c = "callsubr" ->
            IF ~Need(m, 1) \/ ~QIsInt(Top(m, 0)) THEN Err(m)
            ELSE LET k == Top(m, 0).n
                 IN IF k < 0 \/ k >= Len(subrs) \/ Len(m.calls) >= MaxCall THEN Err(m)
                    ELSE [m EXCEPT !.stack = SubSeq(@, 1, Len(@) - 1),
                                   !.calls = Append(@, [code |-> m.code, pc |-> m.pc]),
                                   !.code = subrs[k + 1], !.pc = 1]
      [] c = "return" ->
            IF m.calls = <<>> THEN Err(m)
            ELSE [m EXCEPT !.code = m.calls[Len(m.calls)].code, !.pc = m.calls[Len(m.calls)].pc,
                           !.calls = SubSeq(@, 1, Len(@) - 1)]
      [] c = "callothersubr" ->
            IF ~Need(m, 2) \/ ~QIsInt(Top(m, 0)) \/ ~QIsInt(Top(m, 1)) THEN Err(m)
            ELSE LET idx == Top(m, 0).n
                     na == Top(m, 1).n
                 IN IF na < 0 \/ Len(m.stack) < na + 2 THEN Err(m)
                    ELSE LET base == SubSeq(m.stack, 1, Len(m.stack) - 2 - na)
                             \* arguments, last pushed first popped: args[1] is the one pushed last
                             args == [j \in 1..na |-> m.stack[Len(m.stack) - 1 - j]]
                             m1 == [m EXCEPT !.stack = base]
                         IN IF idx = 1 THEN (IF na # 0 THEN Err(m) ELSE [m1 EXCEPT !.inflex = TRUE, !.flex = <<>>, !.ps = <<>>])
                            ELSE IF idx = 2 THEN
                                (IF na # 0 \/ ~m.inflex THEN Err(m) ELSE [m1 EXCEPT !.flex = Append(@, <<m.x, m.y>>), !.ps = <<>>])
                            ELSE IF idx = 0 THEN
                                \* end of flex: arguments flex-height, x, y; two curves through the collected
                                \* points; y then x are left for the two pops
                                (IF na # 3 \/ ~m.inflex \/ Len(m.flex) # 7 THEN Err(m)
                                 ELSE LET f == m.flex
                                      IN [m1 EXCEPT !.inflex = FALSE, !.flex = <<>>,
                                                    !.ps = <<args[1], args[2]>>,     \* y (pushed last) on the bottom, x on top
                                                    !.cmds = @ \o <<[op |-> "C", a |-> f[2] \o f[3] \o f[4]],
                                                                    [op |-> "C", a |-> f[5] \o f[6] \o f[7]]>>])
                            ELSE IF idx = 3 THEN
                                \* hint replacement: an interpreter without it answers 3
                                (IF na # 1 THEN Err(m) ELSE [m1 EXCEPT !.ps = <<QI(3)>>])
                            ELSE \* unknown othersubr: arguments are handed over, results are theirs
                                [m1 EXCEPT !.ps = [j \in 1..na |-> args[na + 1 - j]]]
      [] c = "pop" ->
            IF m.ps = <<>> THEN Err(m)
            ELSE [m EXCEPT !.stack = Append(@, m.ps[Len(m.ps)]), !.ps = SubSeq(@, 1, Len(@) - 1)]
      [] c = "setcurrentpoint" ->
            IF ~Need(m, 2) THEN Err(m) ELSE Clr([m EXCEPT !.x = S(m, 1), !.y = S(m, 2)])
      [] c = "seac" ->
            IF ~Need(m, 5) \/ ~QIsInt(S(m, 4)) \/ ~QIsInt(S(m, 5)) THEN Err(m)
            ELSE [m EXCEPT !.st = "done", !.seac = <<S(m, 1), S(m, 2), S(m, 3), S(m, 4), S(m, 5)>>]
      [] c = "endchar" -> [m EXCEPT !.st = "done"]
      [] OTHER -> Err(m)

T1Step(m, subrs) ==
    IF m.pc > Len(m.code) THEN
        \* falling off the end: of a subroutine = missing return, of the charstring = missing endchar
        (IF m.calls = <<>> THEN [m EXCEPT !.st = "done-noend"] ELSE Err(m))
    ELSE LET tok == m.code[m.pc]
             m1 == [m EXCEPT !.pc = @ + 1]
         IN IF tok.t = "n" THEN
                (IF Len(m.stack) >= MaxStack THEN Err(m) ELSE [m1 EXCEPT !.stack = Append(@, QI(tok.v))])
            ELSE Cmd(m1, tok.c, subrs)

RECURSIVE T1RunFrom(_, _, _)
T1RunFrom(m, subrs, fuel) ==
    IF m.st # "run" THEN m
    ELSE IF fuel = 0 THEN Err(m)
    ELSE T1RunFrom(T1Step(m, subrs), subrs, fuel - 1)
T1Run(tokens, subrs) == T1RunFrom(T1Init(tokens), subrs, 2000)

\* the conventional first four Subrs (Type 1 book, chapter 8)
NumT(v) == [t |-> "n", v |-> v]
CmdT(c) == [t |-> "c", c |-> c]
StdSubrs == <<
    <<NumT(3), NumT(0), CmdT("callothersubr"), CmdT("pop"), CmdT("pop"), CmdT("setcurrentpoint"), CmdT("return")>>,
    <<NumT(0), NumT(1), CmdT("callothersubr"), CmdT("return")>>,
    <<NumT(0), NumT(2), CmdT("callothersubr"), CmdT("return")>>,
    <<CmdT("return")>> >>

\* ---- well-formedness of results (checked by TLC on every generated glyph)
\* every curve has six coordinates, every move / line two, and flex yields exactly two curves
PathWellFormed(r) == \A j \in 1..Len(r.cmds) :
    CASE r.cmds[j].op = "C" -> Len(r.cmds[j].a) = 6
      [] r.cmds[j].op \in {"M", "L"} -> Len(r.cmds[j].a) = 2
      [] OTHER -> r.cmds[j].a = <<>>
=============================================================================
