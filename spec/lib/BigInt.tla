------------------------------- MODULE BigInt -------------------------------
(***************************************************************************)
(* Arbitrary precision integers for TLC, whose native integers are 32 bit. *)
(*                                                                         *)
(* A value is [s |-> -1 | 0 | 1, m |-> <<limbs>>]: sign and magnitude, the *)
(* magnitude little-endian in base BB = 2^15 without leading zero limbs,   *)
(* so that limb products and carries stay below 2^31.  Zero is             *)
(* [s |-> 0, m |-> <<>>].  The representation is canonical: two values are *)
(* equal as integers iff they are equal as TLA+ values.                    *)
(*                                                                         *)
(* Used for PostScript's 64-bit integers, for the exact dyadic reals of    *)
(* Dyadic.tla, for charstring numbers (T1Num) and for fixed-point checks.  *)
(* The module is cross-checked against Go's math/big by `vh selftest`.     *)
(***************************************************************************)
EXTENDS Integers, Sequences

LB == 15
BB == 32768

Zero == [s |-> 0, m |-> <<>>]

RECURSIVE MagOfNat(_)
MagOfNat(n) == IF n = 0 THEN <<>> ELSE <<n % BB>> \o MagOfNat(n \div BB)

\* From a native integer, |n| < 2^31 (-2^31 itself is not representable natively).
BI(n) == IF n = 0 THEN Zero
         ELSE IF n > 0 THEN [s |-> 1, m |-> MagOfNat(n)]
         ELSE [s |-> -1, m |-> MagOfNat(0 - n)]

RECURSIVE Trim(_)
Trim(m) == IF m = <<>> THEN <<>>
           ELSE IF m[Len(m)] = 0 THEN Trim(SubSeq(m, 1, Len(m) - 1))
           ELSE m

Limb(m, i) == IF i <= Len(m) THEN m[i] ELSE 0
MaxOf(a, b) == IF a >= b THEN a ELSE b

RECURSIVE MagCmpR(_, _, _)
MagCmpR(a, b, i) == IF i = 0 THEN 0
                    ELSE IF a[i] > b[i] THEN 1
                    ELSE IF a[i] < b[i] THEN -1
                    ELSE MagCmpR(a, b, i - 1)
\* magnitudes are trimmed, so the longer one is larger
MagCmp(a, b) == IF Len(a) > Len(b) THEN 1
                ELSE IF Len(a) < Len(b) THEN -1
                ELSE MagCmpR(a, b, Len(a))

RECURSIVE MagAddR(_, _, _, _)
MagAddR(a, b, i, c) ==
    IF i > Len(a) /\ i > Len(b) THEN (IF c = 0 THEN <<>> ELSE <<c>>)
    ELSE LET x == Limb(a, i) + Limb(b, i) + c
         IN <<x % BB>> \o MagAddR(a, b, i + 1, x \div BB)
MagAdd(a, b) == MagAddR(a, b, 1, 0)

\* requires a >= b
RECURSIVE MagSubR(_, _, _, _)
MagSubR(a, b, i, brw) ==
    IF i > Len(a) THEN <<>>
    ELSE LET x == a[i] - Limb(b, i) - brw
         IN IF x < 0 THEN <<x + BB>> \o MagSubR(a, b, i + 1, 1)
            ELSE <<x>> \o MagSubR(a, b, i + 1, 0)
MagSub(a, b) == Trim(MagSubR(a, b, 1, 0))

\* multiply a magnitude by one limb d, 0 <= d < BB
RECURSIVE MagMulSmallR(_, _, _, _)
MagMulSmallR(a, d, i, c) ==
    IF i > Len(a) THEN (IF c = 0 THEN <<>> ELSE <<c>>)
    ELSE LET x == a[i] * d + c
         IN <<x % BB>> \o MagMulSmallR(a, d, i + 1, x \div BB)
MagMulSmall(a, d) == IF d = 0 THEN <<>> ELSE MagMulSmallR(a, d, 1, 0)

Zeros(k) == [i \in 1..k |-> 0]

RECURSIVE MagMulR(_, _, _)
MagMulR(a, b, j) ==
    IF j > Len(b) THEN <<>>
    ELSE MagAdd(IF b[j] = 0 THEN <<>> ELSE Zeros(j - 1) \o MagMulSmall(a, b[j]),
                MagMulR(a, b, j + 1))
MagMul(a, b) == IF a = <<>> \/ b = <<>> THEN <<>> ELSE Trim(MagMulR(a, b, 1))

RECURSIVE Pow2(_)
Pow2(k) == IF k = 0 THEN 1 ELSE 2 * Pow2(k - 1)      \* k <= 30

\* shift left by k bits
MagShl(a, k) == IF a = <<>> THEN <<>>
                ELSE Zeros(k \div LB) \o MagMulSmall(a, Pow2(k % LB))

\* shift right by r bits, 0 <= r < LB
MagShrSmall(a, r) ==
    IF r = 0 THEN a
    ELSE LET p == Pow2(r)  q == Pow2(LB - r)
         IN Trim([i \in 1..Len(a) |-> (a[i] \div p) + (Limb(a, i + 1) % p) * q])
\* shift right by k bits (floor of magnitude)
MagShr(a, k) == LET q == k \div LB
                IN IF q >= Len(a) THEN <<>>
                   ELSE MagShrSmall(SubSeq(a, q + 1, Len(a)), k % LB)

RECURSIVE NatBitLen(_)
NatBitLen(n) == IF n = 0 THEN 0 ELSE 1 + NatBitLen(n \div 2)
MagBitLen(a) == IF a = <<>> THEN 0 ELSE LB * (Len(a) - 1) + NatBitLen(a[Len(a)])

\* number of trailing zero bits of a non-zero magnitude
RECURSIVE NatTz(_)
NatTz(n) == IF n % 2 = 1 THEN 0 ELSE 1 + NatTz(n \div 2)
RECURSIVE MagTzR(_, _)
MagTzR(a, i) == IF a[i] = 0 THEN LB + MagTzR(a, i + 1) ELSE NatTz(a[i])
MagTz(a) == IF a = <<>> THEN 0 ELSE MagTzR(a, 1)

MagIsOdd(a) == a # <<>> /\ a[1] % 2 = 1

Mk(s, m) == IF m = <<>> THEN Zero ELSE [s |-> s, m |-> m]

Neg(x) == [s |-> 0 - x.s, m |-> x.m]
Abs(x) == [s |-> (IF x.s = 0 THEN 0 ELSE 1), m |-> x.m]

Add(x, y) ==
    IF x.s = 0 THEN y
    ELSE IF y.s = 0 THEN x
    ELSE IF x.s = y.s THEN [s |-> x.s, m |-> MagAdd(x.m, y.m)]
    ELSE LET c == MagCmp(x.m, y.m)
         IN IF c = 0 THEN Zero
            ELSE IF c > 0 THEN [s |-> x.s, m |-> MagSub(x.m, y.m)]
            ELSE [s |-> y.s, m |-> MagSub(y.m, x.m)]

Sub(x, y) == Add(x, Neg(y))

Mul(x, y) == IF x.s = 0 \/ y.s = 0 THEN Zero
             ELSE [s |-> x.s * y.s, m |-> MagMul(x.m, y.m)]

\* -1, 0, 1
Cmp(x, y) ==
    IF x.s # y.s THEN (IF x.s < y.s THEN -1 ELSE 1)
    ELSE IF x.s = 0 THEN 0
    ELSE x.s * MagCmp(x.m, y.m)

Lt(x, y) == Cmp(x, y) < 0
Le(x, y) == Cmp(x, y) <= 0
Gt(x, y) == Cmp(x, y) > 0
Ge(x, y) == Cmp(x, y) >= 0

Shl(x, k) == Mk(x.s, MagShl(x.m, k))
TwoPow(k) == [s |-> 1, m |-> MagShl(<<1>>, k)]
BitLen(x) == MagBitLen(x.m)

\* floor division by 2^k (rounds toward minus infinity)
FloorShr(x, k) ==
    IF x.s >= 0 THEN Mk(x.s, MagShr(x.m, k))
    ELSE LET q == MagShr(x.m, k)
         IN IF MagShl(q, k) = x.m THEN Mk(-1, q) ELSE Mk(-1, MagAdd(q, <<1>>))

One == BI(1)
MinusOne == BI(-1)

MaxInt64 == Sub(TwoPow(63), One)
MinInt64 == Neg(TwoPow(63))
InInt64(x) == Le(MinInt64, x) /\ Le(x, MaxInt64)
MaxInt32 == Sub(TwoPow(31), One)
MinInt32 == Neg(TwoPow(31))
InInt32(x) == Le(MinInt32, x) /\ Le(x, MaxInt32)

\* to a native integer; only for |x| < 2^31
RECURSIVE MagToNat(_, _)
MagToNat(m, i) == IF i > Len(m) THEN 0 ELSE m[i] + BB * MagToNat(m, i + 1)
ToNat(x) == x.s * MagToNat(x.m, 1)
FitsNative(x) == MagBitLen(x.m) <= 30

(***************************************************************************)
(* 64-bit two's complement bit operations (PostScript and / or / not on    *)
(* integers).  U64(x) = x mod 2^64 as a magnitude of exactly 5 limbs.      *)
(***************************************************************************)
Pad5(m) == [i \in 1..5 |-> Limb(m, i)]
U64(x) == IF x.s >= 0 THEN Pad5(x.m) ELSE Pad5(MagSub(MagShl(<<1>>, 64), x.m))
FromU64(u) == LET m == Trim(u)
              IN IF MagCmp(m, MagShl(<<1>>, 63)) >= 0
                 THEN Mk(-1, MagSub(MagShl(<<1>>, 64), m))
                 ELSE Mk(1, m)

RECURSIVE NatAnd(_, _)
NatAnd(a, b) == IF a = 0 \/ b = 0 THEN 0
                ELSE (a % 2) * (b % 2) + 2 * NatAnd(a \div 2, b \div 2)
RECURSIVE NatOr(_, _)
NatOr(a, b) == IF a = 0 THEN b ELSE IF b = 0 THEN a
               ELSE (IF a % 2 = 1 \/ b % 2 = 1 THEN 1 ELSE 0) + 2 * NatOr(a \div 2, b \div 2)

And64(x, y) == LET a == U64(x)  b == U64(y)
               IN FromU64([i \in 1..5 |-> NatAnd(a[i], b[i])])
Or64(x, y) == LET a == U64(x)  b == U64(y)
              IN FromU64([i \in 1..5 |-> NatOr(a[i], b[i])])
Not64(x) == Sub(Neg(x), One)

=============================================================================
