------------------------------- MODULE LibTest -------------------------------
(***************************************************************************)
(* Self-test of BigInt and Dyadic.  Two parts:                             *)
(*  (1) ASSUMEs that compare BigInt with TLC's native arithmetic on small  *)
(*      values (every pair of -45..45 and a few products near 2^30);       *)
(*  (2) one vector per pair of a boundary pool, emitted as JSON, which     *)
(*      `vh selftest` re-computes with Go's math/big.                      *)
(***************************************************************************)
EXTENDS Dyadic, TLC, Json, CSV

Small == -45..45
ASSUME \A a \in Small, b \in Small :
          /\ ToNat(Add(BI(a), BI(b))) = a + b
          /\ ToNat(Sub(BI(a), BI(b))) = a - b
          /\ ToNat(Mul(BI(a), BI(b))) = a * b
          /\ Cmp(BI(a), BI(b)) = (IF a < b THEN -1 ELSE IF a = b THEN 0 ELSE 1)
          /\ BI(a + b) = Add(BI(a), BI(b))
Mid == {32767, 32768, 32769, 46340, 1000003, 1073741823, -32768, -46341, -1000003}
ASSUME \A a \in Mid, b \in Small :
          /\ ToNat(Add(BI(a), BI(b))) = a + b
          /\ ToNat(Sub(BI(b), BI(a))) = b - a
          /\ (a < 40000 /\ a > -47000) => ToNat(Mul(BI(a), BI(b))) = a * b
ASSUME \A k \in 0..30 : ToNat(TwoPow(k)) = Pow2(k) /\ BitLen(TwoPow(k)) = k + 1
ASSUME \A a \in 1..300, k \in 0..9 : /\ ToNat(Shl(BI(a), k)) = a * Pow2(k)
                                      /\ ToNat(FloorShr(BI(a), k)) = a \div Pow2(k)
                                      /\ ToNat(FloorShr(BI(0 - a), k)) = (0 - a) \div Pow2(k)

P(k) == TwoPow(k)
Pool == << Zero, BI(1), BI(-1), BI(2), BI(3), BI(-7), BI(255), BI(256), BI(32767), BI(32768),
           BI(-32769), BI(65535), BI(65536), BI(1073741824), Sub(P(31), One), P(31), Neg(P(31)),
           Add(P(31), One), Sub(P(45), One), P(53), Neg(P(53)), Add(P(53), One), Sub(Neg(P(53)), One),
           Add(P(53), BI(3)), P(62), Sub(MaxInt64, One), MaxInt64, MinInt64, Add(MinInt64, One),
           BI(1183615869), Mul(BI(1000003), BI(-1000003)), Add(P(54), BI(2)), Add(P(54), BI(6)) >>

VARIABLE i, j
Init == i \in 1..Len(Pool) /\ j \in 1..Len(Pool)
Next == UNCHANGED <<i, j>>
Vec == LET a == Pool[i]  b == Pool[j]
       IN [a |-> a, b |-> b, add |-> Add(a, b), sub |-> Sub(a, b), mul |-> Mul(a, b),
           cmp |-> Cmp(a, b), and |-> And64(a, b), or |-> Or64(a, b), not |-> Not64(a),
           in64 |-> InInt64(Add(a, b)), bl |-> BitLen(a),
           rn |-> RN53([n |-> Mul(a, b), e |-> -3]),
           rnadd |-> DAdd(DOfInt(a), [n |-> b, e |-> -70]),
           rnmul |-> DMul(DOfInt(a), DOfInt(b)),
           dcmp |-> DCmp([n |-> a, e |-> 2], [n |-> b, e |-> 5]),
           shr |-> FloorShr(a, 7), shl |-> Shl(b, 17)]
Emit == CSVWrite("%1$s", <<ToJson(Vec)>>, "libtest.ndjson")
=============================================================================
