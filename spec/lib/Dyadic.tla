------------------------------- MODULE Dyadic -------------------------------
(***************************************************************************)
(* Exact dyadic rationals n * 2^e (n a BigInt) and IEEE-754 binary64       *)
(* rounding RN53 (round to nearest, ties to even, 53 significant bits).    *)
(* PostScript reals in the machine model are dyadics on which every        *)
(* operation is followed by RN53, which is what a correctly rounded        *)
(* float64 implementation computes (exponent range ignored: the bounded    *)
(* programs never leave it).                                               *)
(***************************************************************************)
EXTENDS BigInt

DZero == [n |-> Zero, e |-> 0]

\* canonical form: n odd, or zero with e = 0
DNorm(x) == IF x.n.s = 0 THEN DZero
            ELSE LET tz == MagTz(x.n.m)
                 IN [n |-> Mk(x.n.s, MagShr(x.n.m, tz)), e |-> x.e + tz]

RN53(x) ==
    LET bl == BitLen(x.n)
    IN IF bl <= 53 THEN DNorm(x)
       ELSE LET k == bl - 53
                q == MagShr(x.n.m, k)
                rem == MagSub(x.n.m, MagShl(q, k))
                half == MagShl(<<1>>, k - 1)
                c == MagCmp(rem, half)
                q2 == IF c > 0 \/ (c = 0 /\ MagIsOdd(q)) THEN MagAdd(q, <<1>>) ELSE q
            IN DNorm([n |-> Mk(x.n.s, q2), e |-> x.e + k])

MinE(a, b) == IF a <= b THEN a ELSE b

DAddX(x, y) == LET e == MinE(x.e, y.e)
               IN [n |-> Add(Shl(x.n, x.e - e), Shl(y.n, y.e - e)), e |-> e]
DNeg(x) == [n |-> Neg(x.n), e |-> x.e]
DMulX(x, y) == [n |-> Mul(x.n, y.n), e |-> x.e + y.e]
DCmp(x, y) == LET e == MinE(x.e, y.e)
              IN Cmp(Shl(x.n, x.e - e), Shl(y.n, y.e - e))

\* the value of a 64-bit integer converted to a real
DOfInt(i) == RN53([n |-> i, e |-> 0])
\* exact (unrounded) embedding of an integer
DExact(i) == DNorm([n |-> i, e |-> 0])

DAdd(x, y) == RN53(DAddX(x, y))
DSub(x, y) == RN53(DAddX(x, DNeg(y)))
DMul(x, y) == RN53(DMulX(x, y))
DAbs(x) == [n |-> Abs(x.n), e |-> x.e]

\* is the dyadic an integer, and which
DIsInt(x) == x.e >= 0
DToInt(x) == Shl(x.n, x.e)

=============================================================================
