---------------------------- MODULE MC_FontQuery ----------------------------
(***************************************************************************)
(* Generating configurations for C19.  A vector is a font F together with  *)
(* the answers FontQuery prescribes for every query:                       *)
(*   num, lists (all admissible glyph lists), per query name the glyph box,*)
(*   PDF glyph box, PDF width (type1) and PDF width (afm), the font boxes, *)
(*   and the key set of the width map.                                     *)
(* Families                                                                *)
(*   "list"  every glyph set over the five pool names x every encoding of  *)
(*           length <= MaxEnc over the pool, ".notdef" and a name that is  *)
(*           no glyph (absent, partial, naming missing glyphs, and         *)
(*           non-injective ones, where the relation form matters);         *)
(*   "box"   one glyph x every command list of length <= MaxCmds over a    *)
(*           3 x 3 grid of end points (curves carry control points outside *)
(*           the grid) x every matrix (MaxCmds <= 2; eight matrices for    *)
(*           longer lists);                                                *)
(*   "fbox"  three glyphs, each one of seven archetypes (empty, closepath  *)
(*           only, a point at the origin, a point elsewhere, ...) x every  *)
(*           matrix: unions, zero boxes, missing .notdef;                  *)
(*   "sim"   seeded random fonts mixing all of it.                         *)
(***************************************************************************)
EXTENDS FontQuery, TLC, Json, CSV

CONSTANTS Family, OutFile, MaxEnc, MaxCmds

Pool == {".notdef", "a", "ab", "b", "c"}
EncNames == Pool \cup {"zz"}
QueryNames == Pool \cup {"zz"}
A2s == {2, -2, 1, 2000}          \* a, d = 0.001, -0.001, 0.0005, 1
Ts == {0, 10}
Mats == [a2 : A2s, d2 : A2s, tx : Ts, ty : Ts]
Mat0 == [a2 |-> 2, d2 |-> 2, tx |-> 0, ty |-> 0]
\* for the longest command lists: every scale once in each position, both translations
MatsSmall == {[a2 |-> p[1], d2 |-> p[2], tx |-> t, ty |-> 10 - t] : p \in {<<2, -2>>, <<-2, 1>>, <<1, 2000>>, <<2000, 2>>}, t \in Ts}
Grid == {-3, 0, 2}
WidthsQ == {0, 250, 1000, -50, 600}

Cmd(op, x, y) == IF op = "c" THEN [op |-> "c", a |-> <<x - 7, y + 9, x + 8, y - 6, x, y>>]
                 ELSE IF op = "z" THEN [op |-> "z", a |-> <<0, 0, 0, 0, 0, 0>>]
                 ELSE [op |-> op, a |-> <<x, y, 0, 0, 0, 0>>]
CmdAlpha == {Cmd(op, x, y) : op \in {"m", "l", "c"}, x \in Grid, y \in Grid} \cup {Cmd("z", 0, 0)}

Arche == << <<>>,
            <<Cmd("z", 0, 0)>>,
            <<Cmd("m", 0, 0)>>,
            <<Cmd("m", 2, -3)>>,
            <<Cmd("m", -3, 2), Cmd("l", 0, 0), Cmd("z", 0, 0)>>,
            <<Cmd("m", 5, 5), Cmd("c", 2, 2)>>,
            <<Cmd("m", -3, -3), Cmd("l", -3, -3)>> >>

VARIABLES F, phase
vars == <<F, phase>>
F0 == [glyphs |-> <<>>, enc |-> <<>>, mat |-> Mat0]
Init == F = F0 /\ phase = "start"

GlyphFor(n) == [name |-> n, w |-> 100 * FqRank(n) + 1, cmds |-> <<Cmd("m", FqRank(n), 0 - FqRank(n))>>]

\* ---- family list
ListPick == /\ Family = "list" /\ phase = "start"
            /\ \E S \in SUBSET Pool :
                  F' = [F EXCEPT !.glyphs = SetToSortSeq({GlyphFor(n) : n \in S}, LAMBDA x, y : FqRank(x.name) > FqRank(y.name))]
            /\ phase' = "enc"
ListGrow == /\ Family = "list" /\ phase = "enc" /\ Len(F.enc) < MaxEnc
            /\ \E n \in EncNames : F' = [F EXCEPT !.enc = Append(@, n)]
            /\ UNCHANGED phase

\* ---- family box
BoxPick == /\ Family = "box" /\ phase = "start"
           /\ \E m \in (IF MaxCmds <= 2 THEN Mats ELSE MatsSmall) :
                 F' = [F EXCEPT !.mat = m, !.glyphs = <<[name |-> "a", w |-> 600, cmds |-> <<>>]>>]
           /\ phase' = "cmds"
BoxGrow == /\ Family = "box" /\ phase = "cmds" /\ Len(F.glyphs[1].cmds) < MaxCmds
           /\ \E c \in CmdAlpha : F' = [F EXCEPT !.glyphs[1].cmds = Append(@, c)]
           /\ UNCHANGED phase

\* ---- family fbox
FBoxPick == /\ Family = "fbox" /\ phase = "start"
            /\ \E m \in Mats, nd \in BOOLEAN :
                  F' = [glyphs |-> <<[name |-> (IF nd THEN ".notdef" ELSE "a"), w |-> 250, cmds |-> <<>>],
                                     [name |-> "b", w |-> 1000, cmds |-> <<>>],
                                     [name |-> "c", w |-> -50, cmds |-> <<>>]>>,
                        enc |-> <<"c", "zz", "b">>, mat |-> m]
            /\ phase' = "arch"
FBoxArch == /\ Family = "fbox" /\ phase = "arch"
            /\ \E i \in 1..7, j \in 1..7, k \in 1..7 :
                  F' = [F EXCEPT !.glyphs[1].cmds = Arche[i], !.glyphs[2].cmds = Arche[j], !.glyphs[3].cmds = Arche[k]]
            /\ phase' = "done"

\* ---- family biglist (simulation): glyph sets of up to 20 names (upper and lower case), so that
\* lists are long enough for the sorting algorithm to matter, with an encoding of up to six entries
BigSeq == <<".notdef", "Ab", "B", "a", "ab", "b", "c", "d01", "d02", "d03", "d04", "d05", "d06", "d07", "d08", "d09",
            "d10", "d11", "d12", "d13">>
RECURSIVE Pow2(_)
Pow2(k) == IF k = 0 THEN 1 ELSE 2 * Pow2(k - 1)
BigStart == /\ Family = "biglist" /\ phase = "start"
            /\ \E r \in {RandomElement(0..(Pow2(20) - 1))}, ne \in {RandomElement(0..6)}, m \in {RandomElement(Mats)},
                  e1 \in {RandomElement(1..20)}, e2 \in {RandomElement(1..20)}, e3 \in {RandomElement(1..20)},
                  e4 \in {RandomElement(1..20)}, e5 \in {RandomElement(1..20)}, e6 \in {RandomElement(1..20)} :
                  LET S == {BigSeq[i] : i \in {j \in 1..20 : (r \div Pow2(j - 1)) % 2 = 1 \/ j % 3 = 0}}
                  IN F' = [glyphs |-> SetToSortSeq({[name |-> n, w |-> 0, cmds |-> <<>>] : n \in S},
                                                   LAMBDA x, y : FqRank(x.name) < FqRank(y.name)),
                           enc |-> SubSeq(<<BigSeq[e1], BigSeq[e2], BigSeq[e3], BigSeq[e4], BigSeq[e5], BigSeq[e6]>>, 1, ne),
                           mat |-> m]
            /\ phase' = "done"

\* ---- family sim: one draw per step
SimStart == /\ Family = "sim" /\ phase = "start"
            /\ \E S \in {RandomElement(SUBSET Pool)}, m \in {RandomElement(Mats)}, ne \in {RandomElement(0..4)},
                  e1 \in {RandomElement(EncNames)}, e2 \in {RandomElement(EncNames)}, e3 \in {RandomElement(EncNames)},
                  e4 \in {RandomElement(EncNames)} :
                  F' = [glyphs |-> SetToSortSeq({[name |-> n, w |-> 0, cmds |-> <<>>] : n \in S},
                                                LAMBDA x, y : FqRank(x.name) < FqRank(y.name)),
                        enc |-> SubSeq(<<e1, e2, e3, e4>>, 1, ne), mat |-> m]
            /\ phase' = "g1"
SimIdx == CASE phase = "g1" -> 1 [] phase = "g2" -> 2 [] phase = "g3" -> 3 [] phase = "g4" -> 4 [] phase = "g5" -> 5 [] OTHER -> 0
SimNext(i) == IF i >= Len(F.glyphs) THEN "done" ELSE <<"g1", "g2", "g3", "g4", "g5">>[i + 1]
SimGlyph == /\ Family = "sim" /\ SimIdx > 0
            /\ IF SimIdx > Len(F.glyphs) THEN F' = F /\ phase' = "done"
               ELSE \E w \in {RandomElement(WidthsQ)}, nc \in {RandomElement(0..3)}, c1 \in {RandomElement(CmdAlpha)},
                       c2 \in {RandomElement(CmdAlpha)}, c3 \in {RandomElement(CmdAlpha)}, ar \in {RandomElement(0..8)} :
                       /\ F' = [F EXCEPT !.glyphs[SimIdx].w = w,
                                         !.glyphs[SimIdx].cmds = IF ar >= 1 /\ ar <= 7 /\ nc = 0 THEN Arche[ar]
                                                                 ELSE SubSeq(<<c1, c2, c3>>, 1, nc)]
                       /\ phase' = SimNext(SimIdx)

Next == ListPick \/ ListGrow \/ BoxPick \/ BoxGrow \/ FBoxPick \/ FBoxArch \/ SimStart \/ SimGlyph \/ BigStart

Ready == CASE Family = "list" -> phase = "enc"
           [] Family = "box" -> phase = "cmds"
           [] OTHER -> phase = "done"

Answers ==
  [font |-> F,
   num |-> FqNumGlyphs(F),
   lists |-> FqGlyphLists(F),
   q |-> [n \in QueryNames |-> [box |-> FqGlyphBox(F, n), boxpdf |-> FqGlyphBoxPDF(F, n), w |-> FqWidthPDF(F, n),
                                 afmw |-> FqAfmWidthPDF(F, n)]],
   fbox |-> FqFontBox(F), fboxpdf |-> FqFontBoxPDF(F), afmfbox |-> FqAfmFontBoxPDF(F),
   wkeys |-> {g.name : g \in FqRange(F.glyphs)}]

Emit == Ready => CSVWrite("%1$s", <<ToJson(Answers)>>, OutFile)

(***************************************************************************)
(* Design-level checks of the definitions themselves.                      *)
(***************************************************************************)
Perms(S) == {p \in [1..Cardinality(S) -> S] : \A i, j \in 1..Cardinality(S) : i # j => p[i] # p[j]}
Injective == \A i, j \in 1..Len(F.enc) : (i # j /\ F.enc[i] # ".notdef") => F.enc[i] # F.enc[j]
Inv ==
  Ready =>
    /\ FqGlyphLists(F) # {}
    /\ \A L \in FqGlyphLists(F) : FqIsGlyphList(F, L)
    \* the relation and the construction agree (checked where the permutations are few)
    /\ (FqNumGlyphs(F) <= 4 => {L \in Perms(FqListNames(F)) : FqIsGlyphList(F, L)} = FqGlyphLists(F))
    /\ (Injective => Cardinality(FqGlyphLists(F)) = 1)
    /\ \A n \in DOMAIN FqWidthsMap(F) : FqWidthsMap(F)[n] = FqWidthPDF(F, n)
    /\ \A n \in QueryNames : LET b == FqGlyphBox(F, n) IN b[1] <= b[3] /\ b[2] <= b[4]
    /\ \A g \in FqRange(F.glyphs) : FqGlyphBox(F, g.name) # FqZero =>
          LET b == FqGlyphBox(F, g.name) fb == FqFontBox(F)
          IN fb[1] <= b[1] /\ fb[2] <= b[2] /\ fb[3] >= b[3] /\ fb[4] >= b[4]
=============================================================================
