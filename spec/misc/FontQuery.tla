----------------------------- MODULE FontQuery -----------------------------
(***************************************************************************)
(* Definitions of the query methods of a font / metrics value (C19) over   *)
(* small integer fonts.                                                    *)
(*                                                                         *)
(* A font F is                                                             *)
(*   [glyphs : sequence of [name, w, cmds],   names pairwise different     *)
(*    enc    : sequence of names, enc[i] is the name at code i-1           *)
(*             (<<>> = no encoding; ".notdef" = code not assigned; names   *)
(*             that are not glyphs of the font may occur),                 *)
(*    mat    : [a2, d2, tx, ty]]  the axis-aligned font matrix             *)
(*             [a 0 0 d tx ty] with a = a2/2000, d = d2/2000.              *)
(* A command is [op, a] with op in "m" (moveto) "l" (lineto) "c" (curveto) *)
(* "z" (closepath) and a = six integers (x y for m and l in a[1], a[2];    *)
(* control points a[1..4] and end point a[5], a[6] for c).                 *)
(*                                                                         *)
(* PDF quantities are the glyph-space quantities mapped through the font   *)
(* matrix times 1000.  To stay in the integers they are given in HALF      *)
(* units:  x_pdf * 2 = a2 * x + 2000 * tx.                                 *)
(*                                                                         *)
(* "Alphabetically" is the bytewise order of the names; TLC cannot look    *)
(* into strings, so the order of the finite name pool is a table (the      *)
(* harness checks the table against Go's string order).                    *)
(***************************************************************************)
EXTENDS Integers, Sequences, FiniteSets, SequencesExt

FqNameOrder == <<".notdef", "Ab", "B", "a", "ab", "b", "c", "d01", "d02", "d03", "d04", "d05", "d06", "d07", "d08", "d09",
                 "d10", "d11", "d12", "d13", "d14", "zz">>
FqRank(n) == CHOOSE i \in 1..Len(FqNameOrder) : FqNameOrder[i] = n
FqRange(s) == {s[i] : i \in 1..Len(s)}

FqHas(F, n) == \E g \in FqRange(F.glyphs) : g.name = n
FqGlyph(F, n) == CHOOSE g \in FqRange(F.glyphs) : g.name = n

(***************************************************************************)
(* Glyph list and glyph count.                                             *)
(***************************************************************************)
\* the names of the list: every glyph, and .notdef whether or not it is one
FqListNames(F) == {g.name : g \in FqRange(F.glyphs)} \cup {".notdef"}
FqNumGlyphs(F) == Cardinality(FqListNames(F))

FqCodesOf(F, n) == {i - 1 : i \in {j \in 1..Len(F.enc) : F.enc[j] = n}}
FqEncoded(F) == {n \in FqListNames(F) \ {".notdef"} : FqCodesOf(F, n) # {}}
FqRest(F) == FqListNames(F) \ (FqEncoded(F) \cup {".notdef"})

\* The relation of the property: L contains each glyph exactly once, starts
\* with .notdef, continues with the encoded glyphs ordered by a code of
\* theirs, and ends with the remaining glyphs in the order of their names.
FqIsGlyphList(F, L) ==
  LET ne == Cardinality(FqEncoded(F)) IN
  /\ Len(L) = FqNumGlyphs(F) /\ FqRange(L) = FqListNames(F)
  /\ L[1] = ".notdef"
  /\ \A i \in 2..(ne + 1) : L[i] \in FqEncoded(F)
  /\ \E key \in [FqEncoded(F) -> 0..(Len(F.enc) - 1)] :
        /\ \A n \in FqEncoded(F) : key[n] \in FqCodesOf(F, n)
        /\ \A i, j \in 2..(ne + 1) : i < j => key[L[i]] < key[L[j]]
  /\ \A i, j \in (ne + 2)..Len(L) : i < j => FqRank(L[i]) < FqRank(L[j])

\* The same relation, constructively: one list per choice of a code for
\* every encoded glyph (a single list when the encoding is injective).
FqKeyChoices(F) == {key \in [FqEncoded(F) -> 0..(Len(F.enc) - 1)] : \A n \in FqEncoded(F) : key[n] \in FqCodesOf(F, n)}
FqListFor(F, key) ==
  <<".notdef">> \o SetToSortSeq(FqEncoded(F), LAMBDA x, y : key[x] < key[y])
                \o SetToSortSeq(FqRest(F), LAMBDA x, y : FqRank(x) < FqRank(y))
FqGlyphLists(F) == {FqListFor(F, key) : key \in FqKeyChoices(F)}

(***************************************************************************)
(* Boxes.                                                                  *)
(***************************************************************************)
FqZero == <<0, 0, 0, 0>>
FqMinOf(S) == CHOOSE x \in S : \A y \in S : x <= y
FqMaxOf(S) == CHOOSE x \in S : \A y \in S : x >= y

\* end points of the move, line and curve commands (not the control points)
FqEndPoints(cmds) ==
  {<<cmds[i].a[1], cmds[i].a[2]>> : i \in {j \in 1..Len(cmds) : cmds[j].op \in {"m", "l"}}}
  \cup {<<cmds[i].a[5], cmds[i].a[6]>> : i \in {j \in 1..Len(cmds) : cmds[j].op = "c"}}

\* smallest rectangle containing a set of points; the zero rectangle for none
FqBoxOf(P) == IF P = {} THEN FqZero
              ELSE <<FqMinOf({p[1] : p \in P}), FqMinOf({p[2] : p \in P}),
                     FqMaxOf({p[1] : p \in P}), FqMaxOf({p[2] : p \in P})>>

FqMapPoint(F, p) == <<F.mat.a2 * p[1] + 2000 * F.mat.tx, F.mat.d2 * p[2] + 2000 * F.mat.ty>>   \* half units

FqGlyphBox(F, n) == IF FqHas(F, n) THEN FqBoxOf(FqEndPoints(FqGlyph(F, n).cmds)) ELSE FqZero
FqGlyphBoxPDF(F, n) == IF FqHas(F, n) THEN FqBoxOf({FqMapPoint(F, p) : p \in FqEndPoints(FqGlyph(F, n).cmds)})
                       ELSE FqZero

\* union of the non-empty boxes of a set of boxes.  "Non-empty" is read on
\* the box value: the zero rectangle (what a missing or empty glyph has) is
\* skipped; so is the box of a glyph whose only points are at the origin,
\* which cannot be told from it.
FqUnion(B) == LET nz == B \ {FqZero} IN
              IF nz = {} THEN FqZero
              ELSE <<FqMinOf({b[1] : b \in nz}), FqMinOf({b[2] : b \in nz}),
                     FqMaxOf({b[3] : b \in nz}), FqMaxOf({b[4] : b \in nz})>>
FqFontBox(F) == FqUnion({FqGlyphBox(F, g.name) : g \in FqRange(F.glyphs)})
FqFontBoxPDF(F) == FqUnion({FqGlyphBoxPDF(F, g.name) : g \in FqRange(F.glyphs)})

(***************************************************************************)
(* Widths: advance width x horizontal scale of the font matrix x 1000 (in  *)
(* half units: w * a2); unknown names fall back to .notdef, or to 0.       *)
(***************************************************************************)
FqWidthPDF(F, n) == IF FqHas(F, n) THEN FqGlyph(F, n).w * F.mat.a2
                    ELSE IF FqHas(F, ".notdef") THEN FqGlyph(F, ".notdef").w * F.mat.a2
                    ELSE 0
FqWidthsMap(F) == [n \in {g.name : g \in FqRange(F.glyphs)} |-> FqGlyph(F, n).w * F.mat.a2]

(***************************************************************************)
(* The metrics value (AFM) that describes the same font: per glyph its     *)
(* width and box in PDF glyph space units (the AFM convention is a font    *)
(* matrix of 1/1000, so the numbers are the glyph-space numbers).          *)
(***************************************************************************)
FqAfmBox(F, n) == FqGlyphBox(F, n)
FqAfmFontBoxPDF(F) == FqFontBox(F)
FqAfmWidthPDF(F, n) == IF FqHas(F, n) THEN FqGlyph(F, n).w
                       ELSE IF FqHas(F, ".notdef") THEN FqGlyph(F, ".notdef").w ELSE 0
=============================================================================
