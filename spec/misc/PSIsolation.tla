----------------------------- MODULE PSIsolation -----------------------------
(***************************************************************************)
(* Isolation of interpreter instances (C18).  The package owns immutable   *)
(* templates (the CIDInit procedure table, the StandardEncoding name       *)
(* table, the error name list); New(i) builds instance i: fresh system /   *)
(* user / error dictionaries, a fresh StandardEncoding array filled from   *)
(* the name table, and a CLONE of the CIDInit table.  A program running in *)
(* an instance may overwrite anything it can reach.  Property: the         *)
(* templates never change, hence a fresh instance always equals the        *)
(* baseline.  With Share = TRUE (New hands out the CIDInit template itself *)
(* instead of a clone) TLC finds the violation: the model is not vacuous.  *)
(*                                                                         *)
(* Family "hist" enumerates hostile histories for the harness.  The action *)
(* "mutate-all-reachable" is the closure of Hack over every slot: the      *)
(* harness overwrites every container reachable from the instance and      *)
(* every value an operator hands out (matrix, ...), and the probe renders  *)
(* everything a fresh instance can reach.  "library-calls" is not a program *)
(* at all: every reader and writer of the library is used once (package-    *)
(* level state such as default options or the standard encoding table must  *)
(* not be written by any of them).                                           *)
(***************************************************************************)
EXTENDS Integers, Sequences, TLC, Json, CSV

CONSTANTS Share, Family, MaxHist, OutFile

Slots == {"add", "begincmap", "enc65", "typecheck"}     \* one representative entry per container
Home(sl) == CASE sl = "add" -> "sys" [] sl = "begincmap" -> "cid" [] sl = "enc65" -> "enc" [] OTHER -> "err"
Inst == {1, 2, 3}

VARIABLES tmpl,      \* package-level template of CIDInit: slot -> "orig" | "hacked"
          inst,      \* instance -> [live, cidShared, vals : slot -> "orig" | "hacked"]
          hist
vars == <<tmpl, inst, hist>>

Fresh == [sl \in Slots |-> "orig"]
Init == /\ tmpl = "orig"
        /\ inst = [i \in Inst |-> [live |-> FALSE, cidShared |-> FALSE, vals |-> Fresh]]
        /\ hist = <<>>

\* what instance i sees in a slot
See(i, sl) == IF Home(sl) = "cid" /\ inst[i].cidShared THEN tmpl ELSE inst[i].vals[sl]

New(i) == /\ ~inst[i].live
          /\ inst' = [inst EXCEPT ![i] = [live |-> TRUE, cidShared |-> Share,
                                          vals |-> [Fresh EXCEPT !["begincmap"] = tmpl]]]   \* the clone copies the template as it is now
          /\ UNCHANGED <<tmpl, hist>>
\* a hostile program overwrites a slot it can reach
Hack(i, sl) == /\ inst[i].live
               /\ IF Home(sl) = "cid" /\ inst[i].cidShared
                  THEN tmpl' = "hacked" /\ inst' = inst
                  ELSE inst' = [inst EXCEPT ![i].vals[sl] = "hacked"] /\ tmpl' = tmpl
               /\ UNCHANGED hist
Next == (Family = "model" /\ \E i \in Inst : New(i) \/ \E sl \in Slots : Hack(i, sl)) \/
        (Family = "hist" /\ Len(hist) < MaxHist /\
             \E a \in {"redefine-operator", "overwrite-operator-with-garbage", "put-encoding-slot", "alter-cidinit",
                       "alter-errordict", "fail-halfway", "define-font-and-resource", "copy-userdict-into-systemdict",
                       "rebind-true-false", "grow-stacks-and-fail", "mutate-all-reachable", "library-calls", "exceed-budget", "fail-inside-eexec"} :
                 hist' = Append(hist, a) /\ UNCHANGED <<tmpl, inst>>)

TemplatesUntouched == tmpl = "orig"
\* an instance created at any time starts from the baseline
FreshIsBaseline == \A i \in Inst : (inst[i].live /\ \A sl \in Slots : inst[i].vals[sl] = "orig" /\ ~inst[i].cidShared)
                                       => \A sl \in Slots : See(i, sl) = "orig"
NewSeesBaseline == [][\A i \in Inst : (~inst[i].live /\ inst'[i].live) => \A sl \in Slots : (IF Home(sl) = "cid" /\ inst'[i].cidShared THEN tmpl' ELSE inst'[i].vals[sl]) = "orig"]_vars
EmitHist == (Family = "hist" /\ hist # <<>>) => CSVWrite("%1$s", <<ToJson([hist |-> hist])>>, OutFile)
=============================================================================
