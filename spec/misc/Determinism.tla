----------------------------- MODULE Determinism -----------------------------
(***************************************************************************)
(* Determinism (C17).  A history is a sequence of observations             *)
(*   [call, input, proc, run, digest]                                      *)
(* (which public call, which input value or file, which OS process, which  *)
(* repetition, digest of the bytes written / of the result read).  The     *)
(* property: one digest per (call, input), whatever the process and the    *)
(* repetition.                                                             *)
(*                                                                         *)
(* The second part models WHY: a writer that emits the entries of a map.   *)
(* Go randomises map iteration per range statement, so an emission loop    *)
(* may see any permutation; the output is deterministic iff the loop       *)
(* sorts.  TLC shows that the sorted emitter has exactly one output and    *)
(* the unsorted one several (EmitterModel).                                *)
(***************************************************************************)
EXTENDS Integers, Sequences, FiniteSets, TLC

\* ---- history invariant
Consistent(h) == \A i \in 1..Len(h), j \in 1..Len(h) :
                    (h[i].call = h[j].call /\ h[i].input = h[j].input) => h[i].digest = h[j].digest

\* ---- emitter model
CONSTANTS Keys, Sorted
VARIABLES left, emitted
Init == left = Keys /\ emitted = <<>>
Min(S) == CHOOSE x \in S : \A y \in S : x <= y
Next == /\ left # {}
        /\ \E k \in (IF Sorted THEN {Min(left)} ELSE left) :
              /\ emitted' = Append(emitted, k) /\ left' = left \ {k}
\* the sorted order is the only output
OneOutput == left = {} => \A i \in 1..(Len(emitted) - 1) : emitted[i] < emitted[i + 1]
=============================================================================
