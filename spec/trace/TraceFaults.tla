---------------------------- MODULE TraceFaults ----------------------------
(* Trace validation of fault-injection runs against Faults.tla (C13).      *)
EXTENDS Faults, Json, TLC
CONSTANT TraceFile
Trace == ndJsonDeserialize(TraceFile)
VARIABLE l
Init == l = 1
Holds(e) == RunOK(e)
Examine(e) == IF Holds(e) THEN TRUE ELSE PrintT(<<"REJECTED-EVENT", l>>)
Next == l <= Len(Trace) /\ Examine(Trace[l]) /\ l' = l + 1
Accepted == TLCGet("stats").diameter - 1 = Len(Trace)
=============================================================================
