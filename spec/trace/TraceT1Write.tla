--------------------------- MODULE TraceT1Write ---------------------------
(***************************************************************************)
(* Trace validation of Font.Write / Font.WritePDF (C08).  The harness      *)
(* writes a font in one of the five forms, takes the bytes apart with its  *)
(* own decoder (PFB framing, hex, eexec key 55665, charstring key 4330     *)
(* with four lead bytes, number and command decoding) and records          *)
(*   [ev |-> "file",  f |-> structure record]        -> T1File!StructureOK *)
(*   [ev |-> "glyph", toks, nums, want, exact]                             *)
(*        toks: the charstring as tokens; nums: <<[v, bytes]>> every       *)
(*        number with the bytes found; want: the glyph of the input font   *)
(*        (integer coordinates, exact = TRUE): the BuildChar machine of    *)
(*        T1Charstring.tla must produce exactly this outline, width and    *)
(*        hints, and every number must be in its proper format.            *)
(***************************************************************************)
EXTENDS T1Charstring, T1File, Json, TLC
CONSTANT TraceFile
Trace == ndJsonDeserialize(TraceFile)
VARIABLE l
Init == l = 1

QSeq(s) == [j \in 1..Len(s) |-> QI(s[j])]
CmdsEq(got, want) == /\ Len(got) = Len(want)
                     /\ \A j \in 1..Len(got) : got[j].op = want[j].op /\ got[j].a = QSeq(want[j].a)
\* glyphs with fractional coordinates (exact = FALSE) are not run on the exact-rational
\* machine (denominators multiply beyond TLC's integers); their numbers are still checked
GlyphOK(e) ==
    /\ \A j \in 1..Len(e.nums) : e.nums[j].bytes = CanonicalNum(e.nums[j].v)
    /\ (e.exact =>
          LET r == T1Run(e.toks, <<>>)
          IN /\ r.st = "done"
             /\ CmdsEq(r.cmds, e.want.cmds)
             /\ r.wx = QI(e.want.wx) /\ r.wy = QI(e.want.wy)
             /\ r.hst = QSeq(e.want.h) /\ r.vst = QSeq(e.want.v))
Holds(e) == IF e.ev = "file" THEN StructureOK(e.f) ELSE GlyphOK(e)
Examine(e) == IF Holds(e) THEN TRUE ELSE PrintT(<<"REJECTED-EVENT", l>>)
Next == l <= Len(Trace) /\ Examine(Trace[l]) /\ l' = l + 1
Accepted == TLCGet("stats").diameter - 1 = Len(Trace)
=============================================================================
