------------------------------ MODULE TraceAGL ------------------------------
(***************************************************************************)
(* Trace validation of names.FromUnicode / names.ToUnicode (C16).          *)
(*                                                                         *)
(* One event  [r, ding, name, text]  claims: for the Unicode scalar value  *)
(* r the library chose the glyph name `name` (bytes), and mapped that name *)
(* back (with the given Zapf Dingbats flag) to `text`.  An event is        *)
(* accepted when                                                           *)
(*    name = FromScalar(r)                the name the specification forms *)
(*    text = Expand(r)                    maps back to the character or to *)
(*                                        its compatibility expansion      *)
(*    text = ToText(name, ding)           and that is what the AGL         *)
(*                                        algorithm gives for the name     *)
(* and the specification itself satisfies RoundTrip(r, ding) -- if that    *)
(* fails the specification (not the library) is inconsistent and the check *)
(* reports itself broken.                                                  *)
(*                                                                         *)
(* Formulation and cost.  Every scalar is a separate event and is checked  *)
(* individually by TLC; nothing is summarised on the Go side.  One event   *)
(* costs two integer binary searches and one 12-step binary search over    *)
(* byte sequences; a single TLC process validates about 10^4 events/s.     *)
(* The harness therefore cuts the scalar range into chunks [Lo, Hi]; the   *)
(* check runs one TLC process (one worker) per chunk, 16 at a time.        *)
(* Coverage is part of the acceptance condition: inside a chunk the events *)
(* must list exactly the scalars Lo..Hi in increasing order (surrogates    *)
(* skipped), so a chunk that is accepted has validated all of them; the    *)
(* check verifies that the chunks tile 0..10FFFF (thorough tier) or the    *)
(* BMP plus the listed boundary ranges (quick tier).  With Lo = 1114112    *)
(* (no scalar; TLC configuration files cannot hold negative numbers) the   *)
(* order is free: the extra trace of table-related and boundary scalars,   *)
(* recorded with both values of the dingbats flag.                         *)
(*                                                                         *)
(* Strict = TRUE is classical trace validation: the step is enabled only   *)
(* for an acceptable event, a bad event truncates the behaviour and        *)
(* Accepted fails.  Strict = FALSE is the diagnostic mode used only after  *)
(* a rejection: every event is consumed and for each bad one a line        *)
(* [i, r, codes] is written to VerdictFile, so that all failing scalars    *)
(* of the chunk (not only the first) can be classified.                    *)
(***************************************************************************)
EXTENDS AGL, Json, CSV, TLC

CONSTANTS TraceFile, VerdictFile, Lo, Hi, Strict

Trace == ndJsonDeserialize(TraceFile)

VARIABLES i, nbad
vars == <<i, nbad>>

FreeOrder == Lo > AglMaxScalar
AglSuccScalar(r) == IF r = 55295 THEN 57344 ELSE r + 1
ExpectedR(k) == IF k = 1 THEN Lo ELSE AglSuccScalar(Trace[k - 1].r)

\* the names of the conditions event k fails, as a sequence
Codes(k) ==
    LET e == Trace[k]
        ordered == FreeOrder \/ e.r = ExpectedR(k)
    IN IF ~IsScalar(e.r) THEN <<"not-a-scalar">>
       ELSE LET want == FromScalar(e.r)
                exp  == Expand(e.r)
                back == ToText(e.name, e.ding)
            IN (IF ordered THEN <<>> ELSE <<"order">>)
               \o (IF e.name = want THEN <<>> ELSE <<"name">>)
               \o (IF e.text = exp THEN <<>> ELSE <<"roundtrip">>)
               \o (IF e.text = back THEN <<>> ELSE <<"totext">>)
               \o (IF (IF e.name = want THEN back ELSE ToText(want, e.ding)) = exp THEN <<>> ELSE <<"spec-roundtrip">>)

Init == i = 1 /\ nbad = 0
Next == /\ i <= Len(Trace)
        /\ LET c == Codes(i)
           IN IF c = <<>> THEN nbad' = nbad
              ELSE /\ ~Strict
                   /\ CSVWrite("%1$s", <<ToJson([i |-> i, r |-> Trace[i].r, ding |-> Trace[i].ding, codes |-> c,
                                                 name |-> FromScalar(Trace[i].r), text |-> Expand(Trace[i].r)])>>,
                               VerdictFile)
                   /\ nbad' = nbad + 1
        /\ i' = i + 1

\* the whole trace was consumed, and it ended at the end of the chunk
Complete == FreeOrder \/ (Len(Trace) > 0 /\ Trace[Len(Trace)].r = Hi)
Accepted == TLCGet("stats").diameter - 1 = Len(Trace) /\ Complete
=============================================================================
