---------------------------- MODULE TracePSWrite ----------------------------
(***************************************************************************)
(* Trace validation of the library's serialisers (C04): every recorded     *)
(* event [kind, b, text] claims that `text` is the PostScript spelling the *)
(* library produced for the byte string (kind "str") or literal name       *)
(* (kind "name") b.  The specification's tokenizer must read `text` back   *)
(* as exactly that one object.                                             *)
(***************************************************************************)
EXTENDS PSLex, Json

CONSTANT TraceFile
Trace == ndJsonDeserialize(TraceFile)

VARIABLE l
Init == l = 1
Next == l <= Len(Trace) /\ l' = l + 1

Good(e) == LET r == Lex(e.text)
           IN /\ r.ok /\ r.dsc = <<>> /\ Len(r.toks) = 1
              /\ r.toks[1].t = e.kind
              /\ r.toks[1].b = e.b
ReadsBack == l <= Len(Trace) => Good(Trace[l])
Accepted == TLCGet("stats").diameter - 1 = Len(Trace)
=============================================================================
