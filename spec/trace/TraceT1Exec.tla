----------------------------- MODULE TraceT1Exec -----------------------------
(***************************************************************************)
(* Trace validation of the Type 1 writer through the specification's own   *)
(* PostScript machine (C08): every recorded event carries the token        *)
(* sequence of a font program that the library wrote (clear-text form;     *)
(* tokenised by the harness's independent tokenizer, binary data after RD  *)
(* as raw tokens) and what the font says.  PSMachine EXECUTES the program: *)
(* it must end without error with exactly one font registered in           *)
(* FontDirectory, and the dictionaries the program built must say what the *)
(* font says: name, type, matrix, encoding, FontInfo strings byte for      *)
(* byte, Private values, the glyph set with the charstrings (decrypted by   *)
(* Eexec.tla: key 4330, four lead bytes) equal to what the independent     *)
(* decoder took from the file, the subroutine count.                       *)
(*                                                                         *)
(* This is the writer's output read by the specification, not by pattern   *)
(* extraction and not by the library's reader.                             *)
(***************************************************************************)
EXTENDS PSMachine, Eexec, Json

CONSTANT TraceFile
Trace == ndJsonDeserialize(TraceFile)

VARIABLE l
Init == l = 1
Next == l <= Len(Trace) /\ l' = l + 1

RECURSIVE RunAll(_, _)
RunAll(st, fuel) == IF st.status # "running" \/ fuel = 0 THEN st ELSE RunAll(Step(st), fuel - 1)

NumIs(v, d) == IsNum(v) /\ DCmp(IF v.t = "int" THEN DExact(v.i) ELSE v.r, d) = 0
SeqIs(h, v, ds) == v.t \in {"arr", "proc"} /\ v.len = Len(ds) /\ \A j \in 1..Len(ds) : NumIs(VGet(h, v, j - 1), ds[j])
HasStr(h, d, key, bytes) == DHas(h, d, key) /\ DGet(h, d, key).t = "str" /\ VSeq(h, DGet(h, d, key)) = bytes
HasNum(h, d, key, x) == DHas(h, d, key) /\ NumIs(DGet(h, d, key), x)
OptNums(h, d, key, ds) == IF ds = <<>> THEN TRUE ELSE DHas(h, d, key) /\ SeqIs(h, DGet(h, d, key), ds)

Says(e) ==
    LET e0 == RunAll(FreshState(e.toks, 0), e.fuel)
        h == e0.heap
        fd == DictV(FontDirId)
        w == e.want
    IN /\ e0.status = "done"
       /\ DKeys(h, fd) = {w.name}
       /\ LET f == DGet(h, fd, w.name)
          IN /\ f.t = "dict"
             /\ DHas(h, f, "FontName") /\ DGet(h, f, "FontName") = NameV(w.name)
             /\ HasNum(h, f, "FontType", DExact(BI(1)))
             /\ DHas(h, f, "FontMatrix") /\ SeqIs(h, DGet(h, f, "FontMatrix"), w.matrix)
             \* encoding: codes naming glyphs the font does not have read as .notdef
             /\ IF w.enc = <<>> THEN ~DHas(h, f, "Encoding")
                ELSE /\ DHas(h, f, "Encoding") /\ DGet(h, f, "Encoding").t = "arr" /\ DGet(h, f, "Encoding").len = 256
                     /\ \A c \in 0..255 :
                           LET x == VGet(h, DGet(h, f, "Encoding"), c)
                               nm == IF x.t = "name" /\ x.s \in DOMAIN w.glyphs THEN x.s ELSE ".notdef"
                           IN x.t = "name" /\ nm = w.enc[c + 1]
             /\ DHas(h, f, "FontInfo") /\ DGet(h, f, "FontInfo").t = "dict"
             /\ LET fi == DGet(h, f, "FontInfo")
                IN /\ \A k \in DOMAIN w.strs : HasStr(h, fi, k, w.strs[k])
                   /\ \A k \in DOMAIN w.optstrs : (w.optstrs[k] # <<>> => HasStr(h, fi, k, w.optstrs[k]))
                   /\ \A k \in DOMAIN w.nums : HasNum(h, fi, k, w.nums[k])
                   /\ DHas(h, fi, "isFixedPitch") /\ DGet(h, fi, "isFixedPitch") = BoolV(w.fixed)
             /\ DHas(h, f, "Private") /\ DGet(h, f, "Private").t = "dict"
             /\ LET pr == DGet(h, f, "Private")
                IN /\ \A k \in DOMAIN w.pnums : HasNum(h, pr, k, w.pnums[k])
                   /\ \A k \in DOMAIN w.parrs : OptNums(h, pr, k, w.parrs[k])
                   /\ DHas(h, pr, "ForceBold") /\ DGet(h, pr, "ForceBold") = BoolV(w.forcebold)
                   /\ DHas(h, pr, "Subrs") /\ DGet(h, pr, "Subrs").t = "arr" /\ DGet(h, pr, "Subrs").len = w.nsubrs
                   /\ \A j \in 1..w.nsubrs : VGet(h, DGet(h, pr, "Subrs"), j - 1).t = "str"
             /\ DHas(h, f, "CharStrings") /\ DGet(h, f, "CharStrings").t = "dict"
             /\ LET cs == DGet(h, f, "CharStrings")
                IN /\ DKeys(h, cs) = DOMAIN w.glyphs
                   \* the stored strings are charstrings encrypted with key 4330 and four lead bytes:
                   \* decrypted by the specification's own cipher they are the plain charstrings that the
                   \* independent decoder took from the file
                   /\ \A g \in DOMAIN w.glyphs :
                         /\ DGet(h, cs, g).t = "str" /\ DGet(h, cs, g).len >= 4
                         /\ LET pl == Decrypt(R0Charstring, VSeq(h, DGet(h, cs, g)))
                            IN SubSeq(pl, 5, Len(pl)) = w.glyphs[g]

Examine(e) == IF Says(e) THEN TRUE ELSE PrintT(<<"REJECTED-EVENT", l>>)
Holds == l <= Len(Trace) => Examine(Trace[l])
Accepted == TLCGet("stats").diameter - 1 = Len(Trace)
=============================================================================
