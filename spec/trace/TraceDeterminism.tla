-------------------------- MODULE TraceDeterminism --------------------------
(* Trace validation of repeated writes / reads against Determinism.tla.    *)
(* Events arrive grouped: every event carries the digest of the first      *)
(* observation of its (call, input) group (ref), so the check is linear.   *)
EXTENDS Integers, Sequences, Json, TLC
CONSTANT TraceFile
Trace == ndJsonDeserialize(TraceFile)
VARIABLE l
Init == l = 1
Holds(e) == e.digest = e.ref
Examine(e) == IF Holds(e) THEN TRUE ELSE PrintT(<<"REJECTED-EVENT", l>>)
Next == l <= Len(Trace) /\ Examine(Trace[l]) /\ l' = l + 1
Accepted == TLCGet("stats").diameter - 1 = Len(Trace)
=============================================================================
