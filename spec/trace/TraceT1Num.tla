---------------------------- MODULE TraceT1Num ----------------------------
(***************************************************************************)
(* Trace validation of charstring numbers written by the library (C20).    *)
(* Events (recorded by `vh trace-t1nums` from files written by Font.Write  *)
(* and taken apart by the harness's independent decoder):                  *)
(*   [ev |-> "num",  want, bytes, read]  an integer used as coordinate     *)
(*        delta, advance width or hint value: the bytes found in the file  *)
(*        must be the proper format for the value and decode to it, and    *)
(*        type1.Read must return it;                                       *)
(*   [ev |-> "frac", s, m, e, p, q]  a fractional delta s*m*2^e (m limbs)  *)
(*        written as "p q div": q >= 1 and |p/q - x| <= 1/214.           *)
(***************************************************************************)
EXTENDS T1Charstring, BigInt, Json
CONSTANT TraceFile
Trace == ndJsonDeserialize(TraceFile)
VARIABLE l
Init == l = 1

NumOK(e) == /\ e.bytes = CanonicalNum(e.want)
            /\ DecodeNum(e.bytes, 1).val = e.want /\ DecodeNum(e.bytes, 1).len = Len(e.bytes)
            /\ e.read = e.want
\* |p/q - x| <= 1/214 + 2^-40  with x = s * m * 2^e, e <= 0.  The slack 2^-40 (about 10^-12)
\* is there because the writer compares its candidates in float64: exactly half way between two
\* candidates it may pick the one that is farther by a few 10^-17, which the bound of the
\* property (0.0047) is not meant to exclude.  With k = -e:
\*     214 * 2^40 * |p * 2^k - q * n| <= q * 2^k * (2^40 + 214)
FracOK(e) == LET k == 0 - e.e
                 n == [s |-> e.s, m |-> e.m]
                 lhs == Mul(Shl(BI(214), 40), Abs(Sub(Shl(BI(e.p), k), Mul(BI(e.q), n))))
                 rhs == Mul(Shl(BI(e.q), k), Add(TwoPow(40), BI(214)))
             IN e.q >= 1 /\ e.e <= 0 /\ Le(lhs, rhs)     \* any denominator: the property bounds the error, not q
Holds(e) == IF e.ev = "num" THEN NumOK(e) ELSE FracOK(e)
Examine(e) == IF Holds(e) THEN TRUE ELSE PrintT(<<"REJECTED-EVENT", l>>)
Next == l <= Len(Trace) /\ Examine(Trace[l]) /\ l' = l + 1
Accepted == TLCGet("stats").diameter - 1 = Len(Trace)
=============================================================================
