--------------------------- MODULE TraceAFMCycle ---------------------------
(***************************************************************************)
(* Trace validation for C15 (c): every record of the trace is one history  *)
(*   [id, m0, m1, m2]   m0 = Read(text), m1 = Read(Write(m0)),             *)
(*                      m2 = Read(Write(m1))                               *)
(* recorded from the library.  The specification judges it: c1 = field     *)
(* classes in which the first cycle did more than QuantAFM allows, c2 =    *)
(* classes the second cycle changed at all.  Verdicts go to OutFile.       *)
(***************************************************************************)
EXTENDS AFMCycle, Json, CSV, TLC

CONSTANTS TraceFile, OutFile
Trace == ndJsonDeserialize(TraceFile)
ASSUME AcLemma

VARIABLE l
Init == l = 0
Next == l < Len(Trace) /\ l' = l + 1

Verdict(h) == [id |-> h.id, c1 |-> AcDiff(h.m0, h.m1, FALSE), c2 |-> AcDiff(h.m1, h.m2, TRUE)]
Emit == l >= 1 => CSVWrite("%1$s", <<ToJson(Verdict(Trace[l]))>>, OutFile)
Accepted == TLCGet("stats").diameter - 1 = Len(Trace)
=============================================================================
