--------------------------- MODULE TraceAFMFormat ---------------------------
(***************************************************************************)
(* Trace validation for C15 (d) and the self-test of C15 (b): an AFM text  *)
(* (written by Metrics.Write, kind "lib", or by the harness's own layout   *)
(* writer, kind "indep") was cut into line events by the harness's         *)
(* tokenizer.  AFMFormat reads the lines; at the end of every text the     *)
(* metrics it has read must be a complete file that describes the same     *)
(* metrics as the model the text was written from.                         *)
(*                                                                         *)
(* Events: [ev |-> "begin", id, kind, m]  [ev |-> "line", toks, isn, num,  *)
(* rest]  [ev |-> "end"].  Every event is consumed (the machine is total); *)
(* the verdict of a text is the set of field classes in which it differs   *)
(* from its model (absent = text fields of the model whose key is on no    *)
(* line), written to OutFile, so that one run judges many texts.           *)
(***************************************************************************)
EXTENDS AFMFormat, Json, CSV, TLC

CONSTANTS TraceFile, OutFile
Trace == ndJsonDeserialize(TraceFile)

VARIABLES l, st, cur, verdict
vars == <<l, st, cur, verdict>>

NoVerdict == [id |-> -1, kind |-> "", diff |-> {}, absent |-> {}, err |-> "", mode |-> ""]

Init == l = 1 /\ st = AfmInit /\ cur = [id |-> -1, kind |-> "", m |-> AfmEmpty] /\ verdict = NoVerdict

Begin == /\ Trace[l].ev = "begin"
         /\ cur' = [id |-> Trace[l].id, kind |-> Trace[l].kind, m |-> Trace[l].m]
         /\ st' = AfmInit /\ verdict' = NoVerdict
Line  == /\ Trace[l].ev = "line"
         /\ st' = AfmLine(st, Trace[l])
         /\ verdict' = NoVerdict /\ UNCHANGED cur
End   == /\ Trace[l].ev = "end"
         /\ verdict' = [id |-> cur.id, kind |-> cur.kind, diff |-> AfmDiff(cur.m, st.m),
                        absent |-> {k \in AfmHdrText : cur.m.txt[k] # "" /\ k \notin st.seen},
                        err |-> st.err, mode |-> IF AfmComplete(st) THEN "done" ELSE "incomplete:" \o st.mode]
         /\ UNCHANGED <<st, cur>>
Next == l <= Len(Trace) /\ l' = l + 1 /\ (Begin \/ Line \/ End)

Emit == verdict.id # -1 => CSVWrite("%1$s", <<ToJson(verdict)>>, OutFile)
Accepted == TLCGet("stats").diameter - 1 = Len(Trace)
=============================================================================
