------------------------------ MODULE TracePFB ------------------------------
(***************************************************************************)
(* Trace validation of the PFB decoder against the contract PFB.tla (C14). *)
(*                                                                         *)
(* The trace is ndjson.  {"ev":"reset","inp":[bytes]} starts a new stream: *)
(* a fresh decoder was put on those input bytes.  {"ev":"read","cap":c,    *)
(* "n":n,"out":[bytes],"err":class} is what one Read with a buffer of c    *)
(* cells returned (class: nil, eof, invalid, error).  Content and terminal *)
(* class of a stream are derived from its bytes by PfbParse; every read    *)
(* event must be a step PfbRead of the contract.  The recording stops at   *)
(* the first error of a stream, as the contract says nothing afterwards.   *)
(***************************************************************************)
EXTENDS PFB, TLC, Json

CONSTANT TraceFile
Trace == ndJsonDeserialize(TraceFile)

\* parsed once (constant level): content and terminal class of every stream of the file
TraceParsed == [i \in 1..Len(Trace) |->
                   IF Trace[i].ev = "reset" THEN PfbParse(Trace[i].inp) ELSE [D |-> <<>>, term |-> "open"]]

VARIABLES l,     \* index of the next event
          cur    \* index of the reset event of the current stream
vars == <<l, cur, pos, req, fin>>

Init == l = 1 /\ cur = 0 /\ PfbInit

T_Reset == /\ l <= Len(Trace) /\ Trace[l].ev = "reset"
           /\ cur' = l /\ l' = l + 1
           /\ pos' = 0 /\ req' = 0 /\ fin' = "no"
T_Read == /\ l <= Len(Trace) /\ Trace[l].ev = "read" /\ cur >= 1
          /\ LET e == Trace[l] IN
             PfbRead(TraceParsed[cur].D, TraceParsed[cur].term, e.cap, e.n, e.out, e.err)
          /\ l' = l + 1 /\ UNCHANGED cur
Next == T_Reset \/ T_Read

\* diagnostic variant (used after a rejection, to list every rejected event in one pass): a read event
\* that is not a step of the contract is printed with its class and the rest of its stream is skipped
T_Bad == /\ l <= Len(Trace) /\ Trace[l].ev = "read" /\ cur >= 1 /\ fin = "no"
         /\ LET e == Trace[l]
                cls == PfbRejectClass(TraceParsed[cur].D, TraceParsed[cur].term, pos, e.cap, e.n, e.out, e.err)
            IN /\ cls # "ok"
               /\ PrintT(<<"PFB-REJECT", l, cur, cls>>)
         /\ fin' = "rejected" /\ l' = l + 1 /\ UNCHANGED <<cur, pos, req>>
T_Skip == /\ l <= Len(Trace) /\ Trace[l].ev = "read" /\ fin = "rejected"
          /\ l' = l + 1 /\ UNCHANGED <<cur, pos, req, fin>>
NextDiag == T_Reset \/ T_Read \/ T_Bad \/ T_Skip

PrefixInv == cur >= 1 => pos <= Len(TraceParsed[cur].D)
Accepted == TLCGet("stats").diameter - 1 = Len(Trace)
=============================================================================
