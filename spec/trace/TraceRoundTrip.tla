--------------------------- MODULE TraceRoundTrip ---------------------------
(***************************************************************************)
(* Trace validation of write/read histories (C09, C10).  Events:           *)
(*   [ev |-> "cycle",   fmt, a, b]        a written in fmt and read: b     *)
(*   [ev |-> "closure", fmt, f1, f2, f3]  f1 = Read(x), f2 = Read(Write    *)
(*                                        (f1)), f3 = Read(Write(f2))      *)
(* Every event must satisfy the relation of RoundTrip.tla.                 *)
(***************************************************************************)
EXTENDS RoundTrip, Json, TLC
CONSTANT TraceFile
Trace == ndJsonDeserialize(TraceFile)
VARIABLE l
Init == l = 1
HoldsX(e) == IF e.ev = "cycle" THEN Equiv9(e.a, e.b)
            ELSE Quant10(e.f1, e.f2) /\ e.f2 = e.f3
Holds(e) == HoldsX(e)
\* every event is examined; a rejected one is reported by its index and the run goes on, so
\* that one run names all offending events
Examine(e) == IF Holds(e) THEN TRUE ELSE PrintT(<<"REJECTED-EVENT", l>>)
Next == l <= Len(Trace) /\ Examine(Trace[l]) /\ l' = l + 1
Relation == l <= Len(Trace) => Holds(Trace[l])
Accepted == TLCGet("stats").diameter - 1 = Len(Trace)
=============================================================================
