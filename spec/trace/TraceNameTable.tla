--------------------------- MODULE TraceNameTable ---------------------------
(***************************************************************************)
(* Trace validation of the glyph-name table hook events (H3) against the   *)
(* lock discipline of NameTable.tla (C18).  The hook fires while the mutex *)
(* is held, so the recorded order is the real order.  Events of one table: *)
(*   acquire   a caller got the lock                                       *)
(*   build     it found the table missing and starts to build it           *)
(*   built     the table is complete                                       *)
(*   read      the caller reads its answer (then releases the lock)        *)
(* Calls are anonymous; the specification only needs "the call currently   *)
(* inside": between an acquire and its read no other call's event may      *)
(* appear, a table is built at most once, and never read before built.     *)
(***************************************************************************)
EXTENDS Integers, Sequences, Json, TLC
CONSTANT TraceFile
Trace == ndJsonDeserialize(TraceFile)
Tables == {"aglfn", "glyphlist", "zapfdingbats"}
VARIABLES l, state,    \* state[t] : "nil" | "partial" | "built"
          inside       \* "" or the table whose lock holder is inside, with its stage
Init == l = 1 /\ state = [t \in Tables |-> "nil"] /\ inside = [t |-> "", stage |-> ""]

Step(e) ==
    CASE e.ev = "reset" -> /\ inside.t = "" /\ state' = [t \in Tables |-> "nil"] /\ inside' = inside     \* a new process starts
      [] e.ev = "acquire" -> /\ inside.t = "" /\ inside' = [t |-> e.table, stage |-> "test"] /\ state' = state
      [] e.ev = "build" -> /\ inside.t = e.table /\ inside.stage = "test" /\ state[e.table] = "nil"
                           /\ state' = [state EXCEPT ![e.table] = "partial"] /\ inside' = [inside EXCEPT !.stage = "building"]
      [] e.ev = "built" -> /\ inside.t = e.table /\ inside.stage = "building" /\ state[e.table] = "partial"
                           /\ state' = [state EXCEPT ![e.table] = "built"] /\ inside' = [inside EXCEPT !.stage = "test"]
      [] e.ev = "read" -> /\ inside.t = e.table /\ inside.stage = "test" /\ state[e.table] = "built"
                          /\ state' = state /\ inside' = [t |-> "", stage |-> ""]
      [] OTHER -> FALSE
Next == l <= Len(Trace) /\ Step(Trace[l]) /\ l' = l + 1
Accepted == TLCGet("stats").diameter - 1 = Len(Trace)
=============================================================================
