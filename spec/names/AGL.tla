-------------------------------- MODULE AGL --------------------------------
(***************************************************************************)
(* The Adobe Glyph List specification                                      *)
(*   https://github.com/adobe-type-tools/agl-specification                 *)
(* as TLA+ operators (property C16).  Glyph names are BYTE SEQUENCES       *)
(* (tuples of 0..255), texts are sequences of Unicode scalar values.       *)
(*                                                                         *)
(*   ToText(name, dingbats)  section 2 of the specification, "Mapping      *)
(*                           glyph names to character strings"             *)
(*   FromScalar(r)           the name chosen for a character: through its  *)
(*                           compatibility expansion, AGLFN name of each   *)
(*                           scalar, else u + at least four upper-case     *)
(*                           hexadecimal digits, joined by underscores     *)
(*   Expand(r)               the compatibility expansion of r, or <<r>>    *)
(*   Valid(name)             the syntax of glyph names as property C16     *)
(*                           states it                                     *)
(*                                                                         *)
(* The tables come from module AGLData, which tools/gen_agl.py generates   *)
(* with an independent parser from glyphlist.txt, zapfdingbats.txt and     *)
(* aglfn.txt.  The values of glyph-list entries are SEQUENCES of scalars   *)
(* (81 entries denote several characters).                                 *)
(*                                                                         *)
(* AglCompat is different in kind: the AGL specification has no            *)
(* compatibility table.  Property C16 says "maps back to exactly that      *)
(* character (or to its documented compatibility expansion)"; the only     *)
(* documentation of that expansion is the library's own table in           *)
(* type1/names/compat.go, which the generator copies as data documented by *)
(* the library.  The specification therefore does not judge the CONTENT of *)
(* that table; it demands that names are formed through it consistently    *)
(* (FromScalar), that the name maps back to it (RoundTrip) and that the    *)
(* table cannot make two characters share a name (AglCompatWellFormed).    *)
(*                                                                         *)
(* All tables are sorted by key and searched by recursive binary search    *)
(* (a TLA+ function built with CHOOSE per key over 4281 entries does not   *)
(* finish in TLC).  The declarative meaning of a look-up is                *)
(*    "the value of THE entry whose key equals the argument, if any";      *)
(* AglTablesSorted (strictly increasing keys, hence unique) makes the      *)
(* binary search equal to it; TLC checks it in MC_AGL, family selfcheck.   *)
(***************************************************************************)
EXTENDS Integers, Sequences, FiniteSets, AGLData

-----------------------------------------------------------------------------
\* bytes
AglIsUpper(c) == c >= 65 /\ c <= 90
AglIsLower(c) == c >= 97 /\ c <= 122
AglIsDigit(c) == c >= 48 /\ c <= 57
AglIsUHex(c)  == AglIsDigit(c) \/ (c >= 65 /\ c <= 70)      \* 0-9 A-F, lower case is not permitted
AglHexVal(c)  == IF AglIsDigit(c) THEN c - 48 ELSE c - 55
AglHexDigit(v) == IF v < 10 THEN 48 + v ELSE 55 + v         \* upper case

AglMaxScalar == 1114111                                      \* 10FFFF
AglIsSurrogate(r) == r >= 55296 /\ r <= 57343                \* D800..DFFF
IsScalar(r) == r >= 0 /\ r <= AglMaxScalar /\ ~AglIsSurrogate(r)

\* lexicographic order on byte sequences (a proper prefix is smaller)
RECURSIVE AglLessFrom(_, _, _)
AglLessFrom(a, b, i) == IF i > Len(a) THEN i <= Len(b)
                        ELSE IF i > Len(b) THEN FALSE
                        ELSE IF a[i] # b[i] THEN a[i] < b[i]
                        ELSE AglLessFrom(a, b, i + 1)
AglLess(a, b) == AglLessFrom(a, b, 1)

\* index of the entry of T (sorted by T[k][1], byte sequences) with key `key`, or 0
RECURSIVE AglFindName(_, _, _, _)
AglFindName(T, key, lo, hi) ==
    IF lo > hi THEN 0
    ELSE LET mid == (lo + hi) \div 2
         IN IF T[mid][1] = key THEN mid
            ELSE IF AglLess(key, T[mid][1]) THEN AglFindName(T, key, lo, mid - 1)
            ELSE AglFindName(T, key, mid + 1, hi)
\* the same for tables keyed by integers
RECURSIVE AglFindInt(_, _, _, _)
AglFindInt(T, key, lo, hi) ==
    IF lo > hi THEN 0
    ELSE LET mid == (lo + hi) \div 2
         IN IF T[mid][1] = key THEN mid
            ELSE IF key < T[mid][1] THEN AglFindInt(T, key, lo, mid - 1)
            ELSE AglFindInt(T, key, mid + 1, hi)

AglInGlyphList(c) == AglFindName(AglGlyphList, c, 1, Len(AglGlyphList))
AglInDingbats(c)  == AglFindName(AglDingbats, c, 1, Len(AglDingbats))

-----------------------------------------------------------------------------
\* ToText

\* position of the first byte b in s, or 0
AglFirst(s, b) == IF \E i \in 1..Len(s) : s[i] = b
                  THEN CHOOSE i \in 1..Len(s) : s[i] = b /\ \A j \in 1..(i - 1) : s[j] # b
                  ELSE 0

\* step 1: drop everything from the first period on
AglCutSuffix(n) == LET k == AglFirst(n, 46) IN IF k = 0 THEN n ELSE SubSeq(n, 1, k - 1)

\* step 2: split at underscores (the empty string is one empty component)
RECURSIVE AglSplit(_)
AglSplit(s) == LET k == AglFirst(s, 95)
               IN IF k = 0 THEN <<s>>
                  ELSE <<SubSeq(s, 1, k - 1)>> \o AglSplit(SubSeq(s, k + 1, Len(s)))

\* value of the upper-case hexadecimal digits c[i..j]  (at most six digits here: below 2^24)
RECURSIVE AglHexNum(_, _, _)
AglHexNum(c, i, j) == IF j < i THEN 0 ELSE AglHexNum(c, i, j - 1) * 16 + AglHexVal(c[j])

\* "uni" followed by groups of exactly four upper-case hexadecimal digits, each group a
\* value in 0000..D7FF or E000..FFFF.  (Zero groups is allowed by the wording; the text is
\* then empty, the same as for an unknown component.)
AglUniGroups(c) == (Len(c) - 3) \div 4
AglUniGroup(c, g) == AglHexNum(c, 4 * g, 4 * g + 3)
AglIsUniForm(c) == /\ Len(c) >= 3 /\ c[1] = 117 /\ c[2] = 110 /\ c[3] = 105
                   /\ (Len(c) - 3) % 4 = 0
                   /\ \A i \in 4..Len(c) : AglIsUHex(c[i])
                   /\ \A g \in 1..AglUniGroups(c) : ~AglIsSurrogate(AglUniGroup(c, g))
AglUniText(c) == [g \in 1..AglUniGroups(c) |-> AglUniGroup(c, g)]

\* "u" followed by four to six upper-case hexadecimal digits with a value in
\* 0000..D7FF or E000..10FFFF
AglIsUForm(c) == /\ Len(c) >= 5 /\ Len(c) <= 7 /\ c[1] = 117
                 /\ \A i \in 2..Len(c) : AglIsUHex(c[i])
                 /\ IsScalar(AglHexNum(c, 2, Len(c)))
AglUText(c) == <<AglHexNum(c, 2, Len(c))>>

\* step 3, one component; cls names the rule that applied (used for reporting only)
AglComponent(c, dingbats) ==
    LET zd == IF dingbats THEN AglInDingbats(c) ELSE 0
        gl == AglInGlyphList(c)
    IN IF zd > 0 THEN [cls |-> "zd", text |-> AglDingbats[zd][2]]
       ELSE IF gl > 0 THEN [cls |-> IF Len(AglGlyphList[gl][2]) = 1 THEN "gl1" ELSE "glN", text |-> AglGlyphList[gl][2]]
       ELSE IF AglIsUniForm(c) THEN [cls |-> "uni", text |-> AglUniText(c)]
       ELSE IF AglIsUForm(c) THEN [cls |-> "u", text |-> AglUText(c)]
       ELSE [cls |-> "none", text |-> <<>>]
AglComponentText(c, dingbats) == AglComponent(c, dingbats).text

RECURSIVE AglConcat(_, _, _)
AglConcat(cs, k, dingbats) == IF k > Len(cs) THEN <<>>
                              ELSE AglComponentText(cs[k], dingbats) \o AglConcat(cs, k + 1, dingbats)

AglComponents(name) == AglSplit(AglCutSuffix(name))
ToText(name, dingbats) == AglConcat(AglComponents(name), 1, dingbats)

-----------------------------------------------------------------------------
\* FromScalar

Expand(r) == LET k == AglFindInt(AglCompat, r, 1, Len(AglCompat))
             IN IF k > 0 THEN AglCompat[k][2] ELSE <<r>>

RECURSIVE AglHexSeq(_)
AglHexSeq(v) == IF v < 16 THEN <<AglHexDigit(v)>> ELSE Append(AglHexSeq(v \div 16), AglHexDigit(v % 16))
RECURSIVE AglPad4(_)
AglPad4(s) == IF Len(s) >= 4 THEN s ELSE AglPad4(<<48>> \o s)
AglUName(r) == <<117>> \o AglPad4(AglHexSeq(r))              \* uXXXX, uXXXXX, uXXXXXX

\* name of one scalar: its AGLFN name if it has one
AglScalarName(r) == LET k == AglFindInt(AglFN, r, 1, Len(AglFN))
                    IN IF k > 0 THEN AglFN[k][2] ELSE AglUName(r)

RECURSIVE AglJoinNames(_, _)
AglJoinNames(rs, k) == IF k = Len(rs) THEN AglScalarName(rs[k])
                       ELSE AglScalarName(rs[k]) \o <<95>> \o AglJoinNames(rs, k + 1)
FromScalar(r) == AglJoinNames(Expand(r), 1)

-----------------------------------------------------------------------------
\* Valid.  Property C16: "1-31 characters from letters, digits, period, underscore, not
\* starting with digit or period, plus .notdef".  (Current editions of the AGL specification
\* allow 63 characters; the property fixes 31, the limit of the edition the library cites.)
AglNotdef == <<46, 110, 111, 116, 100, 101, 102>>
AglNameChar(c) == AglIsUpper(c) \/ AglIsLower(c) \/ AglIsDigit(c) \/ c = 46 \/ c = 95
Valid(n) == \/ n = AglNotdef
            \/ /\ Len(n) >= 1 /\ Len(n) <= 31
               /\ \A i \in 1..Len(n) : AglNameChar(n[i])
               /\ ~AglIsDigit(n[1]) /\ n[1] # 46

-----------------------------------------------------------------------------
(***************************************************************************)
(* What property C16 says about the two directions together.               *)
(*                                                                         *)
(* RoundTrip(r): the name chosen for r maps back to r, or to its           *)
(* compatibility expansion.  This is a statement about the SPECIFICATION   *)
(* (tables and algorithm fit together) and is evaluated by TLC for every   *)
(* scalar that passes through trace validation (TraceAGL, all 1,112,064 in *)
(* the thorough tier); the library's answers are compared with both sides. *)
(*                                                                         *)
(* Injective(S): different characters never share a name.  It is not       *)
(* evaluated pairwise over a million scalars; it follows from              *)
(*    (a) RoundTrip(r) for all r in S     -- ToText is a function, so      *)
(*        FromScalar(r1) = FromScalar(r2) implies Expand(r1) = Expand(r2); *)
(*    (b) ExpandInjective                  -- by AglCompatWellFormed:      *)
(*        expansions have length >= 2 (so never equal to some <<r>>) and   *)
(*        are pairwise different.                                          *)
(* TLC checks (b) on the table (MC_AGL!CompatCheck, together with          *)
(* InjectiveByCount on every table-related scalar) and (a) scalar by       *)
(* scalar (TraceAGL, code spec-roundtrip).  For the library's actual names *)
(* the harness additionally sorts all of them and compares neighbours      *)
(* (vh trace-agl, field dup_names).                                        *)
(***************************************************************************)
RoundTrip(r, dingbats) == ToText(FromScalar(r), dingbats) = Expand(r)
Injective(S) == \A r1, r2 \in S : r1 # r2 => FromScalar(r1) # FromScalar(r2)
\* the same for a finite S, in the form TLC can evaluate on a thousand scalars (each name is
\* formed once, the set of names is sorted and duplicates collapse)
InjectiveByCount(S) == Cardinality({FromScalar(r) : r \in S}) = Cardinality(S)
ExpandInjective(S) == \A r1, r2 \in S : r1 # r2 => Expand(r1) # Expand(r2)

AglSortedByName(T) == \A k \in 1..(Len(T) - 1) : AglLess(T[k][1], T[k + 1][1])
AglSortedByInt(T)  == \A k \in 1..(Len(T) - 1) : T[k][1] < T[k + 1][1]
AglTablesSorted == /\ AglSortedByName(AglGlyphList) /\ AglSortedByName(AglDingbats)
                   /\ AglSortedByInt(AglFN) /\ AglSortedByInt(AglCompat)
AglTablesTyped == /\ \A k \in 1..Len(AglGlyphList) : /\ Len(AglGlyphList[k][2]) >= 1
                                                      /\ \A j \in 1..Len(AglGlyphList[k][2]) : IsScalar(AglGlyphList[k][2][j])
                  /\ \A k \in 1..Len(AglDingbats) : Len(AglDingbats[k][2]) = 1 /\ IsScalar(AglDingbats[k][2][1])
                  /\ \A k \in 1..Len(AglFN) : IsScalar(AglFN[k][1]) /\ Valid(AglFN[k][2])
AglCompatWellFormed ==
    /\ \A k \in 1..Len(AglCompat) : /\ IsScalar(AglCompat[k][1])
                                    /\ Len(AglCompat[k][2]) >= 2
                                    /\ \A j \in 1..Len(AglCompat[k][2]) : IsScalar(AglCompat[k][2][j])
    /\ \A k1, k2 \in 1..Len(AglCompat) : k1 # k2 => AglCompat[k1][2] # AglCompat[k2][2]
\* every AGLFN name is a glyph-list name for the same single character, and none can be
\* mistaken for a composite, a suffixed name, or a u-form
AglFNWellFormed ==
    \A k \in 1..Len(AglFN) :
        LET n == AglFN[k][2] g == AglInGlyphList(n)
        IN /\ g > 0 /\ AglGlyphList[g][2] = <<AglFN[k][1]>>
           /\ AglFirst(n, 46) = 0 /\ AglFirst(n, 95) = 0
           /\ AglInDingbats(n) = 0
\* binary search finds every entry at its own index
AglSearchSound == /\ \A k \in 1..Len(AglGlyphList) : AglInGlyphList(AglGlyphList[k][1]) = k
                  /\ \A k \in 1..Len(AglDingbats) : AglInDingbats(AglDingbats[k][1]) = k
                  /\ \A k \in 1..Len(AglFN) : AglFindInt(AglFN, AglFN[k][1], 1, Len(AglFN)) = k
                  /\ \A k \in 1..Len(AglCompat) : AglFindInt(AglCompat, AglCompat[k][1], 1, Len(AglCompat)) = k
=============================================================================
