------------------------------- MODULE MC_AGL -------------------------------
(***************************************************************************)
(* Generating configurations for glyph names (C16): TLC enumerates names   *)
(* together with the text / the validity the specification AGL prescribes; *)
(* the harness (vh replay-agl) calls names.ToUnicode / names.IsValid and   *)
(* compares.  Every exhaustive family is an indexed finite list of cases,  *)
(* Case(j) for j in 0..NCases-1, decoded arithmetically from j; the index  *)
(* is picked in two stages inside Next (block, then case) so that all      *)
(* workers take part.  One JSON vector is emitted per case.                *)
(*                                                                         *)
(*  selfcheck  no vectors: the structural facts AGL.tla relies on          *)
(*  tables     every glyph-list entry, every Zapf Dingbats entry, every    *)
(*             AGLFN name, each with both values of the dingbats flag;     *)
(*             invariant ListedText: the specification maps each entry to  *)
(*             the text listed in its table                                *)
(*  uni1       uniXXXX for XXXX in UniRanges (thorough: 0000..FFFF)        *)
(*  u4         uXXXX   for XXXX in UniRanges                               *)
(*  uniN       uni + 2 or 3 groups from UniGroupVals (surrogate borders)   *)
(*  uform      u + 3..8 digits for the values of UVals (D7FF/D800/DFFF/    *)
(*             E000/FFFF/10000/10FFFF/110000/... and neighbours), zero     *)
(*             padded to each length                                       *)
(*  malformed  well-formed uni/u names with one digit replaced by a lower  *)
(*             case digit, a letter beyond F, a neighbour of the digit     *)
(*             ranges in ASCII, a blank, a high byte, `_` or `.`           *)
(*  misc       a hand-written list (lengths of uni names 0..16 digits,     *)
(*             prefixes in other case, empty components, periods)          *)
(*  composite  1..MaxComp components from Pool joined by `_`, followed by  *)
(*             each suffix of Suffixes, both flag values                   *)
(*  composim   (simulation) longer random sequences of the same pool       *)
(*  valid2     every string of length <= 2 over ValidAlpha (borders of the *)
(*             seven character classes: upper, lower, digit, period,       *)
(*             underscore, other ASCII, non-ASCII)                         *)
(*  validlen   lengths 29..34: first byte x filler x last byte, one byte   *)
(*             in the middle replaced by each byte of ValidAlpha, and the  *)
(*             neighbours of `.notdef`                                     *)
(*  validsim   (simulation) random strings over ValidAlpha up to length 34 *)
(***************************************************************************)
EXTENDS AGL, Json, CSV, TLC

CONSTANTS Family, Tier, OutFile, MaxComp

Quick == Tier = "quick"

\* ---- components, suffixes, hand-written names (byte sequences; text in the comment)
Pool == <<
  <<65>>,   \* A
  <<76,99,111,109,109,97,97,99,99,101,110,116>>,   \* Lcommaaccent
  <<79,103,111,110,101,107,115,109,97,108,108>>,   \* Ogoneksmall
  <<101,108,108,105,112,115,105,115>>,   \* ellipsis
  <<100,97,108,101,116,104,97,116,97,102,112,97,116,97,104>>,   \* dalethatafpatah
  <<108,97,109,101,100,104,111,108,97,109,100,97,103,101,115,104>>,   \* lamedholamdagesh
  <<114,101,104,121,101,104,97,108,101,102,108,97,109,97,114,97,98,105,99>>,   \* rehyehaleflamarabic
  <<97,55>>,   \* a7
  <<97,49,48,48>>,   \* a100
  <<117,110,105,50,48,65,67,48,51,48,56>>,   \* uni20AC0308
  <<117,110,105,48,48,52,49>>,   \* uni0041
  <<117,49,48,52,48,67>>,   \* u1040C
  <<117,48,48,52,49>>,   \* u0041
  <<102,111,111>>,   \* foo
  <<>>,   \* (empty)
  <<117,110,105,68,56,48,48>>,   \* uniD800
  <<117,49,49,48,48,48,48>>,   \* u110000
  <<117,110,105,50,48,97,99>>,   \* uni20ac
  <<84,99,111,109,109,97,97,99,99,101,110,116>>,   \* Tcommaaccent
  <<57>>    \* 9
>>

Suffixes == <<
  <<>>,   \* (empty)
  <<46>>,   \* .
  <<46,97,108,116>>,   \* .alt
  <<46,97,108,116,95,66>>,   \* .alt_B
  <<46,46,120>>,   \* ..x
  <<46,110,111,116,100,101,102>>    \* .notdef
>>

Misc == <<
  <<117,110,105>>,   \* uni
  <<117>>,   \* u
  <<117,110>>,   \* un
  <<117,110,105,50>>,   \* uni2
  <<117,110,105,50,48>>,   \* uni20
  <<117,110,105,50,48,65>>,   \* uni20A
  <<117,110,105,50,48,65,67>>,   \* uni20AC
  <<117,110,105,50,48,65,67,48>>,   \* uni20AC0
  <<117,110,105,50,48,65,67,48,51>>,   \* uni20AC03
  <<117,110,105,50,48,65,67,48,51,48>>,   \* uni20AC030
  <<117,110,105,50,48,65,67,48,51,48,56>>,   \* uni20AC0308
  <<117,110,105,50,48,65,67,48,51,48,56,48>>,   \* uni20AC03080
  <<117,110,105,50,48,65,67,48,51,48,56,48,48,52,49,48,48,52,50>>,   \* uni20AC030800410042
  <<85,110,105,50,48,65,67>>,   \* Uni20AC
  <<85,78,73,50,48,65,67>>,   \* UNI20AC
  <<85,50,48,65,67>>,   \* U20AC
  <<85,43,50,48,65,67>>,   \* U+20AC
  <<117,110,105,32,50,48,65,67>>,   \* uni\x2020AC
  <<117,110,105,50,48,65,67,32>>,   \* uni20AC\x20
  <<117,32,50,48,65,67>>,   \* u\x2020AC
  <<32,65>>,   \* \x20A
  <<65,32>>,   \* A\x20
  <<117,50,48,65,67>>,   \* u20AC
  <<117,50,48,65>>,   \* u20A
  <<117,48,50,48,65,67>>,   \* u020AC
  <<117,48,48,50,48,65,67>>,   \* u0020AC
  <<117,48,48,48,50,48,65,67>>,   \* u00020AC
  <<117,48,48,48,48,50,48,65,67>>,   \* u000020AC
  <<117,49,48,70,70,70,70>>,   \* u10FFFF
  <<117,48,48,49,48,70,70,70,70>>,   \* u0010FFFF
  <<117,70,70,70,70,70,70,70,70>>,   \* uFFFFFFFF
  <<117,110,105,70,70,70,70,70,70,70,70>>,   \* uniFFFFFFFF
  <<117,110,105,70,70,70,70>>,   \* uniFFFF
  <<117,110,105,70,70,70,69>>,   \* uniFFFE
  <<117,50,48,97,99>>,   \* u20ac
  <<117,110,105,50,48,97,67>>,   \* uni20aC
  <<117,49,102,54,48,48>>,   \* u1f600
  <<117,110,105,49,70,54,48,48>>,   \* uni1F600
  <<117,110,117,50,48,65,67>>,   \* unu20AC
  <<117,117,110,105,50,48,65,67>>,   \* uuni20AC
  <<117,117,50,48,65,67>>,   \* uu20AC
  <<46,110,111,116,100,101,102>>,   \* .notdef
  <<46>>,   \* .
  <<46,46>>,   \* ..
  <<95>>,   \* _
  <<95,95>>,   \* __
  <<65,95>>,   \* A_
  <<95,65>>,   \* _A
  <<65,95,95,66>>,   \* A__B
  <<65,46>>,   \* A.
  <<65,46,95,66>>,   \* A._B
  <<65,95,46,66>>,   \* A_.B
  <<97,46,98,95,99>>,   \* a.b_c
  <<65,46,66,46,67>>,   \* A.B.C
  <<65,95,66,46,67,95,68>>,   \* A_B.C_D
  <<115,112,97,99,101>>,   \* space
  <<115,112,97,99,69>>,   \* spacE
  <<83,112,97,99,101>>,   \* Space
  <<102,105>>,   \* fi
  <<102,95,105>>,   \* f_i
  <<102,102,105>>,   \* ffi
  <<102,95,102,95,105>>,   \* f_f_i
  <<65,69>>,   \* AE
  <<65,95,69>>,   \* A_E
  <<65,115,109,97,108,108>>,   \* Asmall
  <<97,55>>,   \* a7
  <<97>>,   \* a
  <<97,49>>,   \* a1
  <<97,50,48,54>>,   \* a206
  <<97,50,48,55>>,   \* a207
  <<195,169>>,   \* \xc3\xa9
  <<65,0>>,   \* A\x00
  <<65,0,95,66>>,   \* A\x00_B
  <<65,95,255,95,66>>,   \* A_\xff_B
  <<117,110,105,195,169>>,   \* uni\xc3\xa9
  <<100,97,108,101,116,104,97,116,97,102,112,97,116,97,104,95,100,97,108,101,116,104,97,116,97,102,112,97,116,97,104>>,   \* dalethatafpatah_dalethatafpatah
  <<84,99,111,109,109,97,97,99,99,101,110,116>>,   \* Tcommaaccent
  <<116,99,111,109,109,97,97,99,99,101,110,116>>,   \* tcommaaccent
  <<84,99,101,100,105,108,108,97>>,   \* Tcedilla
  <<117,110,105,48,49,54,50>>,   \* uni0162
  <<117,110,105,48,50,49,65>>,   \* uni021A
  <<117,48,50,49,65>>,   \* u021A
  <<>>    \* (empty)
>>

MalPre == <<
  <<117,110,105>>,   \* uni
  <<117>>,   \* u
  <<117>>,   \* u
  <<117,110,105>>,   \* uni
  <<117>>    \* u
>>

MalDig == <<
  <<50,48,65,67>>,   \* 20AC
  <<50,48,65,67>>,   \* 20AC
  <<49,70,54,48,48>>,   \* 1F600
  <<50,48,65,67,48,51,48,56>>,   \* 20AC0308
  <<49,48,70,70,70,70>>    \* 10FFFF
>>

MalCh == <<97, 102, 103, 71, 64, 47, 58, 96, 32, 45, 128, 195, 95, 46>>   \* a f g G @ / : ` blank - 0x80 0xC3 _ .

ValidAlpha == <<64, 65, 90, 91, 96, 97, 122, 123, 47, 48, 57, 58, 46, 95, 45, 32, 128, 0>>
   \* @ A Z [ ` a z { / 0 9 : . _ - blank 0x80 NUL

NotdefLike == <<
  <<46,110,111,116,100,101,102>>,   \* .notdef
  <<46,110,111,116,100,101>>,   \* .notde
  <<46,110,111,116,100,101,102,102>>,   \* .notdeff
  <<46,78,111,116,100,101,102>>,   \* .Notdef
  <<110,111,116,100,101,102>>,   \* notdef
  <<46,110,111,116,100,101,102,46>>,   \* .notdef.
  <<97,46,110,111,116,100,101,102>>,   \* a.notdef
  <<95,46,110,111,116,100,101,102>>,   \* _.notdef
  <<46,110,111,116,100,101,102,95>>    \* .notdef_
>>


\* ---- arithmetic helpers
RECURSIVE McPow(_, _)
McPow(b, e) == IF e = 0 THEN 1 ELSE b * McPow(b, e - 1)
McMin(a, b) == IF a < b THEN a ELSE b

\* value number j (from 0) of a sequence of inclusive ranges
RECURSIVE McRangeCount(_, _)
McRangeCount(rs, k) == IF k > Len(rs) THEN 0 ELSE (rs[k][2] - rs[k][1] + 1) + McRangeCount(rs, k + 1)
RECURSIVE McRangeNth(_, _, _)
McRangeNth(rs, k, j) == LET n == rs[k][2] - rs[k][1] + 1
                        IN IF j < n THEN rs[k][1] + j ELSE McRangeNth(rs, k + 1, j - n)

\* exactly d upper-case hexadecimal digits of v (v < 16^d)
RECURSIVE McHexFixed(_, _)
McHexFixed(v, d) == IF d = 0 THEN <<>> ELSE Append(McHexFixed(v \div 16, d - 1), AglHexDigit(v % 16))

RECURSIVE McJoin(_, _)
McJoin(cs, k) == IF k = Len(cs) THEN cs[k] ELSE cs[k] \o <<95>> \o McJoin(cs, k + 1)

UniPrefix == <<117, 110, 105>>

\* 0000..00FF, D700..E0FF, FF00..FFFF in the quick tier
UniRanges == IF Quick THEN << <<0, 255>>, <<55040, 57599>>, <<65280, 65535>> >> ELSE << <<0, 65535>> >>
\*                0000 0041 20AC  D7FF   D800   DBFF   DC00   DFFF   E000   FFFF
UniGroupVals == <<0,   65,  8364, 55295, 55296, 56319, 56320, 57343, 57344, 65535>>
\* values for the u form: borders and their neighbours (all below 2^31)
UBorders == <<0, 65, 4095, 4096, 55295, 55296, 56320, 57343, 57344, 65535, 65536, 1048575, 1048576, 1114111, 1114112,
              16777215, 16777216, 268435455>>
UVals == [k \in 1..(3 * Len(UBorders)) |->
             LET b == UBorders[((k - 1) \div 3) + 1] d == ((k - 1) % 3) - 1
             IN IF b + d < 0 THEN 0 ELSE b + d]

\* ---- the cases.  A case is [name, ding] (families about ToText) or [name] (Valid)
NG == Len(AglGlyphList)
NZ == Len(AglDingbats)
NA == Len(AglFN)

TablesName(k) == IF k <= NG THEN AglGlyphList[k][1]
                 ELSE IF k <= NG + NZ THEN AglDingbats[k - NG][1]
                 ELSE AglFN[k - NG - NZ][2]
\* the text the table lists for entry k
TablesListed(k) == IF k <= NG THEN AglGlyphList[k][2]
                   ELSE IF k <= NG + NZ THEN AglDingbats[k - NG][2]
                   ELSE <<AglFN[k - NG - NZ][1]>>

\* composite number x with len components: digits of x in base Len(Pool)
CompSeq(x, len) == [p \in 1..len |-> Pool[((x \div McPow(Len(Pool), p - 1)) % Len(Pool)) + 1]]
RECURSIVE CompOfIndex(_, _)
CompOfIndex(x, len) == LET n == McPow(Len(Pool), len)
                       IN IF x < n THEN CompSeq(x, len) ELSE CompOfIndex(x - n, len + 1)
RECURSIVE CompCount(_)
CompCount(len) == IF len = 0 THEN 0 ELSE McPow(Len(Pool), len) + CompCount(len - 1)

ValidFirst == <<65, 95, 48, 46, 45, 122>>       \* A _ 0 . - z
ValidFill  == <<97, 57, 46, 95>>               \* a 9 . _
ValidLast  == <<122, 45, 46, 128, 57>>         \* z - . 0x80 9
ValidLens  == <<29, 30, 31, 32, 33, 34>>
Filled(len, first, fill, last) == [p \in 1..len |-> IF p = 1 THEN first ELSE IF p = len THEN last ELSE fill]
NValidA == Len(ValidLens) * Len(ValidFirst) * Len(ValidFill) * Len(ValidLast)
NValidB == Len(ValidLens) * Len(ValidAlpha)

NCases ==
    CASE Family = "tables"    -> 2 * (NG + NZ + NA)
      [] Family = "uni1"      -> McRangeCount(UniRanges, 1)
      [] Family = "u4"        -> McRangeCount(UniRanges, 1)
      [] Family = "uniN"      -> 100 + 1000
      [] Family = "uform"     -> 6 * Len(UVals)
      [] Family = "malformed" -> Len(MalPre) * 8 * Len(MalCh)
      [] Family = "misc"      -> 2 * Len(Misc)
      [] Family = "composite" -> 2 * Len(Suffixes) * CompCount(MaxComp)
      [] Family = "valid2"    -> 1 + Len(ValidAlpha) + Len(ValidAlpha) * Len(ValidAlpha)
      [] Family = "validlen"  -> NValidA + NValidB + Len(NotdefLike)
      [] OTHER                -> 0

Case(j) ==
    CASE Family = "tables" -> [name |-> TablesName((j \div 2) + 1), ding |-> (j % 2 = 1)]
      [] Family = "uni1"   -> [name |-> UniPrefix \o McHexFixed(McRangeNth(UniRanges, 1, j), 4), ding |-> FALSE]
      [] Family = "u4"     -> [name |-> <<117>> \o McHexFixed(McRangeNth(UniRanges, 1, j), 4), ding |-> FALSE]
      [] Family = "uniN"   ->
            LET G(x) == McHexFixed(UniGroupVals[x + 1], 4)
            IN IF j < 100 THEN [name |-> UniPrefix \o G(j % 10) \o G(j \div 10), ding |-> FALSE]
               ELSE LET x == j - 100
                    IN [name |-> UniPrefix \o G(x % 10) \o G((x \div 10) % 10) \o G(x \div 100), ding |-> FALSE]
      [] Family = "uform"  ->
            LET v == UVals[(j \div 6) + 1] d == 3 + (j % 6)
            IN [name |-> <<117>> \o (IF d <= 7 /\ v < McPow(16, d) THEN McHexFixed(v, d) ELSE AglHexSeq(v)),
                ding |-> FALSE]
      [] Family = "malformed" ->
            LET b == (j % Len(MalPre)) + 1
                x == j \div Len(MalPre)
                p == ((x % 8) % Len(MalDig[b])) + 1
                c == MalCh[(x \div 8) + 1]
            IN [name |-> MalPre[b] \o [q \in 1..Len(MalDig[b]) |-> IF q = p THEN c ELSE MalDig[b][q]], ding |-> FALSE]
      [] Family = "misc"   -> [name |-> Misc[(j \div 2) + 1], ding |-> (j % 2 = 1)]
      [] Family = "composite" ->
            LET ding == (j % 2 = 1)
                s == ((j \div 2) % Len(Suffixes)) + 1
                x == j \div (2 * Len(Suffixes))
            IN [name |-> McJoin(CompOfIndex(x, 1), 1) \o Suffixes[s], ding |-> ding]
      [] Family = "valid2" ->
            LET n == Len(ValidAlpha)
            IN IF j = 0 THEN [name |-> <<>>]
               ELSE IF j <= n THEN [name |-> <<ValidAlpha[j]>>]
               ELSE [name |-> <<ValidAlpha[((j - n - 1) \div n) + 1], ValidAlpha[((j - n - 1) % n) + 1]>>]
      [] Family = "validlen" ->
            IF j < NValidA THEN
               LET a == j % Len(ValidLast)
                   b == (j \div Len(ValidLast)) % Len(ValidFill)
                   c == (j \div (Len(ValidLast) * Len(ValidFill))) % Len(ValidFirst)
                   d == j \div (Len(ValidLast) * Len(ValidFill) * Len(ValidFirst))
               IN [name |-> Filled(ValidLens[d + 1], ValidFirst[c + 1], ValidFill[b + 1], ValidLast[a + 1])]
            ELSE IF j < NValidA + NValidB THEN
               LET x == j - NValidA
                   len == ValidLens[(x % Len(ValidLens)) + 1]
                   c == ValidAlpha[(x \div Len(ValidLens)) + 1]
               IN [name |-> [p \in 1..len |-> IF p = 16 THEN c ELSE 97]]
            ELSE [name |-> NotdefLike[j - NValidA - NValidB + 1]]

IsValidFamily == Family \in {"valid2", "validlen", "validsim"}
IsSimFamily == Family \in {"composim", "validsim"}

\* ---- state: staged choice of the case index; simulation families grow `cur`
VARIABLES blk, idx, cur, curd
vars == <<blk, idx, cur, curd>>
BlockSize == 64

Init == blk = -1 /\ idx = -1 /\ cur = <<>> /\ curd = FALSE

PickBlock == /\ ~IsSimFamily /\ Family # "selfcheck" /\ blk = -1 /\ NCases > 0
             /\ \E b \in 0..((NCases - 1) \div BlockSize) : blk' = b
             /\ UNCHANGED <<idx, cur, curd>>
PickCase == /\ blk >= 0 /\ idx = -1
            /\ \E x \in (blk * BlockSize)..(McMin(NCases, (blk + 1) * BlockSize) - 1) : idx' = x
            /\ UNCHANGED <<blk, cur, curd>>
\* simulation: exactly one random successor per step
GrowComp == /\ Family = "composim" /\ Len(cur) < 120
            /\ \E c \in {RandomElement(1..Len(Pool))}, s \in {RandomElement(1..(3 * Len(Suffixes)))},
                  d \in {RandomElement(BOOLEAN)} :
                  LET base == AglCutSuffix(cur)          \* keep the components, replace the suffix
                      grown == IF cur = <<>> /\ idx = -1 THEN Pool[c] ELSE base \o <<95>> \o Pool[c]
                  IN /\ cur' = grown \o (IF s <= Len(Suffixes) THEN Suffixes[s] ELSE <<>>)
                     /\ curd' = d
            /\ idx' = idx + 1 /\ UNCHANGED blk
GrowValid == /\ Family = "validsim" /\ Len(cur) < 34
             /\ \E c \in {RandomElement(1..(Len(ValidAlpha) + 20))} :
                   cur' = Append(cur, IF c <= Len(ValidAlpha) THEN ValidAlpha[c]
                                      ELSE <<97, 66, 55, 95, 46>>[(c % 5) + 1])
             /\ idx' = idx + 1 /\ UNCHANGED <<blk, curd>>
Next == PickBlock \/ PickCase \/ GrowComp \/ GrowValid

\* ---- vectors
HasCase == IF IsSimFamily THEN idx >= 0 ELSE idx >= 0 /\ blk >= 0
TheCase == IF Family = "composim" THEN [name |-> cur, ding |-> curd]
           ELSE IF Family = "validsim" THEN [name |-> cur]
           ELSE Case(idx)

Parts(name, ding) == LET cs == AglComponents(name)
                     IN [p \in 1..Len(cs) |-> LET r == AglComponent(cs[p], ding)
                                              IN [c |-> cs[p], cls |-> r.cls, text |-> r.text]]
TextVector(c) == [k |-> "totext", fam |-> Family, name |-> c.name, ding |-> c.ding,
                  text |-> ToText(c.name, c.ding), parts |-> Parts(c.name, c.ding)]
ValidVector(c) == [k |-> "valid", fam |-> Family, name |-> c.name, valid |-> Valid(c.name)]
Emit == HasCase => CSVWrite("%1$s", <<ToJson(IF IsValidFamily THEN ValidVector(TheCase) ELSE TextVector(TheCase))>>, OutFile)

\* ---- the specification's own checks
\* every table entry is mapped to the text its table lists (a Zapf Dingbats entry when the
\* flag is set, a glyph-list or AGLFN entry for both flag values: the lists share no name)
ListedText == (Family = "tables" /\ HasCase) =>
                 LET k == (idx \div 2) + 1 c == Case(idx)
                 IN (c.ding \/ k <= NG \/ k > NG + NZ) => ToText(c.name, c.ding) = TablesListed(k)
\* the text is the concatenation of the texts of the components
Concatenation == (HasCase /\ ~IsValidFamily) =>
                    LET c == TheCase ps == Parts(c.name, c.ding)
                        RECURSIVE Cat(_)
                        Cat(k) == IF k > Len(ps) THEN <<>> ELSE ps[k].text \o Cat(k + 1)
                    IN /\ ToText(c.name, c.ding) = Cat(1)
                       /\ \A p \in 1..Len(ps) : \A q \in 1..Len(ps[p].text) : IsScalar(ps[p].text[q])
\* nothing after the first period matters
SuffixIgnored == (HasCase /\ ~IsValidFamily) =>
                    LET c == TheCase
                    IN ToText(c.name \o <<46, 120, 95, 65>>, c.ding) = ToText(AglCutSuffix(c.name), c.ding)
\* the structural facts AGL.tla relies on, the round trip on every table-related scalar with both
\* flag values, and injectivity (pairwise) on these scalars.
\* (NOT claimed: Valid(FromScalar(r)).  Names formed through long compatibility expansions exceed
\* 31 characters, e.g. U+3217 gives parenleft_u110E_u1161_parenright; C16 does not ask for it.)
SelfCheck == (Family = "selfcheck" /\ blk = -1) =>
                /\ AglTablesSorted /\ AglTablesTyped /\ AglFNWellFormed /\ AglSearchSound
                /\ NG = 4281 /\ NZ = 201 /\ NA = 586
                /\ \A k \in 1..NA : RoundTrip(AglFN[k][1], FALSE) /\ RoundTrip(AglFN[k][1], TRUE)
                /\ \A k \in 1..Len(AglCompat) : RoundTrip(AglCompat[k][1], FALSE) /\ RoundTrip(AglCompat[k][1], TRUE)
\* the table documented by the library (compat.go) cannot make two characters share a name.
\* A failure here is a defect of the library's table, not of the specification.
CompatCheck == (Family = "selfcheck" /\ blk = -1) =>
                /\ AglCompatWellFormed
                /\ InjectiveByCount({AglCompat[k][1] : k \in 1..Len(AglCompat)} \cup {AglFN[k][1] : k \in 1..NA}
                                    \cup UNION {{AglCompat[k][2][q] : q \in 1..Len(AglCompat[k][2])} : k \in 1..Len(AglCompat)}
                                    \cup {0, 55295, 57344, 65535, 65536, 1114111})
=============================================================================
