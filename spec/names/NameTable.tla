------------------------------ MODULE NameTable ------------------------------
(***************************************************************************)
(* The lazily initialised glyph-name tables (type1/names, C18): N          *)
(* goroutines call lookup; the table is built on first use.  With the      *)
(* mutex (Locked = TRUE) every caller holds the lock while it tests for    *)
(* the table, builds it and reads from it.  TLC checks that the table is   *)
(* built at most once, that nobody reads a partially built table, and that *)
(* every caller gets the answer of the sequential execution.  With         *)
(* Locked = FALSE (test, build and read without the lock) TLC finds a      *)
(* reader of a half-built table: the properties are not vacuous.           *)
(***************************************************************************)
EXTENDS Integers, FiniteSets

CONSTANTS Procs, Locked
VARIABLES table,     \* "nil" | "partial" | "built"
          lock,      \* holder or 0
          pc,        \* per process: "idle" "test" "build1" "build2" "read" "done"
          builds, res
vars == <<table, lock, pc, builds, res>>

Init == table = "nil" /\ lock = 0 /\ pc = [p \in Procs |-> "idle"] /\ builds = 0 /\ res = [p \in Procs |-> "none"]

Acquire(p) == /\ pc[p] = "idle" /\ (Locked => lock = 0)
              /\ lock' = IF Locked THEN p ELSE lock
              /\ pc' = [pc EXCEPT ![p] = "test"] /\ UNCHANGED <<table, builds, res>>
Test(p) == /\ pc[p] = "test"
           /\ pc' = [pc EXCEPT ![p] = IF table = "nil" THEN "build1" ELSE "read"]
           /\ UNCHANGED <<table, lock, builds, res>>
\* building takes two steps: the map exists but is still being filled
Build1(p) == /\ pc[p] = "build1" /\ table' = "partial" /\ builds' = builds + 1
             /\ pc' = [pc EXCEPT ![p] = "build2"] /\ UNCHANGED <<lock, res>>
Build2(p) == /\ pc[p] = "build2" /\ table' = "built"
             /\ pc' = [pc EXCEPT ![p] = "read"] /\ UNCHANGED <<lock, builds, res>>
Read(p) == /\ pc[p] = "read"
           /\ res' = [res EXCEPT ![p] = table]
           /\ lock' = IF Locked THEN 0 ELSE lock
           /\ pc' = [pc EXCEPT ![p] = "done"] /\ UNCHANGED <<table, builds>>
Next == \E p \in Procs : Acquire(p) \/ Test(p) \/ Build1(p) \/ Build2(p) \/ Read(p)

BuildAtMostOnce == builds <= 1
NoPartialRead == \A p \in Procs : res[p] \in {"none", "built"}
MutualExclusion == Locked => Cardinality({p \in Procs : pc[p] \in {"test", "build1", "build2", "read"}}) <= 1
=============================================================================
