------------------------------ MODULE PSShapes ------------------------------
(***************************************************************************)
(* Size-parameterised hostile program shapes (C01b).  The claim of the     *)
(* specification is totality: for every shape and every size the           *)
(* interpreter call returns (PSMachine is total: every step either         *)
(* continues, ends the run or fails, and the budget bounds the number of   *)
(* steps).  TLC enumerates shape x size; the harness renders the program   *)
(* text for the size and runs it in a child process.                       *)
(*                                                                         *)
(* Termination of the model itself is checked on the small instances of    *)
(* these shapes by MC_PSProg (family limits).                              *)
(***************************************************************************)
EXTENDS Integers, Sequences, TLC, Json, CSV

CONSTANTS Sizes, OutFile,
          DepthOnly, \* TRUE: only the shapes of DepthBounded (C11)
          Exps      \* exponents e for the shapes whose parameter is a count of about 2^e

Shapes == {"nest-bind",        \* {{{...}}} bind          nesting = size
           "nest-exec",        \* {{{...}}} exec exec ... nesting = size
           "nest-arrays",      \* [[[...]]]               nesting = size
           "self-proc-exec",   \* /p {p} def p            (tail recursion under a budget)
           "self-proc-nontail",\* /p {p 1} def p
           "proc-in-itself",   \* /p {0} def //store p in itself: p 0 p put p exec
           "dict-begin-loop",  \* {currentdict begin} loop
           "push-loop",        \* {1} loop
           "exec-chain",       \* /a {b} def /b {a} def a
           "failing-handler",  \* errordict /typecheck {1 (x) add} put  1 (x) add
           "handler-recursion",\* errordict /undefined {zzz} put zzz
           "long-string",      \* (xxxx ... ) of size bytes
           "long-hex",         \* <00 ... > of size bytes
           "long-name",        \* /aaaa... of size bytes
           "many-dicts",       \* size times: 1 dict begin   (dict stack)
           "big-for",          \* 0 1 size {} for
           "deep-parens",      \* ((((...)))) nesting = size
           "unbalanced-close", \* }}}}... size times
           "copy-huge",        \* 1 2 3 <huge> copy
           "roll-huge",        \* 1 2 3 3 <huge> roll
           "cvx-nest-bind",    \* {} size { [ exch ] cvx } repeat bind   (nesting built at run time)
           "bind-shared",      \* {} size { [ exch dup ] cvx } repeat bind  (each level holds the previous one twice)
           "bind-self-multi",  \* a procedure stored in min(size, 24) of its own slots, then bound
           "default-handler",  \* errordict /typecheck get exec   (default handler without a pending error)
           "t1-seac-chain",    \* Type 1 font: size glyphs, each the seac composite of its predecessor with itself
           "t1-seac-self",     \* Type 1 font: a composite of itself, two composites of each other
           "alias-cycle",      \* /a {a} 0 get def a : a name whose value is the executable name itself (budget must strike)
           "alias-cycle-2",    \* /a {b} 0 get def /b {a} 0 get def b
           "xname-if-recursion",    \* /f { true { f } 0 get if 1 } def f : an executable name where if expects a procedure
           "xname-ifelse-recursion",\* /f { false { } { f } 0 get ifelse 1 } def f
           "xname-for-recursion",   \* /f { 0 1 0 { f } 0 get for 1 } def f
           "t1-seac-codes"}    \* Type 1 fonts whose seac names unassigned codes of StandardEncoding, with every encoding form

\* shapes parameterised by an exponent e: the counts 2^e - 1, 2^e and -(2^e) in every place of the input that
\* announces how many entries follow (a reader must not believe them: no allocation by announcement)
ExpShapes == {"afm-counts"}    \* AFM: StartCharMetrics / StartKernPairs / StartKernPairs0 / StartKernPairs1 / StartTrackKern / StartComposites n

\* recursion that is not in tail position: every level costs a level of nesting and a handful of operations, so the
\* nesting limit ends the run after (limit x a handful) operations, long before a budget of 10^6 does (C11: the
\* limits hold whatever kind of object a control operator is given to execute)
DepthBounded == {"self-proc-nontail", "exec-chain", "xname-if-recursion", "xname-ifelse-recursion", "xname-for-recursion"}

VARIABLE pick
Init == pick = <<>>
Next == /\ pick = <<>>
        /\ \/ \E sh \in (IF DepthOnly THEN DepthBounded ELSE Shapes), n \in Sizes : pick' = <<sh, n>>
           \/ (~DepthOnly /\ \E sh \in ExpShapes, e \in Exps : pick' = <<sh, e>>)
Emit == pick # <<>> => CSVWrite("%1$s", <<ToJson([shape |-> pick[1], size |-> pick[2], expect |-> IF pick[1] \in DepthBounded THEN "depth-limit" ELSE "returns"])>>, OutFile)
=============================================================================
