------------------------------- MODULE PSOps -------------------------------
(***************************************************************************)
(* PostScript Language Reference semantics of the data operators of the    *)
(* supported subset: stack, arithmetic, boolean, comparison, array,        *)
(* string, dictionary, font-directory and resource operators.              *)
(*                                                                         *)
(* DataOp(name, st, h, ds) maps operand stack st (top = last element),     *)
(* heap h and dictionary stack ds (sequence of dict cell ids, top = last)  *)
(* to a result [ok, st, h, ds, errs].  When a precondition is violated,    *)
(* errs is the *set* of error names the reference admits for it.           *)
(*                                                                         *)
(* Named deviations of the library that the properties do not object to    *)
(* (DESIGN.md 6.1, Appendix A): CvxCopies, AccessOpsAreNoops,              *)
(* DictKeysAreNames, MaxlengthAnyGE, DefinefontNoFID, ImplLimit65536.      *)
(***************************************************************************)
EXTENDS PSValues, StdEncData

\* fixed cells of a fresh interpreter
SysId == 1      UserId == 2     ErrId == 3      FontDirId == 4
StdEncId == 5   InternalId == 6 ResId == 7      CIDFontCatId == 8
CMapCatId == 9  ProcSetCatId == 10  CIDInitId == 11
NFixed == 11

\* Resource limits are parameters: the properties ask for *a* limit (C11), not for these
\* values.  The checks measure them on the library under test (vh probe-limits) and pass
\* them in; 65536 / 65536 / 65536 / 20 for the library as it stands (ImplLimit65536).
CONSTANTS ImplLimitArr, ImplLimitStr, ImplLimitDict,   \* largest array / string / dict that may be requested
          MaxDictStack
ImplLimitOf(kind) == CASE kind = "array" -> ImplLimitArr [] kind = "string" -> ImplLimitStr [] OTHER -> ImplLimitDict
InternalPass == BI(1183615869)

R(st, h, ds) == [ok |-> TRUE, st |-> st, h |-> h, ds |-> ds, errs |-> {}]
E(S) == [ok |-> FALSE, st |-> <<>>, h |-> <<>>, ds |-> <<>>, errs |-> S]
EU == E({"stackunderflow"})
ET == E({"typecheck"})
ER == E({"rangecheck"})
EUR == E({"stackunderflow", "rangecheck"})
\* too few operands: the operands that are present may be unsuitable as well, and the
\* reference does not fix which violation is reported when there are several
UnderflowE(st) == IF Len(st) = 0 THEN EU ELSE E({"stackunderflow", "typecheck", "rangecheck"})
\* union of the error sets of all violated preconditions; conds is a set of <<violated, names>>
Viol(conds) == UNION {c[2] : c \in {x \in conds : x[1]}}

A(st, k) == st[Len(st) - k]                 \* k-th operand from the top, 0 = top
Pop(st, n) == SubSeq(st, 1, Len(st) - n)
Push(st, v) == Append(st, v)

\* index of the topmost mark, 0 if none
RECURSIVE MarkPos(_, _)
MarkPos(st, j) == IF j = 0 THEN 0 ELSE IF st[j].t = "mark" THEN j ELSE MarkPos(st, j - 1)

\* x mod d for a BigInt x >= 0 and a native d, 0 < d < 65536
RECURSIVE MagModR(_, _, _, _)
MagModR(m, j, d, r) == IF j = 0 THEN r ELSE MagModR(m, j - 1, d, (r * BB + m[j]) % d)
ModSmall(x, d) == LET r == MagModR(x.m, Len(x.m), d, 0)
                  IN IF x.s >= 0 \/ r = 0 THEN r ELSE d - r

(***************************************************************************)
(* bulk copy of n elements from view src to view dst (element 0 first);    *)
(* both cells have the same kind and therefore the same default, so only   *)
(* the explicit entries are moved.  Reads happen before writes, as if      *)
(* through a temporary.                                                    *)
(***************************************************************************)
CopyRange(h, src, dst, n) ==
    LET sc == Cell(h, src.id)
        dc == Cell(h, dst.id)
        lo == dst.off
        hi == dst.off + n - 1
        keep == {j \in DOMAIN dc.m : j < lo \/ j > hi}
        moved == {j - src.off + dst.off : j \in {x \in DOMAIN sc.m : x >= src.off /\ x < src.off + n}}
        newm == [j \in keep \cup moved |->
                    IF j >= lo /\ j <= hi THEN sc.m[j - dst.off + src.off] ELSE dc.m[j]]
    IN SetCell(h, dst.id, [dc EXCEPT !.m = newm])

(***************************************************************************)
(* equality (eq / ne).  Result: "t", "f", "any" (reference leaves it open: *)
(* integer against real when the conversion is inexact).                   *)
(***************************************************************************)
NameBytesKnown == {"a", "b", "abc", "zz", "add", "x"}
NameBytes(s) == CASE s = "a" -> <<97>> [] s = "b" -> <<98>> [] s = "abc" -> <<97, 98, 99>>
                  [] s = "zz" -> <<122, 122>> [] s = "add" -> <<97, 100, 100>> [] s = "x" -> <<120>>
                  [] OTHER -> <<>>
IsText(v) == v.t = "str" \/ v.t = "name" \/ v.t = "xname"
\* composite objects are equal iff they share their value; whether two empty
\* intervals "share a value" is left open by the reference
SameView(a, b) == IF a.id = b.id /\ a.off = b.off /\ a.len = b.len THEN "t"
                  ELSE IF a.len = 0 /\ b.len = 0 THEN "any" ELSE "f"
B2S(b) == IF b THEN "t" ELSE "f"
EqV(h, a, b) ==
    IF a.t = "int" /\ b.t = "int" THEN B2S(a.i = b.i)
    ELSE IF a.t = "real" /\ b.t = "real" THEN B2S(DCmp(a.r, b.r) = 0)
    ELSE IF IsNum(a) /\ IsNum(b) THEN
        LET iv == IF a.t = "int" THEN a.i ELSE b.i
            rv == IF a.t = "int" THEN b.r ELSE a.r
            exact == DCmp(DExact(iv), rv) = 0
            conv == DCmp(DOfInt(iv), rv) = 0
        IN IF exact = conv THEN B2S(exact) ELSE "any"
    ELSE IF a.t = "str" /\ b.t = "str" THEN B2S(StrBytes(h, a) = StrBytes(h, b))
    ELSE IF IsText(a) /\ IsText(b) THEN
        IF a.t = "str" THEN (IF b.s \in NameBytesKnown THEN B2S(StrBytes(h, a) = NameBytes(b.s)) ELSE "skip")
        ELSE IF b.t = "str" THEN (IF a.s \in NameBytesKnown THEN B2S(StrBytes(h, b) = NameBytes(a.s)) ELSE "skip")
        ELSE B2S(a.s = b.s)
    ELSE IF a.t # b.t THEN
        \* arrays and procedures sharing a value are equal whatever their attribute
        IF {a.t, b.t} = {"arr", "proc"} THEN SameView(a, b) ELSE "f"
    ELSE IF a.t = "bool" THEN B2S(a.b = b.b)
    ELSE IF a.t = "mark" \/ a.t = "nil" THEN "t"
    ELSE IF a.t = "dict" THEN B2S(a.id = b.id)
    ELSE IF a.t = "arr" \/ a.t = "proc" THEN SameView(a, b)
    ELSE IF a.t = "op" THEN B2S(a.s = b.s)
    ELSE "skip"
AnyBool == [t |-> "anybool"]
EqResult(s, neg) == IF s = "any" THEN AnyBool
                    ELSE IF neg THEN BoolV(s = "f") ELSE BoolV(s = "t")

TypeName(v) == CASE v.t \in {"int", "anyge"} -> "integertype" [] v.t = "real" -> "realtype"
                 [] v.t = "bool" -> "booleantype" [] v.t = "arr" -> "arraytype"
                 [] v.t = "proc" -> "arraytype" [] v.t = "str" -> "stringtype"
                 [] v.t = "name" -> "nametype" [] v.t = "xname" -> "nametype"
                 [] v.t = "dict" -> "dicttype" [] v.t = "op" -> "operatortype"
                 [] v.t = "mark" -> "marktype" [] v.t = "nil" -> "filetype"
                 [] OTHER -> "unknown"

\* dictionary stack search, top-down; 0 if not found
RECURSIVE WhereR(_, _, _, _)
WhereR(h, ds, j, key) == IF j = 0 THEN 0
                         ELSE IF key \in DOMAIN Cell(h, ds[j]).m THEN ds[j]
                         ELSE WhereR(h, ds, j - 1, key)
Where(h, ds, key) == WhereR(h, ds, Len(ds), key)

Arith(op, a, b) ==     \* a, b numbers
    IF a.t = "int" /\ b.t = "int" THEN
        LET x == CASE op = "add" -> Add(a.i, b.i) [] op = "sub" -> Sub(a.i, b.i) [] OTHER -> Mul(a.i, b.i)
        IN IF InInt64(x) THEN IntV(x)
           ELSE RealV(CASE op = "add" -> DAdd(DOfInt(a.i), DOfInt(b.i))
                        [] op = "sub" -> DSub(DOfInt(a.i), DOfInt(b.i))
                        [] OTHER -> DMul(DOfInt(a.i), DOfInt(b.i)))
    ELSE RealV(CASE op = "add" -> DAdd(ToReal(a), ToReal(b))
                 [] op = "sub" -> DSub(ToReal(a), ToReal(b))
                 [] OTHER -> DMul(ToReal(a), ToReal(b)))

NewContainer(kind, st, h, ds) ==
    IF Len(st) < 1 THEN EU
    ELSE LET n == A(st, 0)
         IN IF n.t # "int" THEN ET
            ELSE IF n.i.s < 0 THEN ER
            ELSE IF Gt(n.i, BI(ImplLimitOf(kind))) THEN E({"limitcheck", "VMerror"})
            ELSE LET k == ToNat(n.i)
                     id == NewId(h)
                 IN CASE kind = "array" -> R(Push(Pop(st, 1), ArrV(id, 0, k)), Alloc(h, ArrCell(k)), ds)
                      [] kind = "string" -> R(Push(Pop(st, 1), StrV(id, 0, k)), Alloc(h, StrCell(k)), ds)
                      [] OTHER -> R(Push(Pop(st, 1), DictV(id)), Alloc(h, DictCell), ds)

OpCopy(st, h, ds) ==
    IF Len(st) < 1 THEN EU
    ELSE IF A(st, 0).t = "int" THEN
        LET n == A(st, 0).i
        IN IF n.s < 0 THEN ER
           ELSE IF Gt(n, BI(Len(st) - 1)) THEN EUR
           ELSE LET k == ToNat(n)
                    base == Pop(st, 1)
                IN R(base \o SubSeq(base, Len(base) - k + 1, Len(base)), h, ds)
    ELSE IF Len(st) < 2 THEN UnderflowE(st)
    ELSE LET a == A(st, 1)
             b == A(st, 0)
             kinds == {"arr", "str", "dict"}
             V == Viol({<<a.t \notin kinds, {"typecheck"}>>, <<b.t \notin kinds, {"typecheck"}>>,
                        <<a.t \in kinds /\ b.t \in kinds /\ a.t # b.t, {"typecheck"}>>,
                        <<a.t = b.t /\ a.t \in {"arr", "str"} /\ b.len < a.len, {"rangecheck"}>>})
         IN IF V # {} THEN E(V)
            ELSE IF a.t = "dict" THEN
                R(Push(Pop(st, 2), b), SetCell(h, b.id, [Cell(h, b.id) EXCEPT !.m = Cell(h, a.id).m @@ @]), ds)
            ELSE R(Push(Pop(st, 2), [b EXCEPT !.len = a.len]), CopyRange(h, a, b, a.len), ds)

OpRoll(st, h, ds) ==
    IF Len(st) < 2 THEN UnderflowE(st)
    ELSE LET n == A(st, 1)
             j == A(st, 0)
             nint == n.t = "int"
             V == Viol({<<~nint, {"typecheck"}>>, <<j.t # "int", {"typecheck"}>>,
                        <<nint /\ n.i.s < 0, {"rangecheck"}>>,
                        <<nint /\ n.i.s >= 0 /\ Gt(n.i, BI(Len(st) - 2)), {"stackunderflow", "rangecheck"}>>})
         IN IF V # {} THEN E(V)
            ELSE LET k == ToNat(n.i)
                     base == Pop(st, 2)
                 IN IF k = 0 THEN R(base, h, ds)
                    ELSE LET jj == ModSmall(j.i, k)
                             lo == Len(base) - k     \* window = base[lo+1 .. lo+k]
                             win == [p \in 1..k |-> base[lo + 1 + ((p - 1 - jj + k) % k)]]
                         IN R(SubSeq(base, 1, lo) \o win, h, ds)

OpGet(st, h, ds) ==
    IF Len(st) < 2 THEN UnderflowE(st)
    ELSE LET o == A(st, 1)
             k == A(st, 0)
             V == Viol({<<~IsView(o) /\ o.t # "dict", {"typecheck"}>>,
                        <<IsView(o) /\ k.t # "int", {"typecheck"}>>,
                        <<IsView(o) /\ k.t = "int" /\ (k.i.s < 0 \/ Ge(k.i, BI(o.len))), {"rangecheck"}>>,
                        <<o.t = "dict" /\ k.t # "name", {"typecheck"}>>,
                        <<o.t = "dict" /\ k.t = "name" /\ ~DHas(h, o, k.s), {"undefined"}>>,
                        \* an unsuitable container with an index that fits no container at all
                        <<~IsView(o) /\ o.t # "dict" /\ k.t \notin {"int", "name"}, {"typecheck"}>>})
         IN IF V # {} THEN E(V)
            ELSE IF IsView(o) THEN
                LET x == VGet(h, o, ToNat(k.i))
                IN R(Push(Pop(st, 2), IF o.t = "str" THEN IntN(x) ELSE x), h, ds)
            ELSE R(Push(Pop(st, 2), DGet(h, o, k.s)), h, ds)

OpPut(st, h, ds) ==
    IF Len(st) < 3 THEN UnderflowE(st)
    ELSE LET o == A(st, 2)
             k == A(st, 1)
             x == A(st, 0)
             V == Viol({<<~IsView(o) /\ o.t # "dict", {"typecheck"}>>,
                        <<IsView(o) /\ k.t # "int", {"typecheck"}>>,
                        <<IsView(o) /\ k.t = "int" /\ (k.i.s < 0 \/ Ge(k.i, BI(o.len))), {"rangecheck"}>>,
                        <<o.t = "str" /\ x.t # "int", {"typecheck"}>>,
                        <<o.t = "str" /\ x.t = "int" /\ (x.i.s < 0 \/ Gt(x.i, BI(255))), {"rangecheck"}>>,
                        <<o.t = "dict" /\ k.t # "name", {"typecheck"}>>})
         IN IF V # {} THEN E(V)
            ELSE IF o.t = "str" THEN R(Pop(st, 3), VPut(h, o, ToNat(k.i), ToNat(x.i)), ds)
            ELSE IF IsView(o) THEN R(Pop(st, 3), VPut(h, o, ToNat(k.i), x), ds)
            ELSE R(Pop(st, 3), DPut(h, o, k.s, x), ds)

OpGetinterval(st, h, ds) ==
    IF Len(st) < 3 THEN UnderflowE(st)
    ELSE LET o == A(st, 2)
             i == A(st, 1)
             c == A(st, 0)
             ok == o.t = "arr" \/ o.t = "str"
             V == Viol({<<~ok, {"typecheck"}>>, <<i.t # "int", {"typecheck"}>>, <<c.t # "int", {"typecheck"}>>,
                        <<i.t = "int" /\ i.i.s < 0, {"rangecheck"}>>, <<c.t = "int" /\ c.i.s < 0, {"rangecheck"}>>,
                        <<ok /\ i.t = "int" /\ i.i.s >= 0 /\ Gt(i.i, BI(o.len)), {"rangecheck"}>>,
                        <<ok /\ i.t = "int" /\ c.t = "int" /\ i.i.s >= 0 /\ c.i.s >= 0
                            /\ Gt(Add(i.i, c.i), BI(o.len)), {"rangecheck"}>>})
         IN IF V # {} THEN E(V)
            ELSE R(Push(Pop(st, 3), [o EXCEPT !.off = o.off + ToNat(i.i), !.len = ToNat(c.i)]), h, ds)

OpPutinterval(st, h, ds) ==
    IF Len(st) < 3 THEN UnderflowE(st)
    ELSE LET d == A(st, 2)
             i == A(st, 1)
             s == A(st, 0)
             ok == d.t = "arr" \/ d.t = "str"
             V == Viol({<<~ok, {"typecheck"}>>, <<i.t # "int", {"typecheck"}>>,
                        <<s.t # d.t, {"typecheck"}>>,
                        <<i.t = "int" /\ i.i.s < 0, {"rangecheck"}>>,
                        <<ok /\ i.t = "int" /\ i.i.s >= 0 /\ Gt(i.i, BI(d.len)), {"rangecheck"}>>,
                        <<ok /\ s.t = d.t /\ i.t = "int" /\ i.i.s >= 0
                            /\ Gt(Add(i.i, BI(s.len)), BI(d.len)), {"rangecheck"}>>})
         IN IF V # {} THEN E(V)
            ELSE R(Pop(st, 3),
                   CopyRange(h, s, [d EXCEPT !.off = d.off + ToNat(i.i)], s.len), ds)

OpListEnd(st, h, ds) ==
    LET p == MarkPos(st, Len(st))
    IN IF p = 0 THEN E({"unmatchedmark"})
       ELSE LET elems == SubSeq(st, p + 1, Len(st))
                id == NewId(h)
            IN R(Push(SubSeq(st, 1, p - 1), ArrV(id, 0, Len(elems))), Alloc(h, ArrCellOf(elems)), ds)

RECURSIVE DictOfPairs(_, _)
DictOfPairs(s, j) ==      \* s = k1 v1 k2 v2 ..., later duplicates win
    IF j > Len(s) THEN EmptyFn
    ELSE DictOfPairs(s, j + 2) @@ (s[j].s :> s[j + 1])
OpDictEnd(st, h, ds) ==
    LET p == MarkPos(st, Len(st))
    IN IF p = 0 THEN E({"unmatchedmark"})
       ELSE LET elems == SubSeq(st, p + 1, Len(st))
                V == Viol({<<Len(elems) % 2 = 1, {"rangecheck"}>>,
                           <<\E j \in 1..Len(elems) : j % 2 = 1 /\ elems[j].t # "name", {"typecheck"}>>})
            IN IF V # {} THEN E(V)
               ELSE R(Push(SubSeq(st, 1, p - 1), DictV(NewId(h))),
                      Alloc(h, [k |-> "dict", m |-> DictOfPairs(elems, 1)]), ds)

OpDefineresource(st, h, ds) ==
    IF Len(st) < 3 THEN UnderflowE(st)
    ELSE LET key == A(st, 2)
             inst == A(st, 1)
             cat == A(st, 0)
             catok == cat.t = "name" /\ DHas(h, DictV(ResId), cat.s)
             V == Viol({<<key.t # "name", {"typecheck"}>>, <<cat.t # "name", {"typecheck"}>>,
                        <<cat.t = "name" /\ ~catok, {"undefined"}>>,
                        <<cat.t = "name" /\ cat.s = "CMap"
                            /\ (inst.t # "dict" \/ ~DHas(h, inst, "CodeMap")
                                \/ (DHas(h, inst, "CodeMap") /\ DGet(h, inst, "CodeMap").t # "cmapinfo")),
                          {"typecheck"}>>})
         IN IF V # {} THEN E(V)
            ELSE R(Push(Pop(st, 3), inst), DPut(h, DGet(h, DictV(ResId), cat.s), key.s, inst), ds)

OpFindresource(st, h, ds) ==
    IF Len(st) < 2 THEN UnderflowE(st)
    ELSE LET key == A(st, 1)
             cat == A(st, 0)
             catok == cat.t = "name" /\ DHas(h, DictV(ResId), cat.s)
             V == Viol({<<cat.t # "name", {"typecheck"}>>, <<cat.t = "name" /\ ~catok, {"undefined"}>>,
                        <<key.t # "name", {"typecheck", "undefinedresource"}>>,
                        <<catok /\ key.t = "name" /\ ~DHas(h, DGet(h, DictV(ResId), cat.s), key.s), {"undefinedresource"}>>})
         IN IF V # {} THEN E(V)
            ELSE R(Push(Pop(st, 2), DGet(h, DGet(h, DictV(ResId), cat.s), key.s)), h, ds)

\* operators that need no operand
Nullary == {"mark", "[", "<<", "count", "currentdict", "currentfile", "matrix",
            "cleartomark", "]", ">>", "end", "readonly", "executeonly", "noaccess"}

DataOp(op, st, h, ds) ==
    CASE op = "pop" -> IF Len(st) < 1 THEN EU ELSE R(Pop(st, 1), h, ds)
      [] op = "dup" -> IF Len(st) < 1 THEN EU ELSE R(Push(st, A(st, 0)), h, ds)
      [] op = "exch" -> IF Len(st) < 2 THEN EU ELSE R(Pop(st, 2) \o <<A(st, 0), A(st, 1)>>, h, ds)
      [] op = "copy" -> OpCopy(st, h, ds)
      [] op = "index" ->
            IF Len(st) < 1 THEN EU
            ELSE LET n == A(st, 0)
                 IN IF n.t # "int" THEN (IF Len(st) < 2 THEN E({"stackunderflow", "typecheck"}) ELSE ET)
                    ELSE IF n.i.s < 0 THEN (IF Len(st) < 2 THEN EUR ELSE ER)
                    ELSE IF Ge(n.i, BI(Len(st) - 1)) THEN EUR
                    ELSE R(Push(Pop(st, 1), st[Len(st) - 1 - ToNat(n.i)]), h, ds)
      [] op = "roll" -> OpRoll(st, h, ds)
      [] op = "count" -> R(Push(st, IntN(Len(st))), h, ds)
      [] op \in {"mark", "[", "<<"} -> R(Push(st, MarkV), h, ds)
      [] op = "]" -> OpListEnd(st, h, ds)
      [] op = ">>" -> OpDictEnd(st, h, ds)
      [] op = "cleartomark" ->
            LET p == MarkPos(st, Len(st))
            IN IF p = 0 THEN E({"unmatchedmark"}) ELSE R(SubSeq(st, 1, p - 1), h, ds)
      [] op = "abs" ->
            IF Len(st) < 1 THEN EU
            ELSE LET x == A(st, 0)
                 IN IF x.t = "int" THEN
                        (IF x.i = MinInt64 THEN R(Push(Pop(st, 1), RealV(DOfInt(TwoPow(63)))), h, ds)
                         ELSE R(Push(Pop(st, 1), IntV(Abs(x.i))), h, ds))
                    ELSE IF x.t = "real" THEN R(Push(Pop(st, 1), RealV(DAbs(x.r))), h, ds)
                    ELSE ET
      [] op \in {"add", "sub", "mul"} ->
            IF Len(st) < 2 THEN UnderflowE(st)
            ELSE IF ~IsNum(A(st, 1)) \/ ~IsNum(A(st, 0)) THEN ET
            ELSE R(Push(Pop(st, 2), Arith(op, A(st, 1), A(st, 0))), h, ds)
      [] op \in {"and", "or"} ->
            IF Len(st) < 2 THEN UnderflowE(st)
            ELSE LET a == A(st, 1)
                     b == A(st, 0)
                 IN IF a.t = "bool" /\ b.t = "bool" THEN
                        R(Push(Pop(st, 2), BoolV(IF op = "and" THEN a.b /\ b.b ELSE a.b \/ b.b)), h, ds)
                    ELSE IF a.t = "int" /\ b.t = "int" THEN
                        R(Push(Pop(st, 2), IntV(IF op = "and" THEN And64(a.i, b.i) ELSE Or64(a.i, b.i))), h, ds)
                    ELSE ET
      [] op = "not" ->
            IF Len(st) < 1 THEN EU
            ELSE LET a == A(st, 0)
                 IN IF a.t = "bool" THEN R(Push(Pop(st, 1), BoolV(~a.b)), h, ds)
                    ELSE IF a.t = "int" THEN R(Push(Pop(st, 1), IntV(Not64(a.i))), h, ds)
                    ELSE ET
      [] op \in {"eq", "ne"} ->
            IF Len(st) < 2 THEN EU
            ELSE LET s == EqV(h, A(st, 1), A(st, 0))
                 IN IF s = "skip" THEN E({"?skip"})
                    ELSE R(Push(Pop(st, 2), EqResult(s, op = "ne")), h, ds)
      [] op \in {"array", "string", "dict"} -> NewContainer(op, st, h, ds)
      [] op = "length" ->
            IF Len(st) < 1 THEN EU
            ELSE LET o == A(st, 0)
                 IN IF IsView(o) THEN R(Push(Pop(st, 1), IntN(o.len)), h, ds)
                    ELSE IF o.t = "dict" THEN R(Push(Pop(st, 1), IntN(DLen(h, o))), h, ds)
                    ELSE IF o.t = "name" \/ o.t = "xname" THEN R(Push(Pop(st, 1), IntN(Len(o.s))), h, ds)
                    ELSE ET
      [] op = "get" -> OpGet(st, h, ds)
      [] op = "put" -> OpPut(st, h, ds)
      [] op = "getinterval" -> OpGetinterval(st, h, ds)
      [] op = "putinterval" -> OpPutinterval(st, h, ds)
      [] op = "begin" ->
            IF Len(st) < 1 THEN EU
            ELSE IF A(st, 0).t # "dict" THEN ET
            ELSE IF Len(ds) >= MaxDictStack THEN E({"dictstackoverflow"})
            ELSE R(Pop(st, 1), h, Append(ds, A(st, 0).id))
      [] op = "end" ->
            IF Len(ds) <= 2 THEN E({"dictstackunderflow"}) ELSE R(st, h, SubSeq(ds, 1, Len(ds) - 1))
      [] op = "def" ->
            IF Len(st) < 2 THEN UnderflowE(st)
            ELSE IF A(st, 1).t # "name" THEN ET
            ELSE R(Pop(st, 2), DPut(h, DictV(ds[Len(ds)]), A(st, 1).s, A(st, 0)), ds)
      [] op = "load" ->
            IF Len(st) < 1 THEN EU
            ELSE IF A(st, 0).t # "name" THEN ET
            ELSE LET d == Where(h, ds, A(st, 0).s)
                 IN IF d = 0 THEN E({"undefined"})
                    ELSE R(Push(Pop(st, 1), DGet(h, DictV(d), A(st, 0).s)), h, ds)
      [] op = "where" ->
            IF Len(st) < 1 THEN EU
            ELSE IF A(st, 0).t # "name" THEN ET
            ELSE LET d == Where(h, ds, A(st, 0).s)
                 IN IF d = 0 THEN R(Push(Pop(st, 1), BoolV(FALSE)), h, ds)
                    ELSE R(Pop(st, 1) \o <<DictV(d), BoolV(TRUE)>>, h, ds)
      [] op = "known" ->
            IF Len(st) < 2 THEN UnderflowE(st)
            ELSE IF A(st, 1).t # "dict" \/ A(st, 0).t # "name" THEN ET
            ELSE R(Push(Pop(st, 2), BoolV(DHas(h, A(st, 1), A(st, 0).s))), h, ds)
      [] op = "maxlength" ->
            IF Len(st) < 1 THEN EU
            ELSE IF A(st, 0).t # "dict" THEN ET
            ELSE R(Push(Pop(st, 1), AnyGE(DLen(h, A(st, 0)))), h, ds)
      [] op = "currentdict" -> R(Push(st, DictV(ds[Len(ds)])), h, ds)
      [] op = "currentfile" -> R(Push(st, NilV), h, ds)
      [] op = "type" ->
            IF Len(st) < 1 THEN EU
            ELSE R(Push(Pop(st, 1), NameV(TypeName(A(st, 0)))), h, ds)
      [] op = "definefont" ->
            IF Len(st) < 2 THEN UnderflowE(st)
            ELSE IF A(st, 1).t # "name" \/ A(st, 0).t # "dict" THEN ET
            ELSE R(Push(Pop(st, 2), A(st, 0)), DPut(h, DictV(FontDirId), A(st, 1).s, A(st, 0)), ds)
      [] op = "findfont" ->
            IF Len(st) < 1 THEN EU
            ELSE IF A(st, 0).t # "name" THEN ET
            ELSE IF ~DHas(h, DictV(FontDirId), A(st, 0).s) THEN E({"invalidfont"})
            ELSE R(Push(Pop(st, 1), DGet(h, DictV(FontDirId), A(st, 0).s)), h, ds)
      [] op = "defineresource" -> OpDefineresource(st, h, ds)
      [] op = "findresource" -> OpFindresource(st, h, ds)
      [] op = "cvx" ->
            IF Len(st) < 1 THEN EU
            ELSE LET o == A(st, 0)
                 IN IF o.t = "arr" THEN     \* CvxCopies: a fresh procedure with the same elements
                        LET id == NewId(h)
                            h1 == Alloc(h, ArrCell(o.len))
                        IN R(Push(Pop(st, 1), ProcV(id, 0, o.len)),
                             CopyRange(h1, o, ArrV(id, 0, o.len), o.len), ds)
                    ELSE R(st, h, ds)
      [] op \in {"readonly", "executeonly", "noaccess"} -> R(st, h, ds)   \* AccessOpsAreNoops
      [] op = "matrix" ->
            R(Push(st, ArrV(NewId(h), 0, 6)),
              Alloc(h, ArrCellOf(<<IntN(1), IntN(0), IntN(0), IntN(1), IntN(0), IntN(0)>>)), ds)
      [] op = "internaldict" ->
            IF Len(st) < 1 THEN EU
            ELSE IF A(st, 0).t # "int" THEN ET
            ELSE IF A(st, 0).i # InternalPass THEN E({"invalidaccess"})
            ELSE R(Push(Pop(st, 1), DictV(InternalId)), h, ds)
      [] OTHER -> E({"?unknownop"})

DataOps == {"pop", "dup", "exch", "copy", "index", "roll", "count", "mark", "[", "<<", "]", ">>",
            "cleartomark", "abs", "add", "sub", "mul", "and", "or", "not", "eq", "ne", "array",
            "string", "dict", "length", "get", "put", "getinterval", "putinterval", "begin", "end",
            "def", "load", "where", "known", "maxlength", "currentdict", "currentfile", "type",
            "definefont", "findfont", "defineresource", "findresource", "cvx", "readonly",
            "executeonly", "noaccess", "matrix", "internaldict"}
ControlOps == {"exec", "if", "ifelse", "for", "repeat", "loop", "forall", "exit", "stop", "bind"}
FileOps == {"eexec", "closefile", "readstring"}
AllOps == DataOps \cup ControlOps \cup FileOps

(***************************************************************************)
(* The heap of a fresh interpreter (postscript.NewInterpreter).            *)
(***************************************************************************)
CIDInitOps == {"begincmap", "endcmap", "usecmap", "begincodespacerange", "endcodespacerange",
               "begincidchar", "endcidchar", "begincidrange", "endcidrange", "beginbfchar",
               "endbfchar", "beginbfrange", "endbfrange", "beginnotdefchar", "endnotdefchar",
               "beginnotdefrange", "endnotdefrange"}
ErrorNames == {"configurationerror", "dictfull", "dictstackoverflow", "dictstackunderflow",
               "execstackoverflow", "handleerror", "interrupt", "invalidaccess", "invalidexit",
               "invalidfileaccess", "invalidfont", "invalidrestore", "ioerror", "limitcheck",
               "nocurrentpoint", "rangecheck", "stackoverflow", "stackunderflow", "syntaxerror",
               "timeout", "typecheck", "undefined", "undefinedfilename", "undefinedresource",
               "undefinedresult", "unmatchedmark", "unregistered", "VMerror"}
SysDictFn == [n \in AllOps |-> OpV(n)]
             @@ ("true" :> BoolV(TRUE)) @@ ("false" :> BoolV(FALSE))
             @@ ("systemdict" :> DictV(SysId)) @@ ("userdict" :> DictV(UserId))
             @@ ("errordict" :> DictV(ErrId)) @@ ("FontDirectory" :> DictV(FontDirId))
             @@ ("StandardEncoding" :> ArrV(StdEncId, 0, 256))
FreshHeap == <<
    [k |-> "dict", m |-> SysDictFn],                                   \* 1 systemdict
    DictCell,                                                          \* 2 userdict
    [k |-> "dict", m |-> [n \in ErrorNames |-> OpV(".defaulterrorhandler")]],   \* 3 errordict
    DictCell,                                                          \* 4 FontDirectory
    [k |-> "arr", n |-> 256, d |-> NilV, m |-> [j \in 0..255 |-> NameV(StdEnc[j + 1])]],  \* 5
    DictCell,                                                          \* 6 internaldict
    [k |-> "dict", m |-> ("Font" :> DictV(FontDirId)) @@ ("CIDFont" :> DictV(CIDFontCatId))
                         @@ ("CMap" :> DictV(CMapCatId)) @@ ("ProcSet" :> DictV(ProcSetCatId))],  \* 7
    DictCell,                                                          \* 8 CIDFont category
    DictCell,                                                          \* 9 CMap category
    [k |-> "dict", m |-> ("CIDInit" :> DictV(CIDInitId))],             \* 10 ProcSet category
    [k |-> "dict", m |-> [n \in CIDInitOps |-> OpV(n)]]                \* 11 CIDInit
>>
FreshDictStack == <<SysId, UserId>>

=============================================================================
