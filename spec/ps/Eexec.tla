------------------------------- MODULE Eexec -------------------------------
(***************************************************************************)
(* The Adobe Type 1 stream cipher (Adobe Type 1 Font Format, chapter 7):   *)
(*   plain  = cipher XOR (R >> 8)                                          *)
(*   R'     = ((cipher + R) * C1 + C2) mod 65536                           *)
(* with C1 = 52845, C2 = 22719, R0 = 55665 for eexec and 4330 for          *)
(* charstrings.  TLC integers are 32 bit, so the product is formed from    *)
(* partial products that stay below 2^31.                                  *)
(*                                                                         *)
(* Also: the rule that tells binary from hexadecimal eexec sections, and   *)
(* when four leading cipher bytes are legal for a form.                    *)
(***************************************************************************)
EXTENDS Integers, Sequences, Bitwise

C1 == 52845
C2 == 22719
R0Eexec == 55665
R0Charstring == 4330

\* (x * C1) mod 65536 for 0 <= x < 65536 without leaving 31 bits:
\* C1 = 206 * 256 + 109
MulC1(x) == (x * 109 + ((x * 206) % 256) * 256) % 65536
NextR(r, c) == (MulC1((c + r) % 65536) + C2) % 65536

DecByte(r, c) == c ^^ (r \div 256)          \* plain byte
EncByte(r, p) == p ^^ (r \div 256)          \* cipher byte

RECURSIVE DecryptR(_, _, _)
DecryptR(cs, j, key) == IF j > Len(cs) THEN <<>>
                        ELSE LET n == NextR(key, cs[j])
                             IN IF n >= 0 THEN <<DecByte(key, cs[j])>> \o DecryptR(cs, j + 1, n) ELSE <<>>
Decrypt(r0, cs) == DecryptR(cs, 1, r0)
RECURSIVE EncryptR(_, _, _)
EncryptR(ps, j, key) == IF j > Len(ps) THEN <<>>
                        ELSE LET c == EncByte(key, ps[j])
                                 n == NextR(key, c)
                             IN IF n >= 0 THEN <<c>> \o EncryptR(ps, j + 1, n) ELSE <<>>
Encrypt(r0, ps) == EncryptR(ps, 1, r0)

\* state of the cipher after the cipher bytes cs (the test n >= 0 makes TLC evaluate the
\* new key before it recurses instead of building a chain of unevaluated arguments)
RECURSIVE StateAfter(_, _, _)
StateAfter(cs, j, key) == IF j > Len(cs) THEN key
                          ELSE LET n == NextR(key, cs[j]) IN IF n >= 0 THEN StateAfter(cs, j + 1, n) ELSE -1

IsHexDigit(c) == (c >= 48 /\ c <= 57) \/ (c >= 65 /\ c <= 70) \/ (c >= 97 /\ c <= 102)
IsBlank(c) == c \in {32, 9, 13, 10}
\* a section is binary iff one of its first four bytes is not a hexadecimal digit
IsBinary(c4) == \E j \in 1..4 : ~IsHexDigit(c4[j])
\* legal lead bytes of a binary section: the first is not white space (the reader skips
\* white space after "eexec"), and the four are not all hexadecimal digits
LegalBinaryLead(c4) == ~IsBlank(c4[1]) /\ IsBinary(c4)

\* classes of a lead byte, as the detector sees it
ByteClass(c) == IF c >= 48 /\ c <= 57 THEN "digit"
                ELSE IF c >= 97 /\ c <= 102 THEN "af"
                ELSE IF c >= 65 /\ c <= 70 THEN "AF"
                ELSE IF IsBlank(c) THEN "blank" ELSE "other"
=============================================================================
