------------------------------ MODULE CIDInit ------------------------------
(***************************************************************************)
(* The CIDInit procedure set used by CMap resource files (PLRM 5.11.4,     *)
(* Adobe Technical Note 5014): begincmap / endcmap / usecmap and the       *)
(* begin* / end* pairs of the seven block kinds.                           *)
(*                                                                         *)
(* cm is the scratch state of a CMap under construction:                   *)
(*   on        inside begincmap .. endcmap                                 *)
(*   use       name given to usecmap ("" if none)                          *)
(*   csr       code space ranges   <<[lo, hi]>>       (byte sequences)     *)
(*   cidchars, bfchars, ndchars     <<[src, dst]>>                         *)
(*   cidranges, bfranges, ndranges  <<[lo, hi, dst]>>                      *)
(*   pendn     entry count announced by the last begin*                    *)
(* endcmap sorts every table (stable; code space ranges by length, then    *)
(* low code; the others by source / low code), stores the result in a      *)
(* "cmapinfo" heap cell and puts it under /CodeMap in the current dict.    *)
(***************************************************************************)
EXTENDS PSOps

CmOff == [on |-> FALSE, use |-> "", csr |-> <<>>, cidchars |-> <<>>, cidranges |-> <<>>,
          bfchars |-> <<>>, bfranges |-> <<>>, ndchars |-> <<>>, ndranges |-> <<>>, pendn |-> 0]
CmFresh == [CmOff EXCEPT !.on = TRUE]
MaxBlock == 100
CMapInfoV(id) == [t |-> "cmapinfo", id |-> id]

RC(st, h, ds, cm) == [ok |-> TRUE, st |-> st, h |-> h, ds |-> ds, cm |-> cm, errs |-> {}]
EC(S) == [ok |-> FALSE, st |-> <<>>, h |-> <<>>, ds |-> <<>>, cm |-> CmOff, errs |-> S]

\* bytes.Compare(a, b) < 0
RECURSIVE BytesLessR(_, _, _)
BytesLessR(a, b, j) ==
    IF j > Len(a) THEN j <= Len(b)
    ELSE IF j > Len(b) THEN FALSE
    ELSE IF a[j] < b[j] THEN TRUE
    ELSE IF a[j] > b[j] THEN FALSE
    ELSE BytesLessR(a, b, j + 1)
BytesLess(a, b) == BytesLessR(a, b, 1)

\* stable insertion sort of a sequence of entries; mode selects the order
LessBy(mode, x, y) ==
    CASE mode = "csr" -> (IF Len(x.lo) # Len(y.lo) THEN Len(x.lo) < Len(y.lo) ELSE BytesLess(x.lo, y.lo))
      [] mode = "src" -> BytesLess(x.src, y.src)
      [] OTHER -> BytesLess(x.lo, y.lo)
RECURSIVE InsertSorted(_, _, _)
InsertSorted(s, x, mode) ==
    IF s = <<>> THEN <<x>>
    ELSE IF LessBy(mode, x, Head(s)) THEN <<x>> \o s
    ELSE <<Head(s)>> \o InsertSorted(Tail(s), x, mode)
RECURSIVE SortBy(_, _)
SortBy(s, mode) ==
    IF s = <<>> THEN <<>>
    ELSE InsertSorted(SortBy(SubSeq(s, 1, Len(s) - 1), mode), s[Len(s)], mode)

Kinds == {"codespacerange", "cidchar", "cidrange", "bfchar", "bfrange", "notdefchar", "notdefrange"}
CidArity(kind) == IF kind \in {"cidrange", "bfrange", "notdefrange"} THEN 3 ELSE 2

\* one entry of a block; returns [ok, e, errs]
Entry(kind, h, x, y, z) ==
    IF kind = "codespacerange" THEN
        IF x.t # "str" \/ y.t # "str" THEN [ok |-> FALSE, errs |-> {"typecheck"}]
        ELSE IF x.len # y.len THEN [ok |-> FALSE, errs |-> {"rangecheck"}]
        ELSE [ok |-> TRUE, e |-> [lo |-> StrBytes(h, x), hi |-> StrBytes(h, y)]]
    ELSE IF kind \in {"cidchar", "notdefchar", "bfchar"} THEN
        IF x.t # "str" THEN [ok |-> FALSE, errs |-> {"typecheck"}]
        ELSE IF kind = "bfchar" /\ ~(y.t = "str" \/ y.t = "name") THEN [ok |-> FALSE, errs |-> {"typecheck"}]
        ELSE IF kind # "bfchar" /\ y.t # "int" THEN [ok |-> FALSE, errs |-> {"typecheck"}]
        ELSE [ok |-> TRUE, e |-> [src |-> StrBytes(h, x), dst |-> y]]
    ELSE \* ranges
        IF x.t # "str" \/ y.t # "str" THEN [ok |-> FALSE, errs |-> {"typecheck"}]
        ELSE IF x.len # y.len \/ BytesLess(StrBytes(h, y), StrBytes(h, x)) THEN [ok |-> FALSE, errs |-> {"rangecheck"}]
        ELSE IF kind = "bfrange" /\ ~(z.t = "str" \/ z.t = "arr") THEN [ok |-> FALSE, errs |-> {"typecheck"}]
        ELSE IF kind # "bfrange" /\ z.t # "int" THEN [ok |-> FALSE, errs |-> {"typecheck"}]
        ELSE [ok |-> TRUE, e |-> [lo |-> StrBytes(h, x), hi |-> StrBytes(h, y), dst |-> z]]

\* entries j..n of a block whose operands start at stack index base+1
RECURSIVE Entries(_, _, _, _, _, _)
Entries(kind, h, st, base, j, n) ==
    IF j > n THEN [ok |-> TRUE, es |-> <<>>]
    ELSE LET a == CidArity(kind)
             p == base + a * (j - 1)
             r == Entry(kind, h, st[p + 1], st[p + 2], IF a = 3 THEN st[p + 3] ELSE NilV)
         IN IF ~r.ok THEN [ok |-> FALSE, errs |-> r.errs]
            ELSE LET rest == Entries(kind, h, st, base, j + 1, n)
                 IN IF ~rest.ok THEN rest ELSE [ok |-> TRUE, es |-> <<r.e>> \o rest.es]

CidOp(op, st, h, ds, cm) ==
    IF op = "begincmap" THEN RC(st, h, ds, CmFresh)
    ELSE IF ~cm.on THEN
        \* every other procedure requires an open begincmap; the library's error name
        \* varies (undefined / stackunderflow), the property only asks for an error
        EC({"undefined", "stackunderflow"})
    ELSE IF op = "endcmap" THEN
        LET id == NewId(h)
            cell == [k |-> "cmapinfo", use |-> cm.use,
                     csr |-> SortBy(cm.csr, "csr"),
                     cidchars |-> SortBy(cm.cidchars, "src"), cidranges |-> SortBy(cm.cidranges, "lo"),
                     bfchars |-> SortBy(cm.bfchars, "src"), bfranges |-> SortBy(cm.bfranges, "lo"),
                     ndchars |-> SortBy(cm.ndchars, "src"), ndranges |-> SortBy(cm.ndranges, "lo")]
            h1 == Alloc(h, cell)
        IN RC(st, DPut(h1, DictV(ds[Len(ds)]), "CodeMap", CMapInfoV(id)), ds, CmOff)
    ELSE IF op = "usecmap" THEN
        IF Len(st) < 1 THEN EC({"stackunderflow"})
        ELSE IF A(st, 0).t # "name" THEN EC({"typecheck"})
        ELSE RC(Pop(st, 1), h, ds, [cm EXCEPT !.use = A(st, 0).s])
    ELSE IF \E kind \in Kinds : op = "begin" \o kind THEN
        IF Len(st) < 1 THEN EC({"stackunderflow"})
        ELSE IF A(st, 0).t # "int" THEN EC({"typecheck"})
        ELSE IF A(st, 0).i.s < 0 \/ Gt(A(st, 0).i, BI(MaxBlock)) THEN EC({"rangecheck"})
        ELSE RC(Pop(st, 1), h, ds, [cm EXCEPT !.pendn = ToNat(A(st, 0).i)])
    ELSE IF \E kind \in Kinds : op = "end" \o kind THEN
        LET kind == CHOOSE k \in Kinds : op = "end" \o k
            n == cm.pendn
            base == Len(st) - CidArity(kind) * n
        IN IF base < 0 THEN EC({"stackunderflow"})
           ELSE LET r == Entries(kind, h, st, base, 1, n)
                IN IF ~r.ok THEN EC(r.errs)
                   ELSE LET cm1 == [cm EXCEPT !.pendn = 0]
                            cm2 == CASE kind = "codespacerange" -> [cm1 EXCEPT !.csr = @ \o r.es]
                                     [] kind = "cidchar" -> [cm1 EXCEPT !.cidchars = @ \o r.es]
                                     [] kind = "cidrange" -> [cm1 EXCEPT !.cidranges = @ \o r.es]
                                     [] kind = "bfchar" -> [cm1 EXCEPT !.bfchars = @ \o r.es]
                                     [] kind = "bfrange" -> [cm1 EXCEPT !.bfranges = @ \o r.es]
                                     [] kind = "notdefchar" -> [cm1 EXCEPT !.ndchars = @ \o r.es]
                                     [] OTHER -> [cm1 EXCEPT !.ndranges = @ \o r.es]
                        IN RC(SubSeq(st, 1, base), h, ds, cm2)
    ELSE EC({"?unknown"})

=============================================================================
