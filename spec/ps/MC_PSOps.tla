------------------------------ MODULE MC_PSOps ------------------------------
(***************************************************************************)
(* Generating configuration: every data operator applied to every operand  *)
(* tuple from a pool (DESIGN.md C02 / C01a, Appendix C).  Each behaviour   *)
(* is: initial stack chosen from the pool, the operator executed once,     *)
(* terminal state emitted as a JSON vector for the Go replayer.            *)
(***************************************************************************)
EXTENDS PSMachine, Json, CSV

CONSTANTS OpSet,         \* "data": the data operators (C02); "hostile": every operator incl. control, file and CIDInit (C01)
          Tier,          \* "quick" | "thorough"
          OutFile, BaseFile

P(k) == TwoPow(k)
\* ---- pool heap: cells 12.. appended to the fresh interpreter's heap
PA0 == 12  PA3 == 13  PS1 == 14  PA4 == 15  PAbig == 16  PAself == 17
PS0 == 18  PS3 == 19  PS3b == 20 PSbig == 21 PD0 == 22   PD2 == 23
PSx == 24  PDfont == 25 PP0 == 26 PP1 == 27  PPself == 28 PD2b == 29
PDd0 == 30 PDx1 == 31  PDd01 == 32 PSself == 33
PoolHeap == <<
    ArrCellOf(<<>>),                                                    \* 12 A0
    ArrCellOf(<<IntN(1), NameV("n"), StrV(PS1, 0, 1)>>),                 \* 13 A3
    StrCellOf(<<115>>),                                                 \* 14 (s)
    ArrCellOf(<<IntN(10), IntN(20), IntN(30), IntN(40)>>),              \* 15 A4
    ArrCell(65536),                                                     \* 16 Abig
    [k |-> "arr", n |-> 2, d |-> NilV, m |-> (0 :> ArrV(PAself, 0, 2)) @@ (1 :> IntN(7))],  \* 17 Aself
    StrCellOf(<<>>),                                                    \* 18 S0
    StrCellOf(<<97, 98, 99>>),                                          \* 19 (abc)
    StrCellOf(<<97, 98, 99>>),                                          \* 20 (abc) again
    StrCell(65536),                                                     \* 21 Sbig
    DictCell,                                                           \* 22 D0
    [k |-> "dict", m |-> ("a" :> IntN(1)) @@ ("b" :> StrV(PSx, 0, 1))],  \* 23 D2
    StrCellOf(<<120>>),                                                 \* 24 (x)
    [k |-> "dict", m |-> ("FontType" :> IntN(1))],                      \* 25 Dfont
    ArrCellOf(<<>>),                                                    \* 26 P0
    ArrCellOf(<<IntN(1), XNameV("add")>>),                              \* 27 P1
    [k |-> "arr", n |-> 1, d |-> NilV, m |-> (0 :> ProcV(PPself, 0, 1))],  \* 28 Pself
    [k |-> "dict", m |-> ("a" :> IntN(2))],                             \* 29 D1
    \* dictionaries of equal size whose keys are decimal numbers (identity of dictionaries
    \* must not depend on their contents)
    [k |-> "dict", m |-> ("0" :> IntN(2))],                             \* 30 {/0 2}
    [k |-> "dict", m |-> ("x" :> IntN(1))],                             \* 31 {/x 1}
    [k |-> "dict", m |-> ("0" :> IntN(1)) @@ ("1" :> IntN(2))],         \* 32 {/0 1 /1 2}
    [k |-> "dict", m |-> ("self" :> DictV(PSself))]                     \* 33 a dictionary that contains itself
>>
\* the font directory of the base state knows one font, so that findfont can succeed
\* userdict defines /a, and so does the dictionary PD2b that environment 1 puts above it:
\* name look-ups (load, where, executable names) must find the topmost definition
Heap0 == [FreshHeap EXCEPT ![FontDirId] = [k |-> "dict", m |-> ("zz" :> DictV(PDfont))],
                           ![UserId] = [k |-> "dict", m |-> ("a" :> IntN(5))]] \o PoolHeap

\* ---- value pool (a sequence: mixed records are never put into a set)
Ints == << IntN(0), IntN(1), IntN(-1), IntN(2), IntN(4), IntN(255), IntN(256),
           IntV(MaxInt64), IntV(MinInt64), IntV(P(31)), IntV(P(53)), IntV(InternalPass),
           IntN(3), IntV(Add(P(53), One)),      \* a count that is not a power of two; the first integer float64 cannot hold
           IntV(Neg(P(53))), IntV(Sub(MaxInt64, One)), IntV(Add(MinInt64, One)),
           IntN(65536), IntN(65537), IntN(7), IntN(100), IntV(Sub(Neg(P(53)), One)),
           IntV(Neg(P(31))), IntV(P(62)), IntN(-2) >>
Reals == << RealV([n |-> BI(1), e |-> -1]), RealV([n |-> BI(-1), e |-> -1]), RealV(DZero),
            RealV([n |-> BI(3), e |-> -1]), RealV([n |-> BI(1), e |-> 53]), RealV([n |-> BI(1), e |-> 63]),
            RealV([n |-> BI(-1), e |-> 63]), RealV([n |-> BI(1), e |-> 0]) >>
Views == << ArrV(PA0, 0, 0), ArrV(PA3, 0, 3), ArrV(PA4, 0, 4), ArrV(PA4, 1, 2), ArrV(PA4, 2, 2),
            ArrV(PAbig, 0, 65536), ArrV(PAself, 0, 2),
            StrV(PS0, 0, 0), StrV(PS3, 0, 3), StrV(PS3b, 0, 3), StrV(PS3, 1, 1), StrV(PSbig, 0, 65536),
            StrV(PS3, 0, 2), ArrV(PA4, 0, 2) >>
Dicts == << DictV(PD0), DictV(PD2), DictV(PDd0), DictV(PDx1), DictV(PDfont), DictV(UserId), DictV(PDd01), DictV(PSself),
           DictV(PD2b), DictV(SysId) >>
Procs == << ProcV(PP0, 0, 0), ProcV(PP1, 0, 2), ProcV(PPself, 0, 1) >>
Others == << NameV("a"), NameV("zz"), NameV("abc"), XNameV("add"), BoolV(TRUE), BoolV(FALSE), MarkV, NilV,
             OpV("add"), NameV("Font"), NameV("ProcSet"), NameV("CIDInit"), NameV("b"), NameV("add"),
             NameV("FontType"), NameV("CMap"), NameV("x") >>

\* quick: a core selection of each class; thorough: everything
Sel(s, k) == IF Tier = "quick" /\ Len(s) > k THEN SubSeq(s, 1, k) ELSE s
Pool == Sel(Ints, 14) \o Sel(Reals, 4) \o Sel(Views, 11) \o Sel(Dicts, 8) \o Sel(Procs, 2) \o Sel(Others, 12)
NP == Len(Pool)
\* reduced pool for the leading positions of long operand tuples
PoolS == << IntN(0), IntN(1), IntN(2), IntV(MaxInt64), IntN(-1), ArrV(PA4, 0, 4), ArrV(PA4, 1, 2),
            StrV(PS3, 0, 3), DictV(PD2), NameV("a"), MarkV, BoolV(TRUE), ProcV(PP1, 0, 2),
            RealV([n |-> BI(1), e |-> -1]), StrV(PS3b, 0, 3), NilV >>
NS == IF Tier = "quick" THEN 10 ELSE Len(PoolS)

\* operand count examined per operator
OpArity(op) == CASE op \in {"mark", "[", "<<", "count", "currentdict", "currentfile", "matrix", "end"} -> 0
               [] op \in {"pop", "dup", "abs", "not", "array", "string", "dict", "length", "begin", "load",
                          "where", "maxlength", "type", "findfont", "cvx", "readonly", "executeonly",
                          "noaccess", "internaldict"} -> 1
               [] op \in {"exch", "add", "sub", "mul", "and", "or", "eq", "ne", "get", "def", "known",
                          "definefont", "findresource"} -> 2
               [] op \in {"copy", "index", "put", "getinterval", "putinterval", "defineresource", "]",
                          "cleartomark"} -> 3
               [] op \in {"exit", "stop", "begincmap", "endcmap"} -> 0
               [] op \in {"exec", "loop", "bind", "eexec", "closefile", "usecmap"} -> 1
               [] op \in {"if", "repeat", "forall", "readstring"} -> 2
               [] op = "ifelse" -> 3
               [] op = "for" -> 4
               [] op \in CIDInitOps -> (IF \E k \in Kinds : op = "begin" \o k THEN 1 ELSE 3)
               [] op = "roll" -> 5     \* a window of three below n and j
               [] OTHER -> 4      \* >>

OpSel == IF OpSet = "data" THEN DataOps ELSE AllOps \cup CIDInitOps

\* Operand tuples are picked in stages (operator, length, then one index per
\* position from the bottom of the stack) so that TLC's workers share the work.
\* The top two operands range over the full pool, deeper ones over PoolS.
\* Lengths: 0 .. arity (shorter stacks give the underflow cases), and at least 2.
MaxLen(op) == IF OpArity(op) < 2 THEN 2 ELSE OpArity(op)
\* candidates for position p (1 = bottom) of a tuple of length L
Cands(op, L, p) ==
    IF L - p < 2 /\ L <= OpArity(op) THEN 1..NP            \* one of the two topmost operands
    ELSE IF L - p < 1 THEN {1, 2}                         \* junk above a complete operand list
    ELSE IF op = "roll" /\ L = 5 THEN {-1, -2, -6}           \* 0, 1 and an array: enough to tell the rotations apart
    ELSE {0 - i : i \in 1..NS}
Val(x) == IF x < 0 THEN PoolS[0 - x] ELSE Pool[x]

Dst0(e) == IF OpSet = "hostile" THEN <<SysId, UserId, CIDInitId>>
           ELSE IF e = 1 THEN <<SysId, UserId, PD2b>> ELSE FreshDictStack
\* hostile runs of CIDInit procedures happen outside begincmap (env 0), inside it (env 1) and,
\* for the end* procedures, inside an open block of their kind with the operand tuple copied
\* above the block's base (env 2), so that the operands are really examined
KindOfEnd(op) == CHOOSE k \in Kinds \cup {""} : (k = "" /\ \A k2 \in Kinds : op # "end" \o k2) \/ (k # "" /\ op = "end" \o k)
RECURSIVE CopyUp(_, _)
CopyUp(L, j) == IF j = 0 THEN <<>> ELSE <<IntN(L - 1), XNameV("index")>> \o CopyUp(L, j - 1)
Prog(op, e) == IF OpSet = "hostile" /\ e = 1 /\ op \in CIDInitOps THEN <<XNameV("begincmap"), XNameV(op)>>
               ELSE IF OpSet = "hostile" /\ e >= 20 THEN
                    <<XNameV("begincmap"), IntN(1), XNameV("begin" \o KindOfEnd(op))>> \o CopyUp(e - 20, e - 20) \o <<XNameV(op)>>
               ELSE <<XNameV(op)>>

VARIABLES s, stim, phase
vars == <<s, stim, phase>>
EnvCode == IF stim.env = 2 THEN 20 + stim.len ELSE stim.env

Init == /\ phase = "op"
        /\ stim = [op |-> "", len |-> 0, idx |-> <<>>, env |-> 0]
        /\ s = FreshState(<<>>, 0)
PickOp == /\ phase = "op"
          \* env 1: a third dictionary on the dictionary stack (so that `end` can succeed)
          \* env 2: an end* procedure of CIDInit inside an open block (hostile set only)
          /\ \E op \in OpSel : \E e \in (IF OpArity(op) <= 1 THEN {0, 1}
                                         ELSE IF OpSet = "hostile" /\ op \in CIDInitOps /\ KindOfEnd(op) # "" THEN {0, 1, 2}
                                         ELSE {0}) :
                stim' = [op |-> op, len |-> 0, idx |-> <<>>, env |-> e]
          /\ phase' = "len" /\ UNCHANGED s
PickLen == /\ phase = "len"
           /\ \E L \in 0..MaxLen(stim.op) : stim' = [stim EXCEPT !.len = L]
           /\ phase' = "arg" /\ UNCHANGED s
\* inside an open CIDInit block (env 2) the 65536-byte string is left out: the end* procedures compare and copy
\* their string operands byte by byte, which TLC does at a few vectors per minute; codes of that length add nothing
BigStrIdx == {i \in 1..NP : Pool[i].t = "str" /\ Pool[i].len > 1000}
PickArg == /\ phase = "arg" /\ Len(stim.idx) < stim.len
           /\ \E i \in Cands(stim.op, stim.len, Len(stim.idx) + 1) \ (IF stim.env = 2 THEN BigStrIdx ELSE {}) :
                 stim' = [stim EXCEPT !.idx = Append(@, i)]
           /\ UNCHANGED <<phase, s>>
Start == /\ phase = "arg" /\ Len(stim.idx) = stim.len
         /\ phase' = "run"
         /\ s' = [FreshState(Prog(stim.op, EnvCode), 0) EXCEPT !.ost = [j \in 1..stim.len |-> Val(stim.idx[j])],
                                                            !.dst = Dst0(stim.env)]
         /\ UNCHANGED stim
Run == /\ phase = "run" /\ s.status = "running"
       /\ s' = IF s.nops > 60 THEN Skip(s) ELSE Step(s)
       /\ UNCHANGED <<stim, phase>>
Next == PickOp \/ PickLen \/ PickArg \/ Start \/ Run

Delta(h) == h.c

Vector == [op |-> stim.op, prog |-> Prog(stim.op, EnvCode),
           init |-> [j \in 1..Len(stim.idx) |-> Val(stim.idx[j])], dst0 |-> Dst0(stim.env),
           status |-> s.status, errs |-> s.errs, ost |-> s.ost, dst |-> s.dst,
           heap |-> Delta(s.heap), nheap |-> s.heap.n, nops |-> s.nops]

Emit == (phase = "run" /\ s.status \in (IF OpSet = "hostile" THEN {"done", "error", "skip"} ELSE {"done", "error"})) => CSVWrite("%1$s", <<ToJson(Vector)>>, OutFile)
ASSUME JsonSerialize(BaseFile, [heap |-> Heap0, nfixed |-> NFixed])

\* design-level invariants, evaluated in every state of every behaviour
Inv == /\ StackBounded(s) /\ DictStackBounded(s) /\ DepthBounded(s) /\ DictStackBase(s)
       /\ s.status = "error" => s.errs # {}
       /\ s.nops <= 62
=============================================================================
