------------------------------ MODULE MC_Eexec ------------------------------
(***************************************************************************)
(* Generating configuration for eexec sections (C05).  A stimulus is       *)
(*   clear tokens, "currentfile eexec", blanks, an encrypted section       *)
(*   (plaintext tokens and raw data for readstring), a clear trailer       *)
(* laid out in a form (binary / hexadecimal lower, upper, mixed case), a   *)
(* pattern of four lead-byte classes, a white-space pattern (hex forms)    *)
(* and a kind of blanks after "eexec".  The prescribed outcome is the      *)
(* state PSMachine reaches on the equivalent token feed: plaintext         *)
(* executed with systemdict pushed, the section ended by closefile (or by  *)
(* the end of the file), the trailer executed as clear text.               *)
(* The byte-level layout is produced by the harness with its own           *)
(* implementation of the cipher, which is checked against Eexec.tla.       *)
(***************************************************************************)
EXTENDS PSMachine, Eexec, Json, CSV

CONSTANTS Tier, OutFile, BaseFile

X(str) == XNameV(str)
N(str) == NameV(str)
I(n) == IntN(n)
Raw(bytes) == [t |-> "raw", bytes |-> bytes]
Close == <<X("mark"), X("currentfile"), X("closefile")>>

Hostile == <<0, 255, 128, 10, 13, 37, 40, 41, 48, 102, 32, 92>>
Plains == <<
  <<N("a"), I(1), X("def")>> \o Close,
  <<I(1), I(2), X("add"), N("r"), X("exch"), X("def")>> \o Close,
  <<I(5), X("string"), X("currentfile"), X("exch"), X("readstring"), Raw(<<1, 2, 3, 4, 5>>), X("pop"), N("s"), X("exch"), X("def")>> \o Close,
  <<X("currentdict"), X("systemdict"), X("eq"), N("t"), X("exch"), X("def")>> \o Close,
  <<I(3), X("dict"), X("begin"), N("q"), I(1), X("def")>> \o Close,
  <<N("q"), LBrace, X("currentfile"), X("closefile"), RBrace, X("def"), X("mark"), X("q")>>,
  <<I(0), X("string"), X("currentfile"), X("exch"), X("readstring"), Raw(<<>>), X("pop"), X("length")>> \o Close,
  <<N("RD"), LBrace, X("string"), X("currentfile"), X("exch"), X("readstring"), X("pop"), RBrace, X("def"),
    I(12), X("RD"), Raw(Hostile), N("u"), X("exch"), X("def"), I(3), X("RD"), Raw(<<48, 48, 10>>), N("v"), X("exch"), X("def")>> \o Close,
  <<N("a"), I(1), X("def"), N("b"), I(2), X("def")>>,                         \* no closefile: the section runs to the end of the file
  <<I(7), X("string"), X("currentfile"), X("exch"), X("readstring"), Raw(<<9, 8, 7>>)>>,   \* data ends early: short string, false
  <<LBrace, I(1), X("currentfile"), X("closefile"), I(2), RBrace, X("exec")>>,  \* closefile inside a procedure abandons the rest
  <<N("a"), I(1), X("def"), I(7), X("stop"), I(8)>>,                           \* 12: stop ends the program, not just the section
  <<LBrace, I(7), LBrace, X("stop"), RBrace, X("exec"), I(8), RBrace, X("loop"), I(9)>>,   \* 13: stop from inside a loop
  <<LBrace, X("currentdict"), X("begin"), RBrace, X("loop")>>,                  \* 14: the dictionary stack limit holds inside the section
  \* 15: entered with systemdict already on top: the section still pushes its own entry, so that one `end`
  \* inside leaves the outer systemdict current (the definition lands there, not in userdict)
  <<X("end"), N("probe"), I(1), X("def"), X("currentdict"), X("systemdict"), X("eq")>> \o Close
>>
\* which plaintexts end in closefile (only those may be followed by a trailer)
Closes(p) == p \notin {9, 10, 14}
\* tokens placed before "currentfile eexec": plaintext 14 enters the section with 18 dictionaries open,
\* so that the section's own systemdict is the last entry the limit allows
PreExtra(p) == IF p = 14 THEN [j \in 1..36 |-> IF j % 2 = 1 THEN X("currentdict") ELSE X("begin")]
               ELSE IF p = 15 THEN <<X("systemdict"), X("begin")>> ELSE <<>>

Pre == <<N("before"), I(1), X("def"), X("currentfile"), X("eexec")>>
ZeroLines == [j \in 1..8 |-> I(0)]
Trailer(k) == CASE k = "zeros" -> ZeroLines \o <<X("cleartomark")>>
                [] k = "tokens" -> <<N("after"), I(2), X("def")>>
                \* a second encrypted section in the same stream, then clear text again
                [] k = "second" -> <<N("mid"), I(2), X("def"), X("currentfile"), X("eexec"),
                                     N("c"), I(3), X("def"), I(5), X("string"), X("currentfile"), X("exch"), X("readstring"),
                                     Raw(<<0, 255, 128, 97, 98>>), X("pop"), N("d"), X("exch"), X("def")>> \o Close
                                   \o <<N("after2"), I(4), X("def")>>
                [] OTHER -> <<>>

Forms == {"bin", "hexlower", "hexupper", "hexmixed"}
\* "lowctl": NUL, form feed and other control bytes, and the delimiters % ( < / : none of them is
\* one of the four characters the Type 1 book forbids as the first cipher byte
Classes(form) == IF form = "bin" THEN {"digit", "af", "AF", "blank", "other", "lowctl"} ELSE {"digit", "af", "AF"}
\* lead patterns that are legal for the form
LegalLead(form, c) == IF form = "bin" THEN c[1] # "blank" /\ \E j \in 1..4 : c[j] \in {"blank", "other", "lowctl"}
                      ELSE /\ (form = "hexlower" => \A j \in 1..4 : c[j] # "AF")
                           /\ (form = "hexupper" => \A j \in 1..4 : c[j] # "af")
\* "wide3": three white-space bytes between any two cipher bytes (also in front of the last one)
WsPatterns == {"none", "every2", "lines64", "crlf7", "at4", "at5", "at6", "at7", "at9", "tabs3", "wide3"}
Blanks == {"sp", "lf", "crlf", "tabsplf"}
Trailers == {"zeros", "tokens", "none", "second"}
\* the white space that ends the last token of the section (a CR LF pair is one line end)
EndWs == {"lf", "cr", "crlf"}

VARIABLES s, stim, phase
vars == <<s, stim, phase>>
Init == /\ phase = "pick"
        /\ stim = [p |-> 1, form |-> "bin", lead |-> <<"other", "other", "other", "other">>, ws |-> "none",
                   blank |-> "sp", trailer |-> "none", endws |-> "lf"]
        /\ s = FreshState(<<>>, 0)
\* two sweeps: every legal lead pattern with the first plaintext, and every plaintext x form x
\* white space x blanks x trailer with a default lead
PickLead == /\ phase = "pick"
            /\ \E f \in Forms : \E c1 \in Classes(f), c2 \in Classes(f), c3 \in Classes(f), c4 \in Classes(f),
                  t \in {"zeros", "none"} :
                  /\ LegalLead(f, <<c1, c2, c3, c4>>)
                  /\ stim' = [stim EXCEPT !.form = f, !.lead = <<c1, c2, c3, c4>>, !.trailer = t,
                                          !.ws = IF f = "bin" THEN "none" ELSE "lines64"]
            /\ phase' = "start" /\ UNCHANGED s
DefaultLead(f) == IF f = "bin" THEN <<"other", "digit", "af", "other">>
                  ELSE IF f = "hexupper" THEN <<"digit", "AF", "digit", "AF">> ELSE <<"digit", "af", "digit", "af">>
PickProg == /\ phase = "pick"
            /\ \E p \in 1..Len(Plains), f \in Forms, w \in WsPatterns, b \in Blanks, t \in Trailers, e \in EndWs :
                  /\ (f = "bin" => w = "none")
                  /\ (~Closes(p) => t = "none")
                  /\ (Tier = "quick" => (b \in {"sp", "crlf"} \/ p = 1))
                  \* a lone CR before the trailer: a reader that looks for the LF of a CR LF pair may take the
                  \* first character of what follows (this is what the zeros are for): only the zeros may follow
                  /\ (e = "cr" => t \in {"zeros", "none"})
                  /\ (e # "lf" => (w \in {"none", "lines64", "crlf7", "wide3"} /\ b = "sp"))
                  /\ stim' = [p |-> p, form |-> f, lead |-> DefaultLead(f), ws |-> w, blank |-> b, trailer |-> t, endws |-> e]
            /\ phase' = "start" /\ UNCHANGED s
PreOf(p) == <<N("before"), I(1), X("def")>> \o PreExtra(p) \o <<X("currentfile"), X("eexec")>>
\* the operation budget runs out inside (or around) the section: plaintexts 1, 2, 13 under every budget
\* up to BudgetMax in one form (C11: the budget error surfaces with NumOps = N + 1 there too)
BudgetMax == 45
PickBudget == /\ phase = "pick"
              /\ \E p \in {1, 2, 13}, f \in {"bin", "hexlower"}, b \in 1..BudgetMax :
                    stim' = [p |-> p, form |-> f, lead |-> DefaultLead(f), ws |-> (IF f = "bin" THEN "none" ELSE "lines64"),
                             blank |-> "sp", trailer |-> (IF p = 13 THEN "none" ELSE "tokens"), budget |-> b, endws |-> "lf"]
              /\ phase' = "start" /\ UNCHANGED s
Feed(st) == PreOf(st.p) \o Plains[st.p] \o Trailer(st.trailer)
Start == /\ phase = "start" /\ phase' = "run"
         /\ s' = FreshState(Feed(stim), IF "budget" \in DOMAIN stim THEN stim.budget ELSE 0) /\ UNCHANGED stim
Run == /\ phase = "run" /\ s.status = "running"
       /\ s' = Step(s) /\ UNCHANGED <<stim, phase>>
Next == PickLead \/ PickProg \/ PickBudget \/ Start \/ Run

Vector == [pre |-> PreOf(stim.p), plain |-> Plains[stim.p], trailer |-> stim.trailer, form |-> stim.form, lead |-> stim.lead,
           ws |-> stim.ws, blank |-> stim.blank, endws |-> stim.endws, p |-> stim.p, init |-> <<>>, maxops |-> s.maxops, nops |-> s.nops,
           status |-> s.status, errs |-> s.errs, ost |-> s.ost, dst |-> s.dst,
           heap |-> s.heap.c, nheap |-> s.heap.n]
Emit == (phase = "run" /\ s.status \in {"done", "error"}) => CSVWrite("%1$s", <<ToJson(Vector)>>, OutFile)
ASSUME JsonSerialize(BaseFile, [heap |-> FreshHeap, nfixed |-> NFixed])

\* design-level: the dictionary stack after the run is the one before the section, the
\* section never nests, and no behaviour is skipped (every generated stimulus has an outcome)
Inv == /\ DictStackBounded(s) /\ DictStackBase(s)
       /\ (phase = "run" /\ s.status = "done") => (s.eex = 0 /\ (stim.p \notin {5, 12, 13, 15} => Len(s.dst) = 2))
       /\ (phase = "run") => s.status # "skip"
\* the section ends by closefile or at the end of the file with the dictionary stack restored, or the
\* program is stopped (nothing is left to run and the dictionary stack stays as it is)
DictStackRestored == [][ (phase = "run" /\ s.eex > 0 /\ s'.eex = 0) =>
                           (Len(s'.dst) = s.eex \/ (s'.dst = s.dst /\ s'.est = <<>> /\ s'.feed = <<>>)) ]_vars
=============================================================================
