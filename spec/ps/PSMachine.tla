----------------------------- MODULE PSMachine -----------------------------
(***************************************************************************)
(* The PostScript abstract machine of the supported subset: scanner-level  *)
(* procedure construction, object dispatch, name lookup through the        *)
(* dictionary stack, procedures, conditionals, the four looping operators, *)
(* exit / stop, bind, the operation budget and the resource limits.        *)
(*                                                                         *)
(* The machine is small-step with an explicit continuation stack, written  *)
(* as a pure function Step on a state record, so that it can be reused by  *)
(* generating configurations (MC modules), by the budget product machine and by  *)
(* trace specifications.  Structure follows executeScanner / executeOne    *)
(* of the library: one step = one dispatched object.                       *)
(*                                                                         *)
(*   s.ost    operand stack (top = last)                                   *)
(*   s.dst    dictionary stack (cell ids, top = last)                      *)
(*   s.heap   heap cells                                                   *)
(*   s.est    continuation stack: procedure and loop frames                *)
(*   s.open   stack of procedure bodies under construction ("{ ...")       *)
(*   s.status "running" | "done" | "error" | "skip"                        *)
(*   s.errs   admissible error names when status = "error"                 *)
(*   s.nops   dispatched objects so far;  s.maxops budget (0 = none)       *)
(*   s.feed   tokens the scanner has not delivered yet                     *)
(*   s.cm     CIDInit scratch state (CIDInit.tla)                          *)
(*   s.eex    0, or inside an eexec section: dictionary stack depth before *)
(***************************************************************************)
EXTENDS CIDInit

CONSTANTS MaxExecDepth,     \* 100 in the library
          MaxOpStack        \* 500 in the library: checked before each dispatch

LBrace == [t |-> "lbrace"]
RBrace == [t |-> "rbrace"]
EndCall == [t |-> "eoc"]                      \* boundary between two Execute calls
StrLit(bytes) == [t |-> "strlit", bytes |-> bytes]

\* When an operator fails, the library runs the error handler of every enclosing control
\* operator (up to five nested invocations each), and every handler invocation is an
\* operation itself (interpreter.go, case builtin).  How many operations an error costs
\* therefore depends on the host-language nesting, which the model does not track: with
\* a budget set, a failing program may surface its own error or the budget error.
NearBudget(s) == s.maxops > 0
\* A program may install its own handler in errordict.  What happens then (the handler runs, its
\* outcome replaces the error) is outside the operators and control forms the properties speak
\* about: the model gives no verdict on a failure whose handler is not the default one.
HandlerChanged(s, es) ==
    \E e \in es : e \in DOMAIN Cell(s.heap, ErrId).m /\ Cell(s.heap, ErrId).m[e] # OpV(".defaulterrorhandler")
Fail(s, es) == IF HandlerChanged(s, es) THEN [s EXCEPT !.status = "skip", !.est = <<>>]
               ELSE [s EXCEPT !.status = "error", !.est = <<>>,
                              !.errs = IF NearBudget(s) THEN es \cup {"budget"} ELSE es]
Live(s) == s.status = "running"
\* NumOps++ followed by the budget test (interpreter.go, label recurseTail)
Count(s) == IF s.maxops > 0 /\ s.nops + 1 > s.maxops
            THEN [s EXCEPT !.status = "error", !.errs = {"budget"}, !.est = <<>>, !.nops = @ + 1]
            ELSE [s EXCEPT !.nops = @ + 1]
Skip(s) == [s EXCEPT !.status = "skip", !.est = <<>>]

IsLoopFrame(f) == f.k \in {"for", "repeat", "loop", "forall"}
ProcDepth(est) == Cardinality({j \in 1..Len(est) : est[j].k = "proc"})

\* enter a procedure body (PLRM: push it on the execution stack)
EnterProc(s, p) ==
    IF p.len = 0 THEN s
    ELSE IF ProcDepth(s.est) >= MaxExecDepth THEN Fail(s, {"execstackoverflow"})
    ELSE [s EXCEPT !.est = Append(@, [k |-> "proc", p |-> p, pc |-> 0])]
\* a control operator calls a procedure: executeOne(proc, true) -- nesting and operand
\* stack tests, then the procedure object counts as one operation
CallProc(s, p) ==
    IF ProcDepth(s.est) >= MaxExecDepth THEN Fail(s, {"execstackoverflow"})
    ELSE IF Len(s.ost) > MaxOpStack THEN Fail(s, {"stackoverflow"})
    ELSE LET s1 == Count(s) IN IF Live(s1) THEN EnterProc(s1, p) ELSE s1

PushV(s, v) == [s EXCEPT !.ost = Append(@, v)]

(***************************************************************************)
(* bind: replace executable names whose current value is an operator by    *)
(* that operator, recursing into nested procedures (each cell once).       *)
(***************************************************************************)
RECURSIVE BindCell(_, _, _, _, _)
\* returns [h, seen]
BindCell(h, ds, v, j, seen) ==
    IF j >= v.len THEN [h |-> h, seen |-> seen]
    ELSE LET e == VGet(h, v, j)
         IN IF e.t = "xname" THEN
                LET d == Where(h, ds, e.s)
                IN IF d # 0 /\ DGet(h, DictV(d), e.s).t = "op"
                   THEN BindCell(VPut(h, v, j, DGet(h, DictV(d), e.s)), ds, v, j + 1, seen)
                   ELSE BindCell(h, ds, v, j + 1, seen)
            ELSE IF e.t = "proc" /\ <<e.id, e.off, e.len>> \notin seen THEN
                LET r == BindCell(h, ds, e, 0, seen \cup {<<e.id, e.off, e.len>>})
                IN BindCell(r.h, ds, v, j + 1, r.seen)
            ELSE BindCell(h, ds, v, j + 1, seen)
BindProc(h, ds, p) == BindCell(h, ds, p, 0, {<<p.id, p.off, p.len>>}).h

\* remove frames down to and including the innermost loop frame; <<>> marks "none"
RECURSIVE UnwindToLoop(_)
UnwindToLoop(est) ==
    IF est = <<>> THEN <<[k |-> "none"]>>
    ELSE IF IsLoopFrame(est[Len(est)]) THEN SubSeq(est, 1, Len(est) - 1)
    ELSE UnwindToLoop(SubSeq(est, 1, Len(est) - 1))

\* drop the rest of the current Execute call from the feed
RECURSIVE DropCall(_)
DropCall(feed) == IF feed = <<>> THEN <<>>
                  ELSE IF Head(feed).t = "eoc" THEN feed      \* the boundary itself is consumed by the scanner
                  ELSE DropCall(Tail(feed))

\* keys of a dictionary with at most one entry, as a sequence
SortedKeys(S) == IF S = {} THEN <<>> ELSE <<CHOOSE y \in S : TRUE>>

\* MaxlengthAnyGE: the integer left by maxlength is only bounded below, so the
\* reference decides nothing about an operator that consumes it as a number;
\* operators that only move, store or classify values are unaffected.
Movers == {"pop", "dup", "exch", "count", "mark", "[", "<<", "]", ">>", "cleartomark", "def",
           "currentdict", "currentfile", "type", "matrix", "end"}
TouchesAnyGE(st, op) ==
    /\ op \notin Movers
    /\ \E i \in 0..3 : i < Len(st) /\ A(st, i).t = "anyge"

RECURSIVE ExecOp(_, _)
ExecOp(s, op) ==
    IF TouchesAnyGE(s.ost, op) THEN Skip(s)
    ELSE IF op \in DataOps THEN
        LET r == DataOp(op, s.ost, s.heap, s.dst)
        IN IF r.ok THEN [s EXCEPT !.ost = r.st, !.heap = r.h, !.dst = r.ds]
           ELSE IF r.errs = {"?skip"} THEN Skip(s)
           ELSE Fail(s, r.errs)
    ELSE IF op \in CIDInitOps THEN
        LET r == CidOp(op, s.ost, s.heap, s.dst, s.cm)
        IN IF r.ok THEN [s EXCEPT !.ost = r.st, !.heap = r.h, !.cm = r.cm] ELSE Fail(s, r.errs)
    ELSE LET st == s.ost
             n == Len(st)
    IN CASE op = "exec" ->
              IF n < 1 THEN Fail(s, {"stackunderflow"})
              ELSE LET o == A(st, 0)
                       s1 == [s EXCEPT !.ost = Pop(st, 1)]
                   IN IF o.t = "proc" THEN CallProc(s1, o)
                      ELSE IF o.t = "op" THEN ExecOp(s1, o.s)
                      ELSE Skip(s)                       \* ExecOnlyProcAndOp: not generated
         [] op = "if" ->
              IF n < 2 THEN Fail(s, {"stackunderflow"})
              ELSE IF A(st, 1).t # "bool" THEN Fail(s, {"typecheck"})
              ELSE IF A(st, 0).t # "proc" THEN Skip(s)
              ELSE LET s1 == [s EXCEPT !.ost = Pop(st, 2)]
                   IN IF A(st, 1).b THEN CallProc(s1, A(st, 0)) ELSE s1
         [] op = "ifelse" ->
              IF n < 3 THEN Fail(s, {"stackunderflow"})
              ELSE IF A(st, 2).t # "bool" THEN Fail(s, {"typecheck"})
              ELSE IF A(st, 0).t # "proc" \/ A(st, 1).t # "proc" THEN Skip(s)
              ELSE LET s1 == [s EXCEPT !.ost = Pop(st, 3)]
                   IN IF A(st, 2).b THEN CallProc(s1, A(st, 1)) ELSE CallProc(s1, A(st, 0))
         [] op = "for" ->
              IF n < 4 THEN Fail(s, {"stackunderflow"})
              ELSE IF A(st, 3).t # "int" \/ A(st, 2).t # "int" \/ A(st, 1).t # "int" THEN
                   (IF IsNum(A(st, 3)) /\ IsNum(A(st, 2)) /\ IsNum(A(st, 1)) THEN Skip(s)   \* ForIntegerOnly
                    ELSE Fail(s, {"typecheck"}))
              ELSE IF A(st, 0).t # "proc" THEN Skip(s)
              ELSE [s EXCEPT !.ost = Pop(st, 4),
                             !.est = Append(@, [k |-> "for", cur |-> A(st, 3).i, inc |-> A(st, 2).i,
                                                lim |-> A(st, 1).i, p |-> A(st, 0)])]
         [] op = "repeat" ->
              IF n < 2 THEN Fail(s, {"stackunderflow"})
              ELSE IF A(st, 1).t # "int" \/ A(st, 0).t # "proc" THEN Fail(s, {"typecheck"})
              ELSE IF A(st, 1).i.s < 0 THEN Fail(s, {"rangecheck"})
              ELSE [s EXCEPT !.ost = Pop(st, 2),
                             !.est = Append(@, [k |-> "repeat", n |-> A(st, 1).i, p |-> A(st, 0)])]
         [] op = "loop" ->
              IF n < 1 THEN Fail(s, {"stackunderflow"})
              ELSE IF A(st, 0).t # "proc" THEN Skip(s)
              ELSE [s EXCEPT !.ost = Pop(st, 1), !.est = Append(@, [k |-> "loop", p |-> A(st, 0)])]
         [] op = "forall" ->
              IF n < 2 THEN Fail(s, {"stackunderflow"})
              ELSE IF A(st, 0).t # "proc" THEN Fail(s, {"typecheck"})
              ELSE LET o == A(st, 1)
                   IN IF o.t = "arr" \/ o.t = "str" THEN
                          [s EXCEPT !.ost = Pop(st, 2),
                                    !.est = Append(@, [k |-> "forall", o |-> o, j |-> 0, keys |-> <<>>, p |-> A(st, 0)])]
                      ELSE IF o.t = "dict" THEN
                          \* ForallDictAnyOrder: only dictionaries with at most one entry have a
                          \* determined result; larger ones are not generated
                          IF DLen(s.heap, o) > 1 THEN Skip(s)
                          ELSE [s EXCEPT !.ost = Pop(st, 2),
                                         !.est = Append(@, [k |-> "forall", o |-> o, j |-> 0,
                                                            keys |-> SortedKeys(DKeys(s.heap, o)), p |-> A(st, 0)])]
                      ELSE IF o.t = "proc" THEN Skip(s)
                      ELSE Fail(s, {"typecheck"})
         [] op = "exit" ->
              LET e == UnwindToLoop(s.est)
              IN IF e # <<>> /\ e[Len(e)].k = "none" THEN Fail(s, {"invalidexit"})
                 ELSE [s EXCEPT !.est = e]
         [] op \in {"stop", ".defaulterrorhandler"} ->
              \* the default handler of errordict executed directly (no pending error)
              \* behaves like the standard handlers: it stops the program
              \* no `stopped` context exists: stop ends the current Execute call without error; inside
              \* an eexec section it ends the section with it, and the dictionary stack stays as it is
              [s EXCEPT !.est = <<>>, !.feed = DropCall(@), !.eex = 0]
         [] op = "bind" ->
              IF n < 1 THEN Fail(s, {"stackunderflow"})
              ELSE IF A(st, 0).t # "proc" THEN Fail(s, {"typecheck"})
              ELSE [s EXCEPT !.heap = BindProc(s.heap, s.dst, A(st, 0))]
         [] op = "eexec" ->
              \* Adobe Type 1 Font Format 7.1: what follows in the current file is decrypted and
              \* executed with systemdict on top of the dictionary stack (the decryption itself is
              \* the subject of Eexec.tla; on this level the section's plaintext tokens follow)
              IF n < 1 THEN Fail(s, {"stackunderflow"})
              ELSE IF A(st, 0).t # "nil" THEN Fail(s, {"typecheck"})
              ELSE IF s.eex > 0 THEN Fail(s, {"invalidaccess"})      \* NestedEexecUnsupported
              ELSE [s EXCEPT !.ost = Pop(st, 1), !.eex = Len(s.dst), !.dst = Append(@, SysId)]
         [] op = "closefile" ->
              IF n < 1 THEN Fail(s, {"stackunderflow"})
              ELSE IF A(st, 0).t # "nil" THEN Fail(s, {"typecheck"})
              ELSE IF s.eex = 0 THEN Skip(s)                          \* closing the program file itself: not generated
              ELSE \* the section ends: whatever was running inside it is abandoned, the
                   \* dictionary stack is restored, clear text follows
                   [s EXCEPT !.ost = Pop(st, 1), !.est = <<>>, !.dst = SubSeq(@, 1, s.eex), !.eex = 0]
         [] op = "readstring" ->
              IF n < 2 THEN Fail(s, {"stackunderflow"})
              ELSE IF A(st, 0).t # "str" THEN Fail(s, {"typecheck"})
              ELSE IF A(st, 1).t # "nil" \/ s.feed = <<>> \/ Head(s.feed).t # "raw" THEN Skip(s)
              ELSE LET buf == A(st, 0)
                       data == Head(s.feed).bytes
                       k == IF Len(data) < buf.len THEN Len(data) ELSE buf.len
                   IN [s EXCEPT !.feed = Tail(@),
                                !.heap = VPutSeq(s.heap, buf, 0, SubSeq(data, 1, k)),
                                !.ost = Pop(st, 2) \o <<[buf EXCEPT !.len = k], BoolV(k = buf.len)>>]
         [] OTHER -> Skip(s)

\* execute one object in execution context.  A name whose value is again an executable
\* name is followed (each hop is dispatched as a further operation, interpreter.go label
\* recurseTail); after 40 hops the model gives up (a name defined as itself runs until the
\* budget strikes).
RECURSIVE ExecHop(_, _, _)
ExecHop(s, o, fuel) ==
    IF o.t = "xname" THEN
        LET d == Where(s.heap, s.dst, o.s)
        IN IF d = 0 THEN Fail(s, {"undefined"})
           ELSE LET v == DGet(s.heap, DictV(d), o.s)
                    s1 == Count(s)          \* the value is dispatched as a second operation
                IN IF ~Live(s1) THEN s1
                   ELSE IF v.t = "op" THEN ExecOp(s1, v.s)
                   ELSE IF v.t = "proc" THEN EnterProc(s1, v)
                   ELSE IF v.t = "xname" THEN (IF fuel = 0 THEN Skip(s1) ELSE ExecHop(s1, v, fuel - 1))
                   ELSE PushV(s1, v)
    ELSE IF o.t = "op" THEN ExecOp(s, o.s)
    ELSE PushV(s, o)                       \* literals, and procedures met directly: pushed
Exec(s, o) == ExecHop(s, o, 40)

\* executeOne(obj, false): operand-stack test, count, dispatch
Guarded(s, o) ==
    IF Len(s.ost) > MaxOpStack THEN Fail(s, {"stackoverflow"})
    ELSE LET s1 == Count(s) IN IF Live(s1) THEN Exec(s1, o) ELSE s1
\* the last element of a body is dispatched without a new executeOne call (goto
\* recurseTail): it is counted, the operand stack is not tested again
TailElem(s, o) == LET s1 == Count(s) IN IF Live(s1) THEN Exec(s1, o) ELSE s1

\* one step of the topmost continuation frame
StepFrame(s) ==
    LET top == s.est[Len(s.est)]
        rest == SubSeq(s.est, 1, Len(s.est) - 1)
    IN CASE top.k = "proc" ->
              LET e == VGet(s.heap, top.p, top.pc)
                  \* tail call: the frame is finished before its last element runs
                  est1 == IF top.pc + 1 = top.p.len THEN rest
                          ELSE Append(rest, [top EXCEPT !.pc = top.pc + 1])
              IN IF top.pc + 1 = top.p.len THEN TailElem([s EXCEPT !.est = est1], e)
                 ELSE Guarded([s EXCEPT !.est = est1], e)
         [] top.k = "for" ->
              IF (top.inc.s > 0 /\ Gt(top.cur, top.lim)) \/ (top.inc.s < 0 /\ Lt(top.cur, top.lim))
              THEN [s EXCEPT !.est = rest]
              ELSE CallProc([s EXCEPT !.ost = Append(@, IntV(top.cur)),
                                       !.est = Append(rest, [top EXCEPT !.cur = Add(top.cur, top.inc)])], top.p)
         [] top.k = "repeat" ->
              IF top.n.s = 0 THEN [s EXCEPT !.est = rest]
              ELSE CallProc([s EXCEPT !.est = Append(rest, [top EXCEPT !.n = Sub(top.n, One)])], top.p)
         [] top.k = "loop" -> CallProc(s, top.p)
         [] top.k = "forall" ->
              IF top.o.t = "dict" THEN
                  IF top.j >= Len(top.keys) THEN [s EXCEPT !.est = rest]
                  ELSE LET key == top.keys[top.j + 1]
                           s1 == [s EXCEPT !.est = Append(rest, [top EXCEPT !.j = top.j + 1])]
                       IN IF DHas(s.heap, top.o, key)
                          THEN CallProc([s1 EXCEPT !.ost = @ \o <<NameV(key), DGet(s.heap, top.o, key)>>], top.p)
                          ELSE s1
              ELSE IF top.j >= top.o.len THEN [s EXCEPT !.est = rest]
              ELSE LET x == VGet(s.heap, top.o, top.j)
                   IN CallProc([s EXCEPT !.ost = Append(@, IF top.o.t = "str" THEN IntN(x) ELSE x),
                                          !.est = Append(rest, [top EXCEPT !.j = top.j + 1])], top.p)
         [] OTHER -> Skip(s)

\* close the innermost open procedure body
CloseBody(s) ==
    LET body == s.open[Len(s.open)]
        outer == SubSeq(s.open, 1, Len(s.open) - 1)
        id == NewId(s.heap)
        pv == ProcV(id, 0, Len(body))
        h1 == Alloc(s.heap, ArrCellOf(body))
    IN IF outer = <<>> THEN [s EXCEPT !.heap = h1, !.open = outer, !.ost = Append(@, pv)]
       ELSE [s EXCEPT !.heap = h1, !.open = [outer EXCEPT ![Len(outer)] = Append(@, pv)]]

\* the scanner hands over one token
ScanTok(s, tok0) ==
    IF tok0.t = "eoc" THEN s
    ELSE
    LET isLit == tok0.t = "strlit"
        id == NewId(s.heap)
        tok == IF isLit THEN StrV(id, 0, Len(tok0.bytes)) ELSE tok0
        s0 == IF isLit THEN [s EXCEPT !.heap = Alloc(@, StrCellOf(tok0.bytes))] ELSE s
    IN IF Len(s0.ost) > MaxOpStack THEN Fail(s0, {"stackoverflow"})
       ELSE IF tok.t = "rbrace" THEN
            (IF s0.open = <<>> THEN Fail(s0, {"syntaxerror"}) ELSE CloseBody(s0))
       ELSE IF tok.t = "lbrace" THEN [s0 EXCEPT !.open = Append(@, <<>>)]
       ELSE IF s0.open # <<>> THEN [s0 EXCEPT !.open[Len(s0.open)] = Append(@, tok)]
       ELSE Guarded(s0, tok)

\* one machine step
Step(s) ==
    IF s.est # <<>> THEN StepFrame(s)
    ELSE IF s.feed # <<>> THEN
        (IF Head(s.feed).t = "raw" THEN Skip(s)      \* raw data that no readstring consumed: not generated
         ELSE ScanTok([s EXCEPT !.feed = Tail(@)], Head(s.feed)))
    ELSE IF s.eex > 0 THEN [s EXCEPT !.dst = SubSeq(@, 1, s.eex), !.eex = 0]   \* end of file inside the section
    ELSE [s EXCEPT !.status = "done"]

FreshState(feed, maxops) ==
    [ost |-> <<>>, dst |-> FreshDictStack, heap |-> EmptyHeap, est |-> <<>>, open |-> <<>>,
     status |-> "running", errs |-> {}, nops |-> 0, maxops |-> maxops, feed |-> feed, cm |-> CmOff, eex |-> 0]

(***************************************************************************)
(* Invariants of the design (checked by TLC in the MC configurations).   *)
(***************************************************************************)
StackBounded(s) == Len(s.ost) <= 2 * (MaxOpStack + 1)
DictStackBounded(s) == Len(s.dst) <= MaxDictStack + 1 /\ Len(s.dst) >= 2
DepthBounded(s) == ProcDepth(s.est) <= MaxExecDepth
OpsBounded(s) == s.maxops > 0 => s.nops <= s.maxops + 1
DictStackBase(s) == s.dst[1] = SysId /\ s.dst[2] = UserId
Terminal(s) == s.status # "running"

=============================================================================
