------------------------------- MODULE PSLex -------------------------------
(***************************************************************************)
(* The PostScript tokenizer (PLRM 3.2) as a function from byte sequences   *)
(* to token sequences, plus the DSC comment collector.                     *)
(*                                                                         *)
(*   Lex(b) = [ok, toks, dsc]                                              *)
(* toks: [t |-> "int", i |-> BigInt] | [t |-> "real", sg, d, e10]          *)
(*       (value sg * d * 10^e10, d a BigInt) | [t |-> "str", b |-> bytes]  *)
(*       | [t |-> "name", b |-> bytes] (literal) | [t |-> "x", b |-> bytes] *)
(*       (executable name, including [ ] << >>) | "lbrace" | "rbrace"      *)
(* dsc:  <<[key |-> bytes, val |-> bytes]>> in order of appearance         *)
(* ok = FALSE: the input is not a legal token sequence (toks = tokens      *)
(* before the error).                                                      *)
(*                                                                         *)
(* Outside the stated quantifier of C04 and therefore flagged "open"       *)
(* (result not compared): immediately evaluated names (//x), ASCII85 group *)
(* overflow, reals beyond the float range, radix numbers beyond 64 bits,   *)
(* control characters other than the six white-space characters outside    *)
(* strings.                                                                *)
(***************************************************************************)
EXTENDS BigInt, TLC

White == {0, 9, 10, 12, 13, 32}
Delims == {40, 41, 60, 62, 91, 93, 123, 125, 47, 37}     \* ( ) < > [ ] { } / %
IsWhite(c) == c \in White
IsDelim(c) == c \in Delims
IsRegular(c) == ~IsWhite(c) /\ ~IsDelim(c)
IsCtl(c) == c < 32 /\ ~IsWhite(c)        \* outside the quantifier when outside strings
IsDigit(c) == c >= 48 /\ c <= 57
IsOct(c) == c >= 48 /\ c <= 55
HexVal(c) == IF c >= 48 /\ c <= 57 THEN c - 48
             ELSE IF c >= 65 /\ c <= 70 THEN c - 55
             ELSE IF c >= 97 /\ c <= 102 THEN c - 87 ELSE -1
DigVal(c) == IF c >= 48 /\ c <= 57 THEN c - 48            \* digit value in radix numbers
             ELSE IF c >= 65 /\ c <= 90 THEN c - 55
             ELSE IF c >= 97 /\ c <= 122 THEN c - 87 ELSE 99

At(b, i) == IF i >= 1 /\ i <= Len(b) THEN b[i] ELSE -1

\* ---------------------------------------------------------------- numbers
RECURSIVE DigitsVal(_, _, _, _)
DigitsVal(b, i, j, acc) ==      \* decimal value of b[i..j] as BigInt
    IF i > j THEN acc ELSE DigitsVal(b, i + 1, j, Add(Mul(acc, BI(10)), BI(b[i] - 48)))
RECURSIVE RadixVal(_, _, _, _, _)
RadixVal(b, i, j, base, acc) ==
    IF i > j THEN acc ELSE RadixVal(b, i + 1, j, base, Add(Mul(acc, BI(base)), BI(DigVal(b[i]))))
RECURSIVE SkipDigits(_, _)
SkipDigits(b, i) == IF IsDigit(At(b, i)) THEN SkipDigits(b, i + 1) ELSE i
NatOf(b, i, j) == ToNat(DigitsVal(b, i, j, Zero))       \* only for short runs

\* classify a run of regular characters: number or executable name
Number(b) ==
    LET n == Len(b)
        s0 == IF At(b, 1) \in {43, 45} THEN 2 ELSE 1
        sg == IF At(b, 1) = 45 THEN -1 ELSE 1
        i1 == SkipDigits(b, s0)                    \* end of integer digits
        hasInt == i1 > s0
    IN IF hasInt /\ i1 > n THEN
           \* signed decimal integer; beyond 64 bits it is converted to a real
           LET v == DigitsVal(b, s0, n, Zero)
               sv == IF sg < 0 THEN Neg(v) ELSE v
           IN IF InInt64(sv) THEN [t |-> "int", i |-> sv]
              ELSE [t |-> "real", sg |-> sg, d |-> v, e10 |-> 0]
       ELSE IF hasInt /\ s0 = 1 /\ At(b, i1) = 35 /\ i1 - 1 <= 2 /\ i1 < n THEN
           \* radix number base#digits
           LET base == NatOf(b, 1, i1 - 1)
           IN IF base >= 2 /\ base <= 36 /\ \A k \in (i1 + 1)..n : DigVal(b[k]) < base THEN
                  LET v == RadixVal(b, i1 + 1, n, base, Zero)
                  IN IF InInt64(v) THEN [t |-> "int", i |-> v] ELSE [t |-> "open"]
              ELSE [t |-> "x", b |-> b]
       ELSE
           \* real: digits [. digits] [e|E [sign] digits], at least one mantissa digit
           LET dot == At(b, i1) = 46
               f0 == IF dot THEN i1 + 1 ELSE i1
               f1 == IF dot THEN SkipDigits(b, f0) ELSE i1      \* end of fraction digits
               hasFrac == f1 > f0
               isE == At(b, f1) \in {69, 101}
               e0 == IF isE THEN (IF At(b, f1 + 1) \in {43, 45} THEN f1 + 2 ELSE f1 + 1) ELSE f1
               esg == IF isE /\ At(b, f1 + 1) = 45 THEN -1 ELSE 1
               e1 == IF isE THEN SkipDigits(b, e0) ELSE f1
               hasExp == e1 > e0
               wellFormed == (hasInt \/ hasFrac) /\ (dot \/ isE) /\ (isE => hasExp) /\ e1 > n
           IN IF ~wellFormed THEN [t |-> "x", b |-> b]
              ELSE IF isE /\ e1 - e0 > 3 THEN [t |-> "open"]      \* exponent beyond the float range
              ELSE LET mant == DigitsVal(b, f0, f1 - 1, DigitsVal(b, s0, i1 - 1, Zero))
                       ex == IF isE THEN esg * NatOf(b, e0, e1 - 1) ELSE 0
                   IN IF ex > 290 \/ ex < -290 THEN [t |-> "open"]
                      ELSE [t |-> "real", sg |-> sg, d |-> mant, e10 |-> ex - (f1 - f0)]

\* ------------------------------------------------------------ literal strings
\* returns [ok, s, next]; i is the index after "("
RECURSIVE LitStr(_, _, _, _)
LitStr(b, i, depth, acc) ==
    IF i > Len(b) THEN [ok |-> FALSE, s |-> acc, next |-> i]
    ELSE LET c == b[i]
         IN IF c = 40 THEN LitStr(b, i + 1, depth + 1, Append(acc, c))
            ELSE IF c = 41 THEN (IF depth = 1 THEN [ok |-> TRUE, s |-> acc, next |-> i + 1]
                                 ELSE LitStr(b, i + 1, depth - 1, Append(acc, c)))
            ELSE IF c = 13 THEN       \* CR or CRLF is read as one LF
                LitStr(b, IF At(b, i + 1) = 10 THEN i + 2 ELSE i + 1, depth, Append(acc, 10))
            ELSE IF c # 92 THEN LitStr(b, i + 1, depth, Append(acc, c))
            ELSE IF i + 1 > Len(b) THEN [ok |-> FALSE, s |-> acc, next |-> i + 1]
            ELSE LET e == b[i + 1]
                 IN IF e = 110 THEN LitStr(b, i + 2, depth, Append(acc, 10))
                    ELSE IF e = 114 THEN LitStr(b, i + 2, depth, Append(acc, 13))
                    ELSE IF e = 116 THEN LitStr(b, i + 2, depth, Append(acc, 9))
                    ELSE IF e = 98 THEN LitStr(b, i + 2, depth, Append(acc, 8))
                    ELSE IF e = 102 THEN LitStr(b, i + 2, depth, Append(acc, 12))
                    ELSE IF e = 10 THEN LitStr(b, i + 2, depth, acc)          \* line continuation
                    ELSE IF e = 13 THEN LitStr(b, IF At(b, i + 2) = 10 THEN i + 3 ELSE i + 2, depth, acc)
                    ELSE IF IsOct(e) THEN
                        LET n2 == IF IsOct(At(b, i + 2)) THEN (IF IsOct(At(b, i + 3)) THEN 3 ELSE 2) ELSE 1
                            v == IF n2 = 1 THEN e - 48
                                 ELSE IF n2 = 2 THEN (e - 48) * 8 + (b[i + 2] - 48)
                                 ELSE (e - 48) * 64 + (b[i + 2] - 48) * 8 + (b[i + 3] - 48)
                        IN LitStr(b, i + 1 + n2, depth, Append(acc, v % 256))   \* high-order overflow ignored
                    ELSE LitStr(b, i + 2, depth, Append(acc, e))              \* \( \) \\ and any other: the character itself

\* --------------------------------------------------------------- hex strings
RECURSIVE HexStr(_, _, _, _)
HexStr(b, i, hi, acc) ==       \* hi = pending high nibble or -1
    IF i > Len(b) THEN [ok |-> FALSE, s |-> acc, next |-> i, open |-> FALSE]
    ELSE LET c == b[i]
         IN IF c = 62 THEN [ok |-> TRUE, s |-> IF hi >= 0 THEN Append(acc, hi * 16) ELSE acc, next |-> i + 1, open |-> FALSE]
            ELSE IF IsWhite(c) THEN HexStr(b, i + 1, hi, acc)
            ELSE IF IsCtl(c) THEN [ok |-> FALSE, s |-> acc, next |-> i, open |-> TRUE]
            ELSE IF HexVal(c) < 0 THEN [ok |-> FALSE, s |-> acc, next |-> i, open |-> FALSE]
            ELSE IF hi < 0 THEN HexStr(b, i + 1, HexVal(c), acc)
            ELSE HexStr(b, i + 1, -1, Append(acc, hi * 16 + HexVal(c)))

\* ------------------------------------------------------------ ASCII85 strings
\* group of k digits (values 0..84) as BigInt
RECURSIVE A85Val(_, _)
A85Val(g, pad) == IF Len(g) = 5 THEN Add(Mul(BI(g[1]), BI(52200625)),
                                          BI(g[2] * 614125 + g[3] * 7225 + g[4] * 85 + g[5]))
                  ELSE A85Val(Append(g, pad), pad)
Bytes4(v) == \* big-endian bytes of v < 2^32  (v = u1 + u2 * 2^15 + u3 * 2^30)
    LET u == Pad5(v.m)
        b0 == u[1] % 256
        b1 == ((u[1] \div 256) + (u[2] % 2) * 128) % 256
        b2 == (u[2] \div 2) % 256
        b3 == ((u[2] \div 512) + (u[3] % 4) * 64) % 256
    IN <<b3, b2, b1, b0>>
RECURSIVE A85Str(_, _, _, _)
A85Str(b, i, grp, acc) ==
    IF i > Len(b) THEN [ok |-> FALSE, s |-> acc, next |-> i, open |-> FALSE]
    ELSE LET c == b[i]
         IN IF c = 126 THEN
                IF At(b, i + 1) # 62 THEN [ok |-> FALSE, s |-> acc, next |-> i, open |-> FALSE]
                ELSE IF Len(grp) = 0 THEN [ok |-> TRUE, s |-> acc, next |-> i + 2, open |-> FALSE]
                ELSE IF Len(grp) = 1 THEN [ok |-> FALSE, s |-> acc, next |-> i, open |-> FALSE]
                ELSE LET v == A85Val(grp, 84)
                     IN IF Ge(v, TwoPow(32)) THEN [ok |-> FALSE, s |-> acc, next |-> i, open |-> TRUE]
                        ELSE [ok |-> TRUE, s |-> acc \o SubSeq(Bytes4(v), 1, Len(grp) - 1), next |-> i + 2, open |-> FALSE]
            ELSE IF IsWhite(c) THEN A85Str(b, i + 1, grp, acc)
            ELSE IF IsCtl(c) THEN [ok |-> FALSE, s |-> acc, next |-> i, open |-> TRUE]
            ELSE IF c = 122 /\ Len(grp) = 0 THEN A85Str(b, i + 1, grp, acc \o <<0, 0, 0, 0>>)
            ELSE IF c < 33 \/ c > 117 THEN [ok |-> FALSE, s |-> acc, next |-> i, open |-> FALSE]
            ELSE IF Len(grp) < 4 THEN A85Str(b, i + 1, Append(grp, c - 33), acc)
            ELSE LET v == A85Val(Append(grp, c - 33), 0)
                 IN IF Ge(v, TwoPow(32)) THEN [ok |-> FALSE, s |-> acc, next |-> i, open |-> TRUE]
                    ELSE A85Str(b, i + 1, <<>>, acc \o Bytes4(v))

\* ------------------------------------------------------------------ comments
RECURSIVE EolPos(_, _)
EolPos(b, i) == IF i > Len(b) THEN i ELSE IF b[i] \in {10, 13} THEN i ELSE EolPos(b, i + 1)
\* a comment ends at the next newline or form feed (PLRM 3.2.2)
RECURSIVE CommentEnd(_, _)
CommentEnd(b, i) == IF i > Len(b) THEN i ELSE IF b[i] \in {10, 12, 13} THEN i ELSE CommentEnd(b, i + 1)
\* index after the end-of-line sequence starting at i (i may be past the end)
AfterEol(b, i) == IF At(b, i) = 13 /\ At(b, i + 1) = 10 THEN i + 2 ELSE IF i <= Len(b) THEN i + 1 ELSE i
RECURSIVE SkipBlank(_, _)
SkipBlank(b, i) == IF i <= Len(b) /\ b[i] <= 32 /\ b[i] \notin {10, 13} THEN SkipBlank(b, i + 1) ELSE i
RECURSIVE KeyEnd(_, _)
KeyEnd(b, i) == IF i > Len(b) \/ b[i] <= 32 \/ b[i] = 58 THEN i ELSE KeyEnd(b, i + 1)
\* value of a DSC comment starting at i (after the key): text to the end of the line,
\* leading blanks dropped, "%%+" lines appended with a blank between
RECURSIVE DscVal(_, _, _)
DscVal(b, i, acc) ==
    LET v0 == SkipBlank(b, i)
        e == EolPos(b, v0)
        acc1 == acc \o SubSeq(b, v0, e - 1)
        nxt == AfterEol(b, e)
    IN IF At(b, nxt) = 37 /\ At(b, nxt + 1) = 37 /\ At(b, nxt + 2) = 43
       THEN DscVal(b, nxt + 3, Append(acc1, 32))
       ELSE [val |-> acc1, next |-> nxt]

\* ---------------------------------------------------------------- main loop
RECURSIVE RegEnd(_, _)
RegEnd(b, i) == IF i <= Len(b) /\ IsRegular(b[i]) THEN RegEnd(b, i + 1) ELSE i

RECURSIVE LexFrom(_, _, _, _, _), AfterComment(_, _, _, _)
\* continue after the plain comment that starts at i: a form feed ends the comment but not the line
AfterComment(b, i, toks, dsc) ==
    LET e == CommentEnd(b, i)
    IN IF At(b, e) = 12 THEN LexFrom(b, e + 1, FALSE, toks, dsc)
       ELSE LexFrom(b, AfterEol(b, e), TRUE, toks, dsc)
LexFrom(b, i, bol, toks, dsc) ==
    IF i > Len(b) THEN [ok |-> TRUE, open |-> FALSE, toks |-> toks, dsc |-> dsc]
    ELSE LET c == b[i]
             bad == [ok |-> FALSE, open |-> FALSE, toks |-> toks, dsc |-> dsc]
             und == [ok |-> FALSE, open |-> TRUE, toks |-> toks, dsc |-> dsc]
         IN IF IsWhite(c) THEN LexFrom(b, i + 1, c \in {10, 13}, toks, dsc)
            ELSE IF IsCtl(c) THEN und
            ELSE IF c = 37 THEN
                IF bol /\ At(b, i + 1) = 37 THEN
                    LET k1 == KeyEnd(b, i + 2)
                        key == SubSeq(b, i + 2, k1 - 1)
                        afterKey == IF At(b, k1) = 58 THEN k1 + 1 ELSE k1
                    IN IF key = <<>> THEN AfterComment(b, i, toks, dsc)
                       ELSE LET r == DscVal(b, afterKey, <<>>)
                            IN LexFrom(b, r.next, TRUE, toks, Append(dsc, [key |-> key, val |-> r.val]))
                ELSE AfterComment(b, i, toks, dsc)
            ELSE IF c = 40 THEN
                LET r == LitStr(b, i + 1, 1, <<>>)
                IN IF r.ok THEN LexFrom(b, r.next, FALSE, Append(toks, [t |-> "str", b |-> r.s]), dsc) ELSE bad
            ELSE IF c = 60 THEN
                IF At(b, i + 1) = 60 THEN LexFrom(b, i + 2, FALSE, Append(toks, [t |-> "x", b |-> <<60, 60>>]), dsc)
                ELSE IF At(b, i + 1) = 126 THEN
                    LET r == A85Str(b, i + 2, <<>>, <<>>)
                    IN IF r.ok THEN LexFrom(b, r.next, FALSE, Append(toks, [t |-> "str", b |-> r.s]), dsc)
                       ELSE IF r.open THEN und ELSE bad
                ELSE LET r == HexStr(b, i + 1, -1, <<>>)
                     IN IF r.ok THEN LexFrom(b, r.next, FALSE, Append(toks, [t |-> "str", b |-> r.s]), dsc)
                        ELSE IF r.open THEN und ELSE bad
            ELSE IF c = 62 THEN
                IF At(b, i + 1) = 62 THEN LexFrom(b, i + 2, FALSE, Append(toks, [t |-> "x", b |-> <<62, 62>>]), dsc)
                ELSE bad
            ELSE IF c = 41 THEN bad
            ELSE IF c \in {91, 93} THEN LexFrom(b, i + 1, FALSE, Append(toks, [t |-> "x", b |-> <<c>>]), dsc)
            ELSE IF c = 123 THEN LexFrom(b, i + 1, FALSE, Append(toks, [t |-> "lbrace"]), dsc)
            ELSE IF c = 125 THEN LexFrom(b, i + 1, FALSE, Append(toks, [t |-> "rbrace"]), dsc)
            ELSE IF c = 47 THEN
                IF At(b, i + 1) = 47 THEN und          \* immediately evaluated name: not supported
                ELSE LET e == RegEnd(b, i + 1)
                     IN LexFrom(b, e, FALSE, Append(toks, [t |-> "name", b |-> SubSeq(b, i + 1, e - 1)]), dsc)
            ELSE LET e == RegEnd(b, i)
                     tok == Number(SubSeq(b, i, e - 1))
                 IN IF tok.t = "open" THEN und
                    ELSE LexFrom(b, e, FALSE, Append(toks, tok), dsc)

Lex(b) == LexFrom(b, 1, TRUE, <<>>, <<>>)

\* braces balanced and never negative: then the text is a complete procedure body
RECURSIVE BalR(_, _, _)
BalR(toks, j, d) == IF j > Len(toks) THEN d = 0
                    ELSE IF toks[j].t = "lbrace" THEN BalR(toks, j + 1, d + 1)
                    ELSE IF toks[j].t = "rbrace" THEN (d > 0 /\ BalR(toks, j + 1, d - 1))
                    ELSE BalR(toks, j + 1, d)
Balanced(toks) == BalR(toks, 1, 0)

=============================================================================
