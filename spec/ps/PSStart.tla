------------------------------ MODULE PSStart ------------------------------
(***************************************************************************)
(* The "%!" start check of the interpreter (C11): with the check enabled,  *)
(* input that does not begin with the two bytes "%!" is rejected with the  *)
(* not-a-PostScript-file error before anything is executed; once input has *)
(* passed, the check is switched off for all later calls; a rejected call  *)
(* leaves it on.                                                           *)
(*                                                                         *)
(* Family "pairs": all 65536 values of the first two bytes.                *)
(* Family "hist": all histories of up to MaxCalls calls over six classes   *)
(* of input, starting with the check on or off.  Every input pushes a      *)
(* known number of integers when (and only when) it is executed, which is  *)
(* how "nothing is executed" is observed.                                  *)
(***************************************************************************)
EXTENDS Integers, Sequences, TLC, Json, CSV

CONSTANTS Family, MaxCalls, OutFile

Accepts(b1, b2) == b1 = 37 /\ b2 = 33        \* "%!"

\* input classes: [first two bytes known to the model, values pushed if executed]
Classes == {"ps", "pct", "digits", "empty", "one", "late"}
Passes(c) == c = "ps"
Pushes(c) == CASE c = "ps" -> 1 [] c = "pct" -> 1 [] c = "digits" -> 1 [] c = "late" -> 1 [] OTHER -> 0

VARIABLES check,     \* the CheckStart flag
          pushed,    \* integers on the operand stack so far
          hist,      \* calls made: <<[cls, result]>>
          pair       \* family "pairs": the two bytes, <<>> before the choice
vars == <<check, pushed, hist, pair>>

Init == /\ check \in (IF Family = "pairs" THEN {TRUE} ELSE BOOLEAN)
        /\ pushed = 0 /\ hist = <<>> /\ pair = <<>>

Call(c) == /\ Family = "hist" /\ Len(hist) < MaxCalls
           /\ IF check /\ ~Passes(c)
              THEN /\ hist' = Append(hist, [cls |-> c, res |-> "notps", check0 |-> check])
                   /\ UNCHANGED <<check, pushed>>
              ELSE /\ hist' = Append(hist, [cls |-> c, res |-> "ok", check0 |-> check])
                   /\ check' = FALSE
                   /\ pushed' = pushed + Pushes(c)
           /\ UNCHANGED pair
Pick == /\ Family = "pairs" /\ pair = <<>>
        /\ \E b1 \in 0..255, b2 \in 0..255 : pair' = <<b1, b2>>
        /\ UNCHANGED <<check, pushed, hist>>
Next == (\E c \in Classes : Call(c)) \/ Pick

\* once passed, never checked again; a rejection executes nothing
CheckOnce == [][ (~check) => (~check') ]_vars
RejectIsInert == [][ (hist' # hist /\ hist'[Len(hist')].res = "notps") => (pushed' = pushed /\ check' = check) ]_vars

EmitPair == (Family = "pairs" /\ pair # <<>>) =>
               CSVWrite("%1$s", <<ToJson([b1 |-> pair[1], b2 |-> pair[2],
                                           res |-> IF Accepts(pair[1], pair[2]) THEN "ok" ELSE "notps"])>>, OutFile)
EmitHist == (Family = "hist" /\ hist # <<>>) =>
               CSVWrite("%1$s", <<ToJson([calls |-> hist, pushed |-> pushed, check |-> check])>>, OutFile)
=============================================================================
