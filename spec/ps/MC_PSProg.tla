------------------------------ MODULE MC_PSProg ------------------------------
(***************************************************************************)
(* Generating configuration for control flow (DESIGN.md C03): programs     *)
(* over a grammar of procedures, conditionals and the four loop operators  *)
(* nested to depth 2, with a literal procedure, exit and stop at every     *)
(* position of a body; and dictionary-stack lookup programs.  TLC picks a  *)
(* program in stages, runs PSMachine on it and emits program + outcome.    *)
(***************************************************************************)
EXTENDS PSMachine, Json, CSV

CONSTANTS Tier,          \* "quick" | "thorough"
          Family,        \* "ctl" | "lookup" | "budget"
          MaxBudget,     \* budgets 1..MaxBudget are explored in the "budget" family
          FeedLen,       \* tokens per fed program (family "feed", simulation)
          OutFile, BaseFile, StepBound

\* ---- tokens are written as strings in the grammar and mapped to values here
Special == ("65536" :> IntN(65536)) @@ ("65537" :> IntN(65537)) @@ ("1000" :> IntN(1000)) @@ ("/f" :> NameV("f")) @@ ("/g" :> NameV("g"))
           @@ ("0" :> IntN(0)) @@ ("1" :> IntN(1)) @@ ("2" :> IntN(2)) @@ ("3" :> IntN(3)) @@ ("5" :> IntN(5))
           @@ ("6" :> IntN(6)) @@ ("7" :> IntN(7)) @@ ("9" :> IntN(9)) @@ ("-1" :> IntN(-1)) @@ ("(ab)" :> StrLit(<<97, 98>>))
           @@ ("/a" :> NameV("a")) @@ ("100000" :> IntN(100000)) @@ ("65" :> IntN(65))
           @@ ("/x" :> NameV("x")) @@ ("/p" :> NameV("p")) @@ ("/add" :> NameV("add")) @@ ("/y" :> NameV("y"))
           @@ ("{" :> LBrace) @@ ("}" :> RBrace) @@ ("<C3A9FF>" :> StrLit(<<195, 169, 255>>))
Tok(str) == IF str \in DOMAIN Special THEN Special[str] ELSE XNameV(str)
Toks(ss) == [j \in 1..Len(ss) |-> Tok(ss[j])]

\* ---- bodies of atoms
AtomsQ == { <<"1">>, <<"pop">>, <<"exit">>, <<"stop">>, <<"x">>, <<"{", "2", "}">>, <<"/x", "7", "def">> }
AtomsT == AtomsQ \cup { <<"count">>, <<"dup">>, <<"add">>, <<"/add">>, <<"{", "}">>, <<"{", "x", "}">>,
                        <<"{", "{", "3", "}", "}">>, <<"currentdict">> }
Atoms == IF Tier = "quick" THEN AtomsQ ELSE AtomsT
Seqs(S, k) == \* concatenations of at most k members of S
    LET RECURSIVE F(_)
        F(n) == IF n = 0 THEN {<<>>} ELSE LET P == F(n - 1) IN P \cup {a \o b : a \in P, b \in S}
    IN F(k)
Body0 == Seqs(Atoms, 2)

Forms == {"lit", "exec", "ift", "iff", "ifelset", "ifelsef", "repeat2", "repeat0", "repeat1", "forallhigh", "for", "fordown",
          "forempty", "foremptydown", "forone",
          "loop", "forall", "forallstr", "bindexec", "defp", "defbindp", "foralldict"}
Wrap(f, b) ==
    CASE f = "lit" -> <<"{">> \o b \o <<"}">>
      [] f = "exec" -> <<"{">> \o b \o <<"}", "exec">>
      [] f = "ift" -> <<"true", "{">> \o b \o <<"}", "if">>
      [] f = "iff" -> <<"false", "{">> \o b \o <<"}", "if">>
      [] f = "ifelset" -> <<"true", "{">> \o b \o <<"}", "{", "9", "}", "ifelse">>
      [] f = "ifelsef" -> <<"false", "{", "9", "}", "{">> \o b \o <<"}", "ifelse">>
      [] f = "repeat2" -> <<"2", "{">> \o b \o <<"}", "repeat">>
      [] f = "repeat0" -> <<"0", "{">> \o b \o <<"}", "repeat">>
      [] f = "repeat1" -> <<"1", "{">> \o b \o <<"}", "repeat">>             \* a single iteration is still a loop (exit)
      [] f = "forallhigh" -> <<"<C3A9FF>", "{">> \o b \o <<"}", "forall">>    \* bytes, not characters
      [] f = "for" -> <<"1", "1", "3", "{">> \o b \o <<"}", "for">>
      [] f = "fordown" -> <<"3", "-1", "2", "{">> \o b \o <<"}", "for">>
      [] f = "forempty" -> <<"5", "1", "3", "{">> \o b \o <<"}", "for">>          \* empty range: the body never runs
      [] f = "foremptydown" -> <<"1", "-1", "3", "{">> \o b \o <<"}", "for">>
      [] f = "forone" -> <<"2", "1", "2", "{">> \o b \o <<"}", "for">>
      [] f = "loop" -> <<"{">> \o b \o <<"}", "loop">>
      [] f = "forall" -> <<"[", "5", "6", "]", "{">> \o b \o <<"}", "forall">>
      [] f = "forallstr" -> <<"2", "string", "{">> \o b \o <<"}", "forall">>
      [] f = "foralldict" -> <<"1", "dict", "dup", "/y", "5", "put", "{">> \o b \o <<"}", "forall">>
      [] f = "bindexec" -> <<"{">> \o b \o <<"}", "bind", "exec">>
      [] f = "defp" -> <<"/p", "{">> \o b \o <<"}", "def", "p">>
      [] OTHER -> <<"/p", "{">> \o b \o <<"}", "bind", "def", "/add", "{", "pop", "}", "def", "p">>   \* defbindp

Ctl1 == {Wrap(f, b) : f \in Forms, b \in Body0}
Pre == {<<>>, <<"1">>} \cup (IF Tier = "quick" THEN {} ELSE {<<"exit">>})
Post == {<<>>, <<"{", "2", "}">>, <<"exit">>}
Outer == {"none"} \cup (IF Tier = "quick" THEN {"exec", "repeat2", "loop", "forall"}
                        ELSE {"exec", "repeat2", "loop", "forall", "for", "ift", "ifelsef", "defp", "lit", "bindexec"})

\* ---- dictionary stack lookup family
LookAtoms == { <<"/x", "1", "def">>, <<"/x", "2", "def">>, <<"3", "dict", "begin">>, <<"end">>, <<"x">>,
               <<"/x", "load">>,
               \* where returns the topmost dictionary defining the key: what it holds is what the name means,
               \* and a store through it changes what the name means
               <<"/x", "where", "{", "/x", "get", "}", "{", "6", "}", "ifelse">>,
               <<"/x", "where", "{", "/x", "9", "put", "}", "if">>,
               \* load pushes whatever the name means, also an operator or an executable name; nothing is executed
               <<"/add", "load">>, <<"/p", "{", "x", "}", "0", "get", "def", "/p", "load">>,
               <<"userdict", "begin">>, <<"currentdict", "/x", "known">>,
               <<"/add", "{", "pop", "7", "}", "def">>, <<"1", "2", "add">>,
               <<"{", "1", "2", "add", "}", "bind", "/p", "exch", "def">>, <<"p">>,
               \* a dictionary literal with a repeated key: pairs are entered in order, the last one wins
               <<"<<", "/x", "1", "/y", "5", "/x", "2", ">>", "begin">>,
               \* a name whose value is the file object (the library's nil): it is found, not skipped
               <<"/x", "currentfile", "def">> }
LookLen == IF Tier = "quick" THEN 4 ELSE 5

VARIABLES s, stim, phase,
          u        \* "budget" family: the same program running without a budget, in lock step
vars == <<s, stim, phase, u>>

Init == /\ phase = "pick1"
        /\ stim = [outer |-> "none", pre |-> <<>>, mid |-> <<>>, post |-> <<>>, n |-> 0, cuts |-> {}, prog |-> <<>>]
        /\ s = FreshState(<<>>, 0)
        /\ u = FreshState(<<>>, 0)

Program(st) == LET inner == st.pre \o st.mid \o st.post
               IN IF st.outer = "none" THEN inner ELSE Wrap(st.outer, inner)

PickCtl ==
    /\ Family = "ctl"
    /\ \/ /\ phase = "pick1"
          /\ \E o \in Outer, c \in Ctl1 : stim' = [stim EXCEPT !.outer = o, !.mid = c]
          /\ phase' = "pick2" /\ UNCHANGED <<s, u>>
       \/ /\ phase = "pick2"
          /\ \E a \in Pre, b \in Post : stim' = [stim EXCEPT !.pre = a, !.post = b]
          /\ phase' = "start" /\ UNCHANGED <<s, u>>
PickLook ==
    /\ Family = "lookup"
    /\ phase = "pick1"
    /\ \/ /\ stim.n < LookLen
          /\ \E a \in LookAtoms : stim' = [stim EXCEPT !.mid = @ \o a, !.n = @ + 1]
          /\ UNCHANGED <<phase, s, u>>
       \/ /\ stim.n > 0
          /\ phase' = "start" /\ UNCHANGED <<stim, s, u>>
\* ---- dictionary literals (C02): up to three pairs over two keys, then a look-up
PickDictLit ==
    /\ Family = "dictlit" /\ phase = "pick1"
    /\ \E n \in 1..3, k1 \in {"/x", "/y"}, k2 \in {"/x", "/y"}, k3 \in {"/x", "/y"}, v1 \in {"1", "2"}, v2 \in {"2", "5"}, v3 \in {"1", "5"},
          opener \in {"<<", "mark"}, q \in {"/x", "/y"} :
          stim' = [stim EXCEPT !.mid = <<opener>> \o SubSeq(<<k1, v1, k2, v2, k3, v3>>, 1, 2 * n) \o <<">>", "dup", "length", "exch", q, "get">>]
    /\ phase' = "start" /\ UNCHANGED <<s, u>>

\* ---- creating operators create (C02): an object made by one execution of a creating operator is
\* changed, then the operator is executed again: the second object is new and untouched
Creators == << <<"matrix">>, <<"3", "array">>, <<"2", "string">>, <<"2", "dict">>, <<"[", "1", "2", "]">>,
               <<"<<", "/a", "1", ">>">>, <<"(ab)">>, <<"{", "1", "2", "}">> >>
Mutator(j) == IF j \in {4, 6} THEN <<"dup", "/a", "7", "put">> ELSE IF j \in {3, 7} THEN <<"dup", "0", "65", "put">> ELSE <<"dup", "0", "5", "put">>
PickFresh ==
    /\ Family = "fresh" /\ phase = "pick1"
    /\ \E j \in 1..Len(Creators), k \in 1..Len(Creators), tail \in {<<>>, <<"eq">>, <<"exch", "pop", "0", "get">>} :
          /\ (tail = <<"exch", "pop", "0", "get">> => k \notin {4, 6})
          /\ stim' = [stim EXCEPT !.mid = Creators[j] \o Mutator(j) \o Creators[k] \o tail]
    /\ phase' = "start" /\ UNCHANGED <<s, u>>

\* ---- recursion and growth shapes against the real limits (C11, C01b)
LimitShapes == {
    <<"/f", "{", "f", "1", "}", "def", "f">>,                           \* self call, not in tail position
    <<"/f", "{", "1", "f", "}", "def", "f">>,                           \* tail call that pushes
    <<"/f", "{", "{", "f", "}", "exec", "1", "}", "def", "f">>,          \* recursion through exec
    <<"/f", "{", "true", "{", "f", "}", "if", "1", "}", "def", "f">>,    \* recursion through if
    <<"/f", "{", "1", "{", "f", "}", "repeat", "1", "}", "def", "f">>,   \* recursion through repeat
    <<"/f", "{", "/f", "load", "exec", "1", "}", "def", "f">>,          \* recursion through load exec
    <<"/f", "{", "g", "1", "pop", "}", "def", "/g", "{", "f", "}", "0", "get", "def", "f">>,   \* through a name whose value is an executable name
    <<"/f", "{", "g", "1", "}", "def", "/g", "{", "f", "2", "}", "def", "f">>,                 \* two procedures calling each other
    <<"/f", "{", "x", "}", "def", "/x", "{", "f", "1", "}", "def", "/g", "{", "x", "}", "0", "get", "def", "g">>,
    <<"{", "currentdict", "begin", "}", "loop">>,                        \* begin in a loop
    <<"{", "1", "}", "loop">>,                                            \* loop that pushes
    <<"1", "{", "dup", "}", "loop">>,
    <<"{", "mark", "}", "loop">>,
    <<"0", "1", "1000", "{", "}", "for">>,                               \* for that pushes 1001 values
    <<"0", "1", "1000", "{", "pop", "}", "for", "count">>,               \* long but balanced
    <<"65537", "array">>, <<"65537", "string">>, <<"65537", "dict">>,
    <<"65536", "array", "length">>, <<"65536", "string", "length">>,
    <<"1000", "{", "1", "}", "repeat">>,
    <<"{", "{", "}", "exec", "}", "loop">>                                \* never ends: cut by the step bound, not emitted
}
PickLimit ==
    /\ Family = "limits"
    /\ phase = "pick1"
    /\ \E c \in LimitShapes : stim' = [stim EXCEPT !.mid = c]
    /\ phase' = "start" /\ UNCHANGED <<s, u>>

\* ---- multi-call family (C12): the same program delivered in 2-3 Execute calls, split at
\* token boundaries (also inside an unfinished procedure body); u runs the unsplit program
HasStop(c) == \E j \in 1..Len(c) : c[j] \in {"stop"}
RECURSIVE InsertEoc(_, _, _)
InsertEoc(toks, cuts, j) ==      \* an end-of-call marker after token j for every j in cuts
    IF j > Len(toks) THEN <<>>
    ELSE <<toks[j]>> \o (IF j \in cuts THEN <<EndCall>> ELSE <<>>) \o InsertEoc(toks, cuts, j + 1)
PickCalls ==
    /\ Family = "calls" /\ phase = "pick1"
    /\ \E o \in {"none", "repeat2"}, c \in {x \in Ctl1 : ~HasStop(x)} :
          \E a \in 1..(Len(Wrap(o, c)) - 1) : \E b \in {0} \cup ((a + 1)..(Len(Wrap(o, c)) - 1)) :
             /\ (Tier = "quick" => (b = 0 \/ b = a + 2))
             /\ stim' = [stim EXCEPT !.outer = o, !.mid = c, !.pre = <<>>, !.post = <<>>, !.cuts = {a, b} \ {0}]
    /\ phase' = "start" /\ UNCHANGED <<s, u>>

\* ---- fed programs (simulation): the environment hands over one token at a time and chooses
\* it knowing the machine state, so that long programs stay inside the operators' domains:
\* a push, or an operator that the specification says succeeds now; with a small probability
\* any operator (the run then usually ends in an error).  One random successor per step.
FeedLits == << IntN(0), IntN(1), IntN(2), IntN(3), IntN(-1), IntN(255), IntN(7), IntV(MaxInt64), IntV(MinInt64),
               RealV([n |-> BI(1), e |-> -1]), RealV([n |-> BI(3), e |-> 0]),
               NameV("a"), NameV("b"), NameV("x"), NameV("Font"), XNameV("true"), XNameV("false"),
               StrLit(<<97, 98, 99>>), StrLit(<<>>), StrLit(<<120>>), XNameV("mark"), XNameV("["), XNameV("<<"),
               XNameV("currentdict"), XNameV("userdict"), XNameV("systemdict"), XNameV("StandardEncoding"),
               XNameV("a"), XNameV("x"), XNameV("count"), XNameV("errordict"), NameV("typecheck") >>
FeedOps == <<"pop", "dup", "exch", "copy", "index", "roll", "]", ">>", "cleartomark", "abs", "add", "sub", "mul",
             "and", "or", "not", "eq", "ne", "array", "string", "dict", "length", "get", "put", "getinterval",
             "putinterval", "begin", "end", "def", "load", "where", "known", "maxlength", "type", "definefont",
             "findfont", "cvx", "exec", "bind">>
Succeeds(st, op) == LET r == DataOp(op, st.ost, st.heap, st.dst) IN r.ok
EnabledOps(st) == {j \in 1..Len(FeedOps) : FeedOps[j] \in DataOps /\ Succeeds(st, FeedOps[j])}
FeedStep ==
    /\ Family = "feed" /\ phase = "pick1" /\ s.status = "running" /\ s.est = <<>> /\ s.feed = <<>>
    /\ stim.n < FeedLen
    /\ \E coin \in {RandomElement(1..20)}, li \in {RandomElement(1..Len(FeedLits))}, oi \in {RandomElement(1..Len(FeedOps))},
          ei \in {RandomElement(0..999)} :
          \* every random draw is bound exactly once (RandomElement is re-evaluated at each use)
          LET en == EnabledOps(s)
              pick == CHOOSE j \in en : Cardinality({i \in en : i < j}) = ei % Cardinality(en)
              tok == IF coin <= 8 \/ (en = {} /\ coin < 20) THEN FeedLits[li]
                     ELSE IF coin < 20 THEN XNameV(FeedOps[pick])
                     ELSE XNameV(FeedOps[oi])
          IN /\ s' = [s EXCEPT !.feed = <<tok>>]
             /\ stim' = [stim EXCEPT !.n = @ + 1, !.prog = Append(@, tok)]
    /\ UNCHANGED <<phase, u>>
FeedRun == /\ Family = "feed" /\ phase = "pick1" /\ s.status = "running" /\ (s.est # <<>> \/ s.feed # <<>>)
           /\ s' = IF s.nops > StepBound THEN Skip(s) ELSE Step(s)
           /\ UNCHANGED <<stim, phase, u>>

\* loops announced for far more rounds than any budget allows, but left by exit in the first round:
\* the budget counts operations executed, not operations announced
HasTok(b, t) == \E j \in 1..Len(b) : b[j] = t
BigLoops == {<<"100000", "{">> \o b \o <<"}", "repeat">> : b \in {x \in Body0 : HasTok(x, "exit")}}
            \cup {<<"1", "1", "100000", "{">> \o b \o <<"}", "for">> : b \in {x \in Body0 : HasTok(x, "exit")}}
PickBudget ==
    /\ Family = "budget"
    /\ phase = "pick1"
    /\ \E o \in {"none", "loop", "repeat2"}, c \in Ctl1 \cup BigLoops, b \in 1..MaxBudget :
          stim' = [stim EXCEPT !.outer = o, !.mid = c, !.n = b]
    /\ phase' = "start" /\ UNCHANGED <<s, u>>
\* ---- the budget spans the calls (C11 + C12): a budgeted program delivered in two Execute
\* calls; u runs the unsplit program under the same budget
PickBudgetCalls ==
    /\ Family = "budgetcalls" /\ phase = "pick1"
    /\ \E o \in {"none", "repeat2"}, c \in {x \in Ctl1 : ~HasStop(x)}, b \in 1..MaxBudget :
          \E a \in {1, Len(Wrap(o, c)) \div 2, Len(Wrap(o, c)) - 1} :
             /\ a >= 1
             /\ stim' = [stim EXCEPT !.outer = o, !.mid = c, !.pre = <<>>, !.post = <<>>, !.cuts = {a}, !.n = b]
    /\ phase' = "start" /\ UNCHANGED <<s, u>>
Feed0(st) == IF Family \in {"calls", "budgetcalls"} THEN InsertEoc(Toks(Program(st)), st.cuts, 1) ELSE Toks(Program(st))
Start == /\ phase = "start"
         /\ phase' = "run"
         /\ s' = FreshState(Feed0(stim), IF Family \in {"budget", "budgetcalls"} THEN stim.n ELSE 0)
         /\ u' = IF Family \in {"budget", "calls"} THEN FreshState(Toks(Program(stim)), 0)
                 ELSE IF Family = "budgetcalls" THEN FreshState(Toks(Program(stim)), stim.n) ELSE u
         /\ UNCHANGED stim
Run == /\ phase = "run" /\ s.status = "running"
       /\ s' = IF s.nops > StepBound THEN Skip(s) ELSE Step(s)
       /\ u' = IF Family = "budget" /\ u.status = "running" THEN Step(u)
               ELSE IF Family = "calls" THEN u     \* the unsplit twin is run to its end when needed (RunToEnd)
               ELSE u
       /\ UNCHANGED <<stim, phase>>
Next == PickCtl \/ PickLook \/ PickDictLit \/ PickFresh \/ PickBudget \/ PickLimit \/ PickCalls \/ PickBudgetCalls \/ Start \/ Run \/ FeedStep \/ FeedRun

Vector == [prog |-> IF Family = "feed" THEN stim.prog ELSE Feed0(stim), init |-> <<>>, maxops |-> s.maxops,
           status |-> s.status, errs |-> s.errs, ost |-> s.ost, dst |-> s.dst,
           heap |-> s.heap.c, nheap |-> s.heap.n, nops |-> s.nops, steps |-> s.nops]
\* fed programs are emitted when they end: in an error, or idle with FeedLen tokens consumed
FeedEnded == Family = "feed" /\ stim.n >= 1
             /\ (s.status = "error" \/ (s.status = "running" /\ s.est = <<>> /\ s.feed = <<>> /\ stim.n = FeedLen))
FeedVector == [Vector EXCEPT !.status = IF s.status = "running" THEN "done" ELSE s.status]
Emit == /\ ((phase = "run" /\ s.status \in {"done", "error"}) => CSVWrite("%1$s", <<ToJson(Vector)>>, OutFile))
        /\ (FeedEnded => CSVWrite("%1$s", <<ToJson(FeedVector)>>, OutFile))
ASSUME JsonSerialize(BaseFile, [heap |-> FreshHeap, nfixed |-> NFixed])

(***************************************************************************)
(* Design-level properties of the machine, checked on every behaviour.     *)
(***************************************************************************)
\* Feeding a program in several calls, split at token boundaries, is equivalent to feeding
\* the concatenation in one call: same final stacks, heap, dictionaries and operation count.
RECURSIVE RunToEnd(_, _)
RunToEnd(st, fuel) == IF st.status # "running" \/ fuel = 0 THEN st ELSE RunToEnd(Step(st), fuel - 1)
SplitTransparent ==
    (Family = "calls" /\ phase = "run" /\ s.status \in {"done", "error"}) =>
        LET e == RunToEnd(u, 400)
        IN /\ e.status = s.status
           /\ (s.status = "done" => (e.ost = s.ost /\ e.dst = s.dst /\ e.heap = s.heap /\ e.nops = s.nops))
           /\ (s.status = "error" => e.errs = s.errs)

\* The budget spans the calls: splitting a budgeted program into two calls changes nothing,
\* in particular not the operation at which the budget strikes nor the final count.
BudgetSpansCalls ==
    (Family = "budgetcalls" /\ phase = "run" /\ s.status \in {"done", "error"}) =>
        LET e == RunToEnd(u, 400)
        IN /\ e.status = s.status /\ e.nops = s.nops /\ s.nops <= s.maxops + 1
           /\ (s.status = "done" => (e.ost = s.ost /\ e.dst = s.dst /\ e.heap = s.heap))
           /\ (s.status = "error" => e.errs = s.errs)

\* The budget is transparent: until it strikes, the budgeted run is in the very state of
\* the unbudgeted one; it strikes exactly when the count passes the budget, and the
\* count never passes budget + 1.
BudgetTransparent ==
    (Family = "budget" /\ phase = "run") =>
        /\ (s.status \in {"running", "done"} \/ (s.status = "error" /\ "budget" \notin s.errs))
                => s = [u EXCEPT !.maxops = s.maxops]
        /\ s.nops <= s.maxops + 1
        /\ (s.status = "error" /\ s.errs = {"budget"}) => (s.nops = s.maxops + 1 /\ u.nops >= s.maxops)
        /\ (u.status = "done" /\ u.nops <= s.maxops) => s.status # "error"
Inv == /\ StackBounded(s) /\ DictStackBounded(s) /\ DepthBounded(s) /\ DictStackBase(s)
       /\ s.status = "error" => s.errs # {}
\* exit leaves exactly the innermost enclosing loop: after the step the continuation
\* stack is the part below the innermost loop frame
InnermostLoop(est) == CHOOSE j \in 1..Len(est) : IsLoopFrame(est[j]) /\ \A k \in (j + 1)..Len(est) : ~IsLoopFrame(est[k])
ExitScoping == [][ (phase = "run" /\ s.status = "running" /\ s'.status = "running"
                    /\ Len(s'.est) < Len(s.est) - 1 /\ \E j \in 1..Len(s.est) : IsLoopFrame(s.est[j]))
                   => (\/ s'.est = SubSeq(s.est, 1, InnermostLoop(s.est) - 1)
                       \/ s'.est = <<>>) ]_vars
\* a procedure met while another procedure is running is pushed: a step that pushes a
\* proc frame is never caused by a procedure object fetched from a body
\* (Exec pushes it instead); expressed on the operand stack:
ProcLiteralDeferred ==
    [][ (phase = "run" /\ s.status = "running" /\ s.est # <<>> /\ s.est[Len(s.est)].k = "proc"
         /\ VGet(s.heap, s.est[Len(s.est)].p, s.est[Len(s.est)].pc).t = "proc")
        => (s'.status # "running" \/ (s'.ost = Append(s.ost, VGet(s.heap, s.est[Len(s.est)].p, s.est[Len(s.est)].pc))
                                   /\ ProcDepth(s'.est) <= ProcDepth(s.est))) ]_vars
\* stop ends the run without error
StopIsSuccess == [][ (phase = "run" /\ s.status = "running" /\ s'.status = "error") =>
                       ~(s.est # <<>> /\ s.est[Len(s.est)].k = "proc"
                         /\ VGet(s.heap, s.est[Len(s.est)].p, s.est[Len(s.est)].pc).t = "xname"
                         /\ VGet(s.heap, s.est[Len(s.est)].p, s.est[Len(s.est)].pc).s = "stop"
                         /\ Where(s.heap, s.dst, "stop") = SysId
                         /\ Len(s.ost) <= MaxOpStack) ]_vars
=============================================================================
