----------------------------- MODULE EexecTest -----------------------------
(***************************************************************************)
(* Checks on the cipher itself, and reference vectors for the harness's    *)
(* independent implementation (vh selftest-eexec).                         *)
(*  Mode "identity": for EVERY cipher state r and byte value, decryption   *)
(*  inverts encryption and the state transition of both directions agrees  *)
(*  (2^24 pairs), and encryption is a bijection on bytes for every state.  *)
(*  Mode "vectors": Encrypt / Decrypt of sample sequences are emitted.     *)
(***************************************************************************)
EXTENDS Eexec, TLC, Json, CSV
CONSTANTS Mode, OutFile, RLo, RHi

VARIABLE r
Init == r \in RLo..RHi
Next == UNCHANGED r

Identity == Mode = "identity" =>
    /\ \A p \in 0..255 : LET c == EncByte(r, p) IN DecByte(r, c) = p /\ c \in 0..255
    /\ \A c \in 0..255 : NextR(r, c) \in 0..65535
    \* the multiplication by partial products is the multiplication mod 2^16 (checked where it fits natively)
    /\ (r < 40000 => MulC1(r) = (r * C1) % 65536)

Samples == << <<0, 0, 0, 0>>, <<1, 2, 3, 4, 5, 6, 7, 8>>, <<255, 254, 0, 128, 37, 10, 13>>,
              [j \in 1..64 |-> (j * 37) % 256], [j \in 1..90 |-> (j * j + r) % 256] >>
\* (bound variables hold values: binding the cipher text once keeps TLC from re-evaluating
\* Encrypt at every level of the recursions below)
Vectors == (Mode = "vectors") =>
    \A k \in 1..Len(Samples) : \A ct \in {Encrypt(r, Samples[k])} :
        CSVWrite("%1$s", <<ToJson([r0 |-> r, plain |-> Samples[k], cipher |-> ct,
                                   back |-> Decrypt(r, ct), rafter |-> StateAfter(ct, 1, r)])>>, OutFile)
=============================================================================
