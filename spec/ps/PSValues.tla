------------------------------ MODULE PSValues ------------------------------
(***************************************************************************)
(* The value universe of the PostScript machine model and its heap.        *)
(*                                                                         *)
(* Simple values are records tagged by field t.  Composite values are      *)
(* *views* (id, off, len) onto heap cells, which is what makes reference   *)
(* semantics, getinterval / copy aliasing, self-referential arrays and     *)
(* procedures stored in themselves expressible.  Cells are sparse with a   *)
(* default element so that 65536-element containers cost nothing.          *)
(*                                                                         *)
(* Every record type uses its own payload field name, so that TLC never    *)
(* has to compare payloads of different types.                             *)
(***************************************************************************)
EXTENDS Dyadic, FiniteSets, TLC

IntV(b)   == [t |-> "int", i |-> b]
RealV(d)  == [t |-> "real", r |-> d]
BoolV(b)  == [t |-> "bool", b |-> b]
NameV(s)  == [t |-> "name", s |-> s]
XNameV(s) == [t |-> "xname", s |-> s]
OpV(s)    == [t |-> "op", s |-> s]
MarkV     == [t |-> "mark"]
NilV      == [t |-> "nil"]          \* the currentfile object (the library's Go nil)
StrV(id, off, len)  == [t |-> "str", id |-> id, off |-> off, len |-> len]
ArrV(id, off, len)  == [t |-> "arr", id |-> id, off |-> off, len |-> len]
ProcV(id, off, len) == [t |-> "proc", id |-> id, off |-> off, len |-> len]
DictV(id) == [t |-> "dict", id |-> id]
\* the value left by `maxlength`: any integer >= i (MaxlengthAnyGE)
AnyGE(n)  == [t |-> "anyge", n |-> n]

IntN(n) == IntV(BI(n))

IsNum(v)  == v.t = "int" \/ v.t = "real"
IsView(v) == v.t = "str" \/ v.t = "arr" \/ v.t = "proc"
ToReal(v) == IF v.t = "int" THEN DOfInt(v.i) ELSE v.r

(***************************************************************************)
(* Heap: cells addressed by id 1..n.                                       *)
(*   [k |-> "str",  n, d, m]   bytes 0..255, default d                     *)
(*   [k |-> "arr",  n, d, m]   values, default d                           *)
(*   [k |-> "dict", m]         m : name string -> value                    *)
(* m is a function on a subset of 0..n-1 (resp. of names).                 *)
(***************************************************************************)
EmptyFn == [x \in {} |-> 0]
StrCell(n) == [k |-> "str", n |-> n, d |-> 0, m |-> EmptyFn]
ArrCell(n) == [k |-> "arr", n |-> n, d |-> NilV, m |-> EmptyFn]
DictCell   == [k |-> "dict", m |-> EmptyFn]
SeqFn(s)   == [j \in 0..(Len(s) - 1) |-> s[j + 1]]
StrCellOf(bytes) == [k |-> "str", n |-> Len(bytes), d |-> 0, m |-> SeqFn(bytes)]
ArrCellOf(vals)  == [k |-> "arr", n |-> Len(vals), d |-> NilV, m |-> SeqFn(vals)]

\* The heap of a state is an overlay [n, c] over the constant BaseHeap (the cells
\* every state of a configuration starts with): n = number of cells, c = the cells
\* that were created or modified.  This keeps TLC's states small.
CONSTANT BaseHeap
EmptyHeap == [n |-> Len(BaseHeap), c |-> EmptyFn]
Cell(h, id) == IF id \in DOMAIN h.c THEN h.c[id] ELSE BaseHeap[id]
SetCell(h, id, cell) == [h EXCEPT !.c = (id :> cell) @@ @]

CellGet(c, j) == IF j \in DOMAIN c.m THEN c.m[j] ELSE c.d
CellPut(c, j, x) == [c EXCEPT !.m = (j :> x) @@ @]
VGet(h, v, j) == CellGet(Cell(h, v.id), v.off + j)
VPut(h, v, j, x) == SetCell(h, v.id, CellPut(Cell(h, v.id), v.off + j, x))
\* the elements of a view as a sequence (only used for short views)
VSeq(h, v) == [j \in 1..v.len |-> VGet(h, v, j - 1)]
\* write a sequence of elements into a view starting at index j0
RECURSIVE VPutSeq(_, _, _, _)
VPutSeq(h, v, j0, s) == IF s = <<>> THEN h
                        ELSE VPutSeq(VPut(h, v, j0, Head(s)), v, j0 + 1, Tail(s))

DHas(h, d, key) == key \in DOMAIN Cell(h, d.id).m
DGet(h, d, key) == Cell(h, d.id).m[key]
DPut(h, d, key, x) == SetCell(h, d.id, [Cell(h, d.id) EXCEPT !.m = (key :> x) @@ @])
DLen(h, d) == Cardinality(DOMAIN Cell(h, d.id).m)
DKeys(h, d) == DOMAIN Cell(h, d.id).m

\* allocation: the new cell gets id Len(h) + 1
Alloc(h, cell) == [n |-> h.n + 1, c |-> ((h.n + 1) :> cell) @@ h.c]
NewId(h) == h.n + 1

\* byte strings as TLA+ sequences of 0..255; equality of two string views by content
StrBytes(h, v) == VSeq(h, v)

=============================================================================
