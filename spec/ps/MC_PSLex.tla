------------------------------ MODULE MC_PSLex ------------------------------
(***************************************************************************)
(* Generating configurations for the tokenizer (C04).                      *)
(*  Family "bytes": every byte string up to MaxLen over an alphabet of     *)
(*    representative bytes (each white-space byte, each delimiter, the     *)
(*    escape, digit / letter classes that matter for numbers, escapes,     *)
(*    hex and ASCII85, a high byte); expected = Lex(string).               *)
(*  Family "spell": sequences of objects, each in one of its legal         *)
(*    spellings, joined by legal separators; expected = the objects.       *)
(*    The specification's own round trip Lex(Join(..)) = objects is an     *)
(*    invariant checked by TLC before any code is involved.                *)
(*  Family "dsc": DSC comment layouts.                                     *)
(*  Family "strbody": every literal string ( body ) with a body up to      *)
(*    MaxLen over the bytes that drive the string scanner's state: CR, LF, *)
(*    backslash, parentheses, an octal and a non-octal digit, n, a letter. *)
(*  Families "hexbody", "a85body": the same for < body > and <~ body ~>.   *)
(***************************************************************************)
EXTENDS PSLex, Json, CSV

CONSTANTS Family, MaxLen, Tier, OutFile

AlphaQ == {32, 10, 13, 0, 12, 40, 41, 60, 62, 91, 123, 125, 47, 37, 92, 48, 55, 56, 97, 102, 110, 122,
           117, 33, 126, 101, 35, 43, 45, 46, 120, 200}
AlphaT == AlphaQ \cup {9, 93, 57, 69, 112, 49, 50}
Alpha == IF Tier = "quick" THEN AlphaQ ELSE AlphaT

\* ---- spelled objects: [obj, sp] with sp one legal spelling (byte sequence)
IntTok(n) == [t |-> "int", i |-> n]
S(str) == str   \* spellings are written as byte tuples below
\* helper to write ASCII text as bytes
D(n) == 48 + n
Spelled == {
  \* integers
  [o |-> IntTok(BI(0)), sp |-> <<48>>], [o |-> IntTok(BI(0)), sp |-> <<43, 48>>], [o |-> IntTok(BI(0)), sp |-> <<45, 48>>],
  [o |-> IntTok(BI(0)), sp |-> <<48, 48>>], [o |-> IntTok(BI(0)), sp |-> <<56, 35, 48>>],
  [o |-> IntTok(BI(255)), sp |-> <<50, 53, 53>>], [o |-> IntTok(BI(255)), sp |-> <<49, 54, 35, 70, 70>>],
  [o |-> IntTok(BI(255)), sp |-> <<49, 54, 35, 102, 102>>], [o |-> IntTok(BI(255)), sp |-> <<56, 35, 51, 55, 55>>],
  [o |-> IntTok(BI(255)), sp |-> <<50, 35, 49, 49, 49, 49, 49, 49, 49, 49>>], [o |-> IntTok(BI(255)), sp |-> <<51, 54, 35, 55, 51>>],
  [o |-> IntTok(BI(35)), sp |-> <<51, 54, 35, 122>>], [o |-> IntTok(BI(35)), sp |-> <<51, 54, 35, 90>>],
  [o |-> IntTok(BI(-17)), sp |-> <<45, 49, 55>>], [o |-> IntTok(BI(17)), sp |-> <<43, 49, 55>>],
  [o |-> IntTok(MaxInt64), sp |-> <<57,50,50,51,51,55,50,48,51,54,56,53,52,55,55,53,56,48,55>>],
  [o |-> IntTok(MinInt64), sp |-> <<45,57,50,50,51,51,55,50,48,51,54,56,53,52,55,55,53,56,48,56>>],
  [o |-> IntTok(MaxInt64), sp |-> <<49,54,35,55,70,70,70,70,70,70,70,70,70,70,70,70,70,70,70>>],
  \* integer too large: converted to a real
  [o |-> [t |-> "real", sg |-> 1, d |-> TwoPow(63), e10 |-> 0], sp |-> <<57,50,50,51,51,55,50,48,51,54,56,53,52,55,55,53,56,48,56>>],
  \* reals
  [o |-> [t |-> "real", sg |-> 1, d |-> BI(5), e10 |-> -1], sp |-> <<48, 46, 53>>],
  [o |-> [t |-> "real", sg |-> 1, d |-> BI(5), e10 |-> -1], sp |-> <<46, 53>>],
  [o |-> [t |-> "real", sg |-> 1, d |-> BI(5), e10 |-> -1], sp |-> <<43, 46, 53>>],
  [o |-> [t |-> "real", sg |-> 1, d |-> BI(5), e10 |-> -1], sp |-> <<53, 101, 45, 49>>],
  [o |-> [t |-> "real", sg |-> 1, d |-> BI(5), e10 |-> -1], sp |-> <<53, 69, 45, 49>>],
  [o |-> [t |-> "real", sg |-> 1, d |-> BI(5), e10 |-> -1], sp |-> <<53, 48, 46, 101, 45, 50>>],
  [o |-> [t |-> "real", sg |-> -1, d |-> BI(1), e10 |-> 0], sp |-> <<45, 49, 46>>],
  [o |-> [t |-> "real", sg |-> -1, d |-> BI(1), e10 |-> 0], sp |-> <<45, 49, 46, 48>>],
  [o |-> [t |-> "real", sg |-> -1, d |-> BI(1), e10 |-> 0], sp |-> <<45, 49, 101, 48>>],
  [o |-> [t |-> "real", sg |-> 1, d |-> BI(1236), e10 |-> 9], sp |-> <<49, 50, 51, 46, 54, 101, 49, 48>>],
  [o |-> [t |-> "real", sg |-> 1, d |-> BI(1), e10 |-> 6], sp |-> <<49, 69, 54>>],
  [o |-> [t |-> "real", sg |-> 1, d |-> BI(1), e10 |-> 6], sp |-> <<49, 69, 43, 54>>],
  [o |-> [t |-> "real", sg |-> -1, d |-> BI(2), e10 |-> -3], sp |-> <<45, 46, 48, 48, 50>>],
  \* names that look like numbers but are not
  [o |-> [t |-> "x", b |-> <<46>>], sp |-> <<46>>], [o |-> [t |-> "x", b |-> <<43>>], sp |-> <<43>>],
  [o |-> [t |-> "x", b |-> <<45, 45, 49>>], sp |-> <<45, 45, 49>>], [o |-> [t |-> "x", b |-> <<49, 101>>], sp |-> <<49, 101>>],
  [o |-> [t |-> "x", b |-> <<101, 49>>], sp |-> <<101, 49>>], [o |-> [t |-> "x", b |-> <<49, 46, 50, 46, 51>>], sp |-> <<49, 46, 50, 46, 51>>],
  [o |-> [t |-> "x", b |-> <<49, 35, 48>>], sp |-> <<49, 35, 48>>], [o |-> [t |-> "x", b |-> <<51, 55, 35, 49>>], sp |-> <<51, 55, 35, 49>>],
  [o |-> [t |-> "x", b |-> <<50, 35, 50>>], sp |-> <<50, 35, 50>>], [o |-> [t |-> "x", b |-> <<49, 69, 43>>], sp |-> <<49, 69, 43>>],
  [o |-> [t |-> "x", b |-> <<48, 120, 49, 112, 49>>], sp |-> <<48, 120, 49, 112, 49>>],          \* 0x1p1
  [o |-> [t |-> "x", b |-> <<48, 88, 49, 80, 45, 50>>], sp |-> <<48, 88, 49, 80, 45, 50>>],      \* 0X1P-2
  [o |-> [t |-> "x", b |-> <<105, 110, 102>>], sp |-> <<105, 110, 102>>],                        \* inf
  [o |-> [t |-> "x", b |-> <<78, 97, 78>>], sp |-> <<78, 97, 78>>],                              \* NaN
  [o |-> [t |-> "x", b |-> <<49, 95, 48>>], sp |-> <<49, 95, 48>>],                              \* 1_0
  \* names
  [o |-> [t |-> "x", b |-> <<97, 100, 100>>], sp |-> <<97, 100, 100>>],
  [o |-> [t |-> "name", b |-> <<97>>], sp |-> <<47, 97>>], [o |-> [t |-> "name", b |-> <<>>], sp |-> <<47>>],
  [o |-> [t |-> "name", b |-> <<49, 50>>], sp |-> <<47, 49, 50>>],
  [o |-> [t |-> "name", b |-> <<36, 64, 42, 33, 38, 126>>], sp |-> <<47, 36, 64, 42, 33, 38, 126>>],
  [o |-> [t |-> "x", b |-> <<91>>], sp |-> <<91>>], [o |-> [t |-> "x", b |-> <<93>>], sp |-> <<93>>],
  [o |-> [t |-> "x", b |-> <<60, 60>>], sp |-> <<60, 60>>], [o |-> [t |-> "x", b |-> <<62, 62>>], sp |-> <<62, 62>>],
  \* strings
  [o |-> [t |-> "str", b |-> <<>>], sp |-> <<40, 41>>], [o |-> [t |-> "str", b |-> <<>>], sp |-> <<60, 62>>],
  [o |-> [t |-> "str", b |-> <<>>], sp |-> <<60, 126, 126, 62>>],
  [o |-> [t |-> "str", b |-> <<97, 98>>], sp |-> <<40, 97, 98, 41>>], [o |-> [t |-> "str", b |-> <<97, 98>>], sp |-> <<60, 54, 49, 54, 50, 62>>],
  [o |-> [t |-> "str", b |-> <<97, 98>>], sp |-> <<60, 32, 54, 10, 49, 54, 9, 50, 32, 62>>],
  [o |-> [t |-> "str", b |-> <<97, 98>>], sp |-> <<40, 92, 49, 52, 49, 92, 49, 52, 50, 41>>],
  [o |-> [t |-> "str", b |-> <<97, 98>>], sp |-> <<40, 97, 92, 10, 98, 41>>], [o |-> [t |-> "str", b |-> <<97, 98>>], sp |-> <<40, 97, 92, 13, 10, 98, 41>>],
  [o |-> [t |-> "str", b |-> <<97, 96>>], sp |-> <<60, 54, 49, 54, 62>>],
  [o |-> [t |-> "str", b |-> <<40, 41>>], sp |-> <<40, 40, 41, 41>>], [o |-> [t |-> "str", b |-> <<40, 41>>], sp |-> <<40, 92, 40, 92, 41, 41>>],
  [o |-> [t |-> "str", b |-> <<41, 40>>], sp |-> <<40, 92, 41, 92, 40, 41>>],
  [o |-> [t |-> "str", b |-> <<10, 13, 9, 8, 12, 92>>], sp |-> <<40, 92, 110, 92, 114, 92, 116, 92, 98, 92, 102, 92, 92, 41>>],
  [o |-> [t |-> "str", b |-> <<10, 10, 10>>], sp |-> <<40, 13, 10, 13, 10, 10, 41>>],
  [o |-> [t |-> "str", b |-> <<7, 56>>], sp |-> <<40, 92, 55, 56, 41>>], [o |-> [t |-> "str", b |-> <<255, 0>>], sp |-> <<40, 92, 51, 55, 55, 92, 48, 48, 48, 41>>],
  [o |-> [t |-> "str", b |-> <<121>>], sp |-> <<40, 92, 121, 41>>], [o |-> [t |-> "str", b |-> <<37, 47, 123>>], sp |-> <<40, 37, 47, 123, 41>>],
  [o |-> [t |-> "str", b |-> <<0, 0, 0, 0>>], sp |-> <<60, 126, 122, 126, 62>>],
  [o |-> [t |-> "str", b |-> <<0, 0, 0, 0>>], sp |-> <<60, 126, 33, 33, 33, 33, 33, 126, 62>>],
  [o |-> [t |-> "str", b |-> <<77, 97, 110, 32>>], sp |-> <<60, 126, 57, 106, 113, 111, 94, 126, 62>>],       \* "Man " = 9jqo^
  [o |-> [t |-> "str", b |-> <<77, 97, 110>>], sp |-> <<60, 126, 57, 106, 113, 111, 126, 62>>],               \* "Man" = 9jqo
  [o |-> [t |-> "str", b |-> <<77, 97>>], sp |-> <<60, 126, 57, 106, 110, 126, 62>>],                          \* "Ma" = 9jn
  [o |-> [t |-> "str", b |-> <<77>>], sp |-> <<60, 126, 57, 96, 126, 62>>],                                    \* "M" = 9`
  [o |-> [t |-> "str", b |-> <<77, 97, 110, 32>>], sp |-> <<60, 126, 57, 32, 106, 10, 113, 111, 94, 32, 126, 62>>],
  [o |-> [t |-> "lbrace"], sp |-> <<123>>], [o |-> [t |-> "rbrace"], sp |-> <<125>>]
}
Seps == {<<32>>, <<9>>, <<10>>, <<13>>, <<13, 10>>, <<12>>, <<0>>, <<32, 32, 10>>, <<37, 99, 10>>, <<32, 37, 32, 41, 40, 13>>,
         <<37, 13, 10>>, <<37, 99, 12>>, <<37, 12>>, <<>>}        \* a comment may also end at a form feed
LastB(sp) == sp[Len(sp)]
\* may two spellings touch without a separator?
MayTouch(a, b) == LastB(a) \in {41, 62, 93, 125} \/ (b[1] \in Delims /\ ~(LastB(a) = 60 /\ b[1] = 60)
                                                       /\ ~(LastB(a) = 62 /\ b[1] = 62) /\ ~(LastB(a) = 47 /\ b[1] = 47))
                  \* "[" "{" end a token by themselves as well
                  \/ (LastB(a) \in {91, 123} /\ Len(a) = 1)
SepOK(a, sep, b) == sep # <<>> \/ (MayTouch(a, b) /\ ~(a = <<47>>) /\ ~(LastB(a) = 60 /\ Len(a) = 1))
\* a literal name spelled "/" alone, or "<" tokens, must not be glued to a following regular character
NeedsGap(a, b) == (a[1] = 47 /\ IsRegular(b[1])) \/ (IsRegular(LastB(a)) /\ IsRegular(b[1]))

DscTexts == {
  <<37,37,84,58,32,97,98,10>>,                                   \* %%T: ab
  <<37,37,84,58,97,98,13,10>>,                                   \* %%T:ab CRLF
  <<37,37,84,32,97,32,98,13>>,                                   \* %%T a b  CR
  <<37,37,84,10>>, <<37,37,84,58,10>>, <<37,37,58,120,10>>,       \* no value; empty value; empty key
  <<37,37,84,58,32,97,10,37,37,43,32,98,10>>,                    \* continuation
  <<37,37,84,58,32,97,13,10,37,37,43,98,13,10,37,37,43,32,32,99,10>>,
  <<37,33,80,83,10,37,37,84,58,32,97,10,37,37,69,79,70,10>>,      \* %!PS / %%T: a / %%EOF
  <<49,32,37,37,84,58,32,97,10,50>>,                              \* not at line start: plain comment
  <<49,10,37,37,84,58,32,97,10,50>>,                              \* between tokens
  <<37,32,99,10,37,37,84,58,32,97,10>>,                           \* after a comment
  <<40,120,10,41,37,37,84,58,32,97,10>>,                          \* after a string that contains a line end: column is not 0
  <<32,37,37,84,58,32,97,10>>,                                    \* preceded by a blank
  <<37,37,84,58,32,40,97,41,32,123,10,49>>,                       \* delimiters inside the value
  <<37,37,84,58,32,97,10,37,37,85,58,32,98,10>>,                  \* two comments in order
  <<37,37,84,13,49,32,50,13>>,                                    \* no value, bare CR, then code on the next line
  <<37,37,84,58,13,13,49,32,50,13>>,                              \* empty value, CR, blank line, code
  <<37,37,84,58,32,13,49,10>>,                                    \* blank value, CR, code
  <<37,37,84,13,10,49,32,50,13,10>>,                              \* no value, CR LF, code
  <<37,37,84,58,9,97,13,37,37,85,13,51,13>>,                      \* tab before the value; second comment without value
  <<37,33,80,83,13,47,97,32,49,50,32,37,32,99,10,37,37,84,58,32,97,10,37,37,85,58,32,98,10>>,  \* %!PS CR /a 12 % c LF %%T: a LF %%U: b LF
  <<49,13,50,32,51,10,37,37,84,58,32,97,10>>,                     \* 1 CR 2 3 LF %%T: a   (a bare CR, later an LF, then a comment at column 0)
  <<49,13,10,50,13,51,10,37,37,84,58,32,97,13>>,                  \* mixed line ends before the comment
  <<37,37,12,43,49,10>>, <<37,37,32,120,12,47,97,10>>,            \* %% without a key is a plain comment: it ends at a form feed
  <<37,37,84,58,32,97,12,98,10,49>>                               \* a form feed inside a DSC value belongs to the value
}

VARIABLES str,     \* family bytes: the string; other families: the joined text
          objs,    \* family spell: expected objects
          n, phase
vars == <<str, objs, n, phase>>

Init == str = <<>> /\ objs = <<>> /\ n = 0 /\ phase = "pick"

GrowBytes == /\ Family = "bytes" /\ Len(str) < MaxLen
             /\ \E c \in Alpha : str' = Append(str, c)
             /\ UNCHANGED <<objs, n, phase>>
GrowSpell == /\ Family = "spell" /\ n < MaxLen
             /\ \E x \in Spelled, sep \in Seps :
                   /\ (n = 0 => sep = <<>>)
                   /\ (n > 0 => (SepOK(str, sep, x.sp) /\ (sep = <<>> => ~NeedsGap(str, x.sp))))
                   /\ ~(n > 0 /\ sep = <<>> /\ FALSE)
                   /\ str' = str \o sep \o x.sp
                   /\ objs' = Append(objs, x.o)
             /\ n' = n + 1 /\ UNCHANGED phase
\* simulation mode: one random successor per step (TLC evaluates invariants on every
\* generated successor, so the choice is made inside the action)
GrowSpellSim ==
    /\ Family = "spellsim" /\ n < MaxLen
    /\ \E x \in {RandomElement(Spelled)}, sep0 \in {RandomElement(Seps)} :
          LET sep == IF n = 0 THEN <<>>
                     ELSE IF SepOK(str, sep0, x.sp) /\ (sep0 = <<>> => ~NeedsGap(str, x.sp)) THEN sep0 ELSE <<32>>
          IN /\ str' = str \o sep \o x.sp
             /\ objs' = Append(objs, x.o)
    /\ n' = n + 1 /\ UNCHANGED phase
BodyFamilies == {"strbody", "hexbody", "a85body"}
BodyAlpha == CASE Family = "strbody" -> {13, 10, 92, 40, 41, 49, 56, 110, 97}
               [] Family = "hexbody" -> {48, 57, 97, 70, 102, 32, 10, 0, 103, 60}         \* 0 9 a F f SP LF NUL g <
               [] Family = "a85body" -> {33, 117, 122, 57, 32, 10, 118, 115}              \* ! u z 9 SP LF v s
               [] OTHER -> {}
GrowStrBody == /\ Family \in BodyFamilies /\ Len(str) < MaxLen
               /\ \E c \in BodyAlpha : str' = Append(str, c)
               /\ UNCHANGED <<objs, n, phase>>
PickDsc == /\ Family = "dsc" /\ phase = "pick"
           /\ \E t \in DscTexts : str' = t
           /\ phase' = "done" /\ UNCHANGED <<objs, n>>
Next == GrowBytes \/ GrowSpell \/ GrowSpellSim \/ PickDsc \/ GrowStrBody

\* token equality: reals by value (d1 * 10^e1 = d2 * 10^e2), everything else structurally
RECURSIVE Pow10(_)
Pow10(k) == IF k = 0 THEN One ELSE Mul(BI(10), Pow10(k - 1))
MinI(a, b) == IF a < b THEN a ELSE b
TokEq(a, b) == IF a.t # b.t THEN FALSE
               ELSE IF a.t = "real" THEN
                    LET m == MinI(a.e10, b.e10)
                    IN (a.sg = b.sg \/ (a.d = Zero /\ b.d = Zero))
                       /\ Mul(a.d, Pow10(a.e10 - m)) = Mul(b.d, Pow10(b.e10 - m))
               ELSE a = b
SeqEq(x, y) == Len(x) = Len(y) /\ \A j \in 1..Len(x) : TokEq(x[j], y[j])
\* the specification's own round trip: spelled objects read back as themselves
SpecRoundTrip == (Family \in {"spell", "spellsim"} /\ n > 0) =>
                    LET r == Lex(str) IN r.ok /\ SeqEq(r.toks, objs) /\ r.dsc = <<>>

Text == CASE Family = "strbody" -> <<40>> \o str \o <<41>>
          [] Family = "hexbody" -> <<60>> \o str \o <<62>>
          [] Family = "a85body" -> <<60, 126>> \o str \o <<126, 62>>
          [] OTHER -> str
Res == Lex(Text)
Vector == [inp |-> Text, ok |-> Res.ok, open |-> Res.open, toks |-> (IF Family \in {"spell", "spellsim"} THEN objs ELSE Res.toks),
           dsc |-> Res.dsc, bal |-> Balanced(IF Family \in {"spell", "spellsim"} THEN objs ELSE Res.toks), fam |-> Family]
Emit == (str # <<>>) => CSVWrite("%1$s", <<ToJson(Vector)>>, OutFile)
=============================================================================
