-------------------------------- MODULE PFB --------------------------------
(***************************************************************************)
(* Contract of a PFB decoder (C14).                                        *)
(*                                                                         *)
(* A PFB stream is a sequence of segments.  Every segment starts with a    *)
(* six byte header: 0x80, the type (1 = text, 2 = binary), the payload     *)
(* length as four bytes, little endian; the payload follows.  The stream   *)
(* ends with the two bytes 0x80 0x03 (anything after them is ignored) or,  *)
(* without that marker, at the end of input after a complete segment.      *)
(*                                                                         *)
(* What a decoder must deliver is PfbDecode(segs): text payloads verbatim, *)
(* binary payloads as lower-case hexadecimal, in order.                    *)
(*                                                                         *)
(* The read contract is PfbReadOK.  For a well-formed stream each          *)
(* Read(p) returns exactly n = min(|p|, remaining) bytes (a Read with an   *)
(* empty buffer returns nothing and changes nothing),                      *)
(* the next bytes of the content: the caller's buffer is always filled     *)
(* unless the stream ends.  End of file is reported together with the last *)
(* bytes or by a later call (io.Reader allows both) and never earlier.     *)
(* A header with a wrong marker byte or an unknown type gives the          *)
(* invalid-PFB error; a binary segment shorter than its declared length    *)
(* gives an error (a real one, not end-of-file).  For such streams the     *)
(* property promises only the error, so the contract demands only: bytes   *)
(* delivered before it are content of the stream, in order, and no other   *)
(* error class appears.                                                    *)
(*                                                                         *)
(* Two descriptions of a stream are given and checked against each other   *)
(* (MC_PFB!ParseAgrees): the generator's view PfbEncode(S) for an abstract *)
(* stream S, and the reader's view PfbParse(bytes) for arbitrary bytes.    *)
(***************************************************************************)
EXTENDS Integers, Sequences

PfbMin(a, b) == IF a <= b THEN a ELSE b

\* ---------------------------------------------------------------- content
PfbHexDigit(v) == IF v < 10 THEN 48 + v ELSE 87 + v          \* "0".."9", "a".."f"
PfbHex(d) == [i \in 1..2 * Len(d) |->
                 PfbHexDigit(IF i % 2 = 1 THEN d[(i + 1) \div 2] \div 16 ELSE d[i \div 2] % 16)]
PfbSegOut(ty, d) == IF ty = 1 THEN d ELSE PfbHex(d)

RECURSIVE PfbDecode(_)
PfbDecode(segs) == IF segs = <<>> THEN <<>>
                   ELSE PfbSegOut(Head(segs).ty, Head(segs).data) \o PfbDecode(Tail(segs))

\* ------------------------------------------------- abstract streams, framing
\* S = [segs |-> sequence of [ty, data], tail |-> [k, h, g, x]]
\*   k = "eof"    : input ends after the last segment
\*   k = "marker" : 0x80 0x03 follows, then the bytes g (trailing garbage)
\*   k = "bad"    : a complete header with the two bytes h (wrong marker or unknown type) and g (>= 4 bytes) follows
\*   k = "short"  : the last segment is binary and declares x >= 1 bytes more than the input has
PfbTailEof == [k |-> "eof", h |-> <<>>, g |-> <<>>, x |-> 0]
PfbTailMarker(g) == [k |-> "marker", h |-> <<>>, g |-> g, x |-> 0]
PfbTailBad(h, g) == [k |-> "bad", h |-> h, g |-> g, x |-> 0]
PfbTailShort(x) == [k |-> "short", h |-> <<>>, g |-> <<>>, x |-> x]

PfbBadHeader(b0, b1) == b0 # 128 \/ b1 \notin 1..3
PfbIsStream(S) ==
    /\ \A i \in 1..Len(S.segs) : S.segs[i].ty \in 1..2
    /\ S.tail.k \in {"eof", "marker", "bad", "short"}
    /\ S.tail.k = "bad" => (Len(S.tail.h) = 2 /\ PfbBadHeader(S.tail.h[1], S.tail.h[2]) /\ Len(S.tail.g) >= 4)
    /\ S.tail.k = "short" => (S.segs # <<>> /\ S.segs[Len(S.segs)].ty = 2 /\ S.tail.x >= 1)

PfbLE32(n) == <<n % 256, (n \div 256) % 256, (n \div 65536) % 256, (n \div 16777216) % 256>>   \* n < 2^31
PfbHeader(ty, n) == <<128, ty>> \o PfbLE32(n)

RECURSIVE PfbEncodeSegs(_, _)
PfbEncodeSegs(segs, xlast) ==          \* xlast: bytes the last header declares beyond its payload
    IF segs = <<>> THEN <<>>
    ELSE LET s == Head(segs)
             decl == Len(s.data) + (IF Len(segs) = 1 THEN xlast ELSE 0)
         IN PfbHeader(s.ty, decl) \o s.data \o PfbEncodeSegs(Tail(segs), xlast)
PfbEncode(S) == PfbEncodeSegs(S.segs, S.tail.x)
                \o (CASE S.tail.k = "marker" -> <<128, 3>> \o S.tail.g
                      [] S.tail.k = "bad" -> S.tail.h \o S.tail.g
                      [] OTHER -> <<>>)

\* what the stream contains and how it ends
PfbContent(S) == PfbDecode(S.segs)
PfbTerm(S) == CASE S.tail.k \in {"eof", "marker"} -> "eof"
                [] S.tail.k = "bad" -> "invalid"
                [] S.tail.k = "short" -> "error"

\* ------------------------------------------------------- bounded universes
\* (shared by PFBImpl and MC_PFB) payload bytes by segment position: the nibbles of every byte differ,
\* digits and letters occur, the third payload looks like an end marker
PfbPayloads == << <<26, 178, 60, 77>>, <<212, 94, 246, 9>>, <<128, 3, 159, 160>> >>
PfbMkSegs(f) == [j \in 1..Len(f) |-> [ty |-> f[j][1], data |-> SubSeq(PfbPayloads[j], 1, f[j][2])]]
PfbSegSeqs(maxSegs, maxLen) == {PfbMkSegs(f) : f \in UNION {[1..k -> (1..2) \X (0..maxLen)] : k \in 0..maxSegs}}
\* bytes after the end marker: nothing, something that looks like a segment, zero padding (the four
\* bytes after the marker would be a length if the marker were taken for an ordinary header)
PfbGarbage(rich) == IF rich THEN {<<>>, <<0>>, <<1, 2, 3, 4>>, <<128, 1, 1, 0, 0, 0, 65>>, <<0, 0, 0, 0, 0>>,
                                  <<0, 0, 0, 0, 128, 1, 1, 0, 0, 0, 65>>, <<0, 0, 0>>}
                    ELSE {<<>>, <<128, 1, 1, 0, 0, 0, 65>>, <<0, 0, 0, 0, 0>>}
PfbBadHdrs(rich) == IF rich THEN {<<129, 1>>, <<128, 4>>, <<128, 0>>, <<0, 2>>} ELSE {<<128, 4>>}
\* short: "no" (well-formed and bad-header tails), "yes" (all), "only" (cut-short binary segments only)
PfbTails(segs, rich, short) ==
    (IF short = "only" THEN {}
     ELSE {PfbTailEof} \cup {PfbTailMarker(g) : g \in PfbGarbage(rich)}
          \cup {PfbTailBad(h, <<1, 0, 0, 0, 65>>) : h \in PfbBadHdrs(rich)})
    \cup (IF short # "no" /\ segs # <<>> /\ segs[Len(segs)].ty = 2 THEN {PfbTailShort(x) : x \in 1..2} ELSE {})
PfbStreams(maxSegs, maxLen, rich, short) ==
    UNION {{[segs |-> s, tail |-> t] : t \in PfbTails(s, rich, short)} : s \in PfbSegSeqs(maxSegs, maxLen)}

\* ------------------------------------------------- the reader's view of bytes
\* declared length (four bytes, little endian) against a small number m < 2^24;
\* values of 2^31 and more are never formed (TLC integers are 32 bit)
PfbLenLow(lb) == lb[1] + 256 * lb[2] + 65536 * lb[3]
PfbDeclAtMost(lb, m) == lb[4] = 0 /\ PfbLenLow(lb) <= m

\* [D |-> content, term |-> "eof" | "invalid" | "error" | "open"]; "open": the property is silent
\* (input ends inside a header or inside a text segment)
RECURSIVE PfbParseFrom(_, _)
PfbParseFrom(inp, i) ==
    LET av == Len(inp) - i IN
    IF av = 0 THEN [D |-> <<>>, term |-> "eof"]
    ELSE IF av >= 2 /\ inp[i + 1] = 128 /\ inp[i + 2] = 3 THEN [D |-> <<>>, term |-> "eof"]
    ELSE IF av < 6 THEN [D |-> <<>>, term |-> "open"]
    ELSE IF PfbBadHeader(inp[i + 1], inp[i + 2]) THEN [D |-> <<>>, term |-> "invalid"]
    ELSE LET ty == inp[i + 2]
             lb == SubSeq(inp, i + 3, i + 6)
         IN IF PfbDeclAtMost(lb, av - 6)
            THEN LET m == PfbLenLow(lb)
                     rest == PfbParseFrom(inp, i + 6 + m)
                 IN [D |-> PfbSegOut(ty, SubSeq(inp, i + 7, i + 6 + m)) \o rest.D, term |-> rest.term]
            ELSE [D |-> PfbSegOut(ty, SubSeq(inp, i + 7, Len(inp))),
                  term |-> IF ty = 2 THEN "error" ELSE "open"]
PfbParse(inp) == PfbParseFrom(inp, 0)

\* ------------------------------------------------------------ read contract
PfbErrClasses == {"nil", "eof", "invalid", "error"}
PfbAllowedErr(term) == CASE term = "eof" -> {"nil", "eof"}
                         [] term = "invalid" -> {"nil", "invalid"}
                         [] term = "error" -> {"nil", "error"}
                         [] term = "open" -> {"nil", "eof", "error"}

\* One Read(p), |p| = cap, after pos bytes have been delivered, returned (n, e) and put `out` into p[0..n-1].
PfbReadOK(D, term, pos, cap, n, out, e) ==
    /\ cap >= 0 /\ n \in 0..cap                             \* an empty buffer is a legal argument (io.Reader)
    /\ pos + n <= Len(D)
    /\ out = SubSeq(D, pos + 1, pos + n)                   \* the next bytes of the content and nothing else
    /\ e \in PfbAllowedErr(term)                           \* errors only where and as prescribed
    /\ (e = "nil" /\ cap >= 1) => n >= 1                   \* a call that delivers nothing says why
    /\ term = "eof" =>
          /\ n = PfbMin(cap, Len(D) - pos)                 \* fills the buffer unless the stream ends
          /\ e = "eof" => pos + n = Len(D)                 \* end of file only at the end

\* Which conjunct of PfbReadOK fails first ("ok": none).  Used for reporting only; MC_PFB!ClassAgrees
\* checks that it is "ok" exactly when PfbReadOK holds.
PfbRejectClass(D, term, pos, cap, n, out, e) ==
    IF ~(cap >= 0 /\ n \in 0..cap) THEN "pfb read: count out of range"
    ELSE IF pos + n > Len(D)
         THEN (IF term = "invalid" THEN "pfb header: accepted invalid" ELSE "pfb read: bytes beyond the content")
    ELSE IF out # SubSeq(D, pos + 1, pos + n) THEN "pfb read: wrong bytes"
    ELSE IF e \notin PfbAllowedErr(term)
         THEN (CASE e = "invalid" -> "pfb header: rejected valid"
                 [] e # "invalid" /\ term = "invalid" /\ e = "eof" -> "pfb header: accepted invalid"
                 [] e # "invalid" /\ term = "invalid" /\ e # "eof" -> "pfb header: wrong error class"
                 [] term = "error" /\ e = "eof" -> "pfb short binary: clean EOF"
                 [] OTHER -> "pfb read: unexpected error")
    ELSE IF e = "nil" /\ n = 0 /\ cap >= 1 THEN "pfb read: no progress"
    ELSE IF term = "eof" /\ n # PfbMin(cap, Len(D) - pos) THEN "pfb read: short fill"
    ELSE IF term = "eof" /\ e = "eof" /\ pos + n # Len(D) THEN "pfb read: early EOF"
    ELSE "ok"

\* As a state machine.  The stream (D, term) is a parameter supplied by the using module.
VARIABLES pos,     \* bytes delivered so far
          req,     \* size of the buffer of the call in progress, 0 between calls
          fin      \* "no", or the terminal class that has been returned
pfbVars == <<pos, req, fin>>

PfbInit == pos = 0 /\ req = 0 /\ fin = "no"
PfbCall(c) == /\ fin = "no" /\ req = 0 /\ c >= 1
              /\ req' = c /\ UNCHANGED <<pos, fin>>
PfbReturn(D, term, n, out, e) ==
              /\ fin = "no" /\ req >= 1
              /\ PfbReadOK(D, term, pos, req, n, out, e)
              /\ pos' = pos + n /\ req' = 0
              /\ fin' = IF e = "nil" THEN "no" ELSE e
\* call and return in one step (trace validation: one event per Read)
PfbRead(D, term, c, n, out, e) ==
              /\ fin = "no" /\ req = 0
              /\ PfbReadOK(D, term, pos, c, n, out, e)
              /\ pos' = pos + n /\ req' = 0
              /\ fin' = IF e = "nil" THEN "no" ELSE e
\* nothing is specified after a terminal result has been returned
=============================================================================
