------------------------------ MODULE MC_PFB ------------------------------
(***************************************************************************)
(* Generating configurations for the PFB contract (C14).  Every emitted    *)
(* vector is a stimulus (input bytes, sequence of caller buffer sizes,     *)
(* script of the underlying reader: chunk sizes used cyclically and        *)
(* whether end of file comes with the last bytes) together with what the   *)
(* contract prescribes (content D, terminal class term).  The walk itself  *)
(* is a behaviour of the contract (every step is PfbRead), so TLC also     *)
(* shows that the contract admits a behaviour for every stimulus.          *)
(*                                                                         *)
(*  Family "exh": all streams within MaxSegs / MaxLen (payload bytes from  *)
(*    PfbPayloads), all tails, all sequences of buffer sizes 1..MaxCap up  *)
(*    to the first call that cannot be filled, a set of reader scripts.    *)
(*  Family "sim" (-simulate): one random stream per behaviour, segment     *)
(*    lengths up to 2000, buffer sizes 1..64, random script; one successor *)
(*    per step.                                                            *)
(*  Family "hdr": all 65536 values of the first two bytes x length fields  *)
(*    0, 1, 2^31-1, 2^32-1 with a short payload; the expectation is        *)
(*    PfbParse of the bytes.                                               *)
(***************************************************************************)
EXTENDS PFB, TLC, Json, CSV

CONSTANTS Family, MaxSegs, MaxLen, MaxCap, Rich, WithShort, OutFile,
          ZeroReads     \* TRUE: buffer-size sequences may contain one call with an empty buffer (not the first)

VARIABLES phase,    \* "segs", "tail", "env", "run", "done"
          strm,     \* abstract stream under construction: [segs, tail]
          cx,       \* the stimulus and expectation once fixed: [inp, D, term]
          env,      \* [chunks, eofwd]
          caps      \* buffer sizes used so far
vars == <<phase, strm, cx, env, caps, pos, req, fin>>

NoCx == [inp |-> <<>>, D |-> <<>>, term |-> "eof"]
NoEnv == [chunks |-> <<1>>, eofwd |-> FALSE]
Init == /\ PfbInit
        /\ phase = (CASE Family = "exh" -> "segs" [] Family = "sim" -> "pick" [] Family = "hdr" -> "b0" [] Family = "big" -> "big")
        /\ strm = [segs |-> <<>>, tail |-> PfbTailEof]
        /\ cx = NoCx /\ env = NoEnv /\ caps = <<>>

CxOf(S) == [inp |-> PfbEncode(S), D |-> PfbContent(S), term |-> PfbTerm(S)]

\* the contract walk: a call of size c gets what the contract prescribes; where the contract leaves
\* the timing of the terminal result open the walk reports it as late as possible
Walk(c) == LET rem == Len(cx.D) - pos
               n == PfbMin(c, rem)
               e == IF n < c THEN (IF cx.term = "open" THEN "eof" ELSE cx.term) ELSE "nil"
           IN /\ PfbRead(cx.D, cx.term, c, n, SubSeq(cx.D, pos + 1, pos + n), e)
              /\ caps' = Append(caps, c)
              /\ phase' = IF e = "nil" THEN "run" ELSE "done"

\* ------------------------------------------------------------ family "exh"
Chunkings == IF Rich THEN {<<1>>, <<2>>, <<3>>, <<1, 2>>, <<2, 1>>, <<1, 3>>, <<3, 1>>, <<2, 3>>, <<64>>}
             ELSE {<<1>>, <<2>>, <<1, 3>>, <<64>>}
ExhSegs == /\ phase = "segs"
           /\ \/ /\ Len(strm.segs) < MaxSegs
                 /\ \E ty \in 1..2, n \in 0..MaxLen :
                       strm' = [strm EXCEPT !.segs = Append(@, [ty |-> ty,
                                                 data |-> SubSeq(PfbPayloads[Len(strm.segs) + 1], 1, n)])]
                 /\ UNCHANGED phase
              \/ phase' = "tail" /\ UNCHANGED strm
           /\ UNCHANGED <<cx, env, caps, pos, req, fin>>
ExhTail == /\ phase = "tail"
           /\ \E t \in PfbTails(strm.segs, Rich, WithShort) :
                 /\ strm' = [strm EXCEPT !.tail = t]
                 /\ cx' = CxOf(strm')
           /\ phase' = "env"
           /\ UNCHANGED <<env, caps, pos, req, fin>>
ExhEnv == /\ phase = "env"
          /\ \E ch \in Chunkings, ew \in BOOLEAN : env' = [chunks |-> ch, eofwd |-> ew]
          /\ phase' = "run"
          /\ UNCHANGED <<strm, cx, caps, pos, req, fin>>
ExhRun == /\ phase = "run" /\ Family = "exh"
          /\ \/ \E c \in 1..MaxCap : Walk(c)
             \/ ZeroReads /\ caps # <<>> /\ (\A j \in 1..Len(caps) : caps[j] # 0) /\ Walk(0)
          /\ UNCHANGED <<strm, cx, env>>

\* ------------------------------------------------------------ family "sim"
SimLens == 0..2000
SimData(n, a, c) == [i \in 1..n |-> (a * i + c) % 256]
SimChunkSizes == {1, 2, 3, 5, 17, 64, 511, 4096}
SimPick ==
    /\ phase = "pick"
    /\ \E k \in {RandomElement(1..3)}, kind \in {RandomElement(1..10)}, ew \in {RandomElement(BOOLEAN)},
          t1 \in {RandomElement(1..2)}, t2 \in {RandomElement(1..2)}, t3 \in {RandomElement(1..2)},
          big \in {RandomElement(1..3)},
          l1 \in {RandomElement(SimLens)}, l2 \in {RandomElement(0..40)}, l3 \in {RandomElement(SimLens)},
          a \in {RandomElement(0..127)}, c \in {RandomElement(0..255)},
          c1 \in {RandomElement(SimChunkSizes)}, c2 \in {RandomElement(SimChunkSizes)},
          nc \in {RandomElement(1..2)}, x \in {RandomElement(1..300)} :
          LET ls == IF big = 1 THEN <<l1, l2, l3>> ELSE IF big = 2 THEN <<l2, l1, l2 \div 3>> ELSE <<l2 \div 2, l2, l1 % 7>>
              all == << [ty |-> t1, data |-> SimData(ls[1], 2 * a + 1, c)],
                        [ty |-> t2, data |-> SimData(ls[2], 2 * a + 3, c + 7)],
                        [ty |-> t3, data |-> SimData(ls[3], 2 * a + 5, c + 100)] >>
              sg == SubSeq(all, 1, k)
              tl == IF kind <= 3 THEN PfbTailEof
                    ELSE IF kind <= 5 THEN PfbTailMarker(<<>>)
                    ELSE IF kind <= 7 THEN PfbTailMarker(SimData(l2, 3, c))
                    ELSE IF kind = 8 THEN PfbTailBad(<<(c % 2) * 128 + (a % 2), 4 + (a % 60)>>, <<7, 0, 0, 0, 65, 66>>)
                    ELSE IF sg[k].ty = 2 /\ WithShort # "no" THEN PfbTailShort(x)
                    ELSE PfbTailMarker(<<128, 3>>)
          IN /\ strm' = [segs |-> <<>>, tail |-> tl]      \* the data itself lives in cx (keeps the state small)
             /\ cx' = CxOf([segs |-> sg, tail |-> tl])
             /\ env' = [chunks |-> IF nc = 1 THEN <<c1>> ELSE <<c1, c2>>, eofwd |-> ew]
    /\ phase' = "run"
    /\ UNCHANGED <<caps, pos, req, fin>>
SimRun == /\ phase = "run" /\ Family = "sim"
          /\ \E c \in {RandomElement(0..64)} : Walk(IF c = 0 /\ (caps = <<>> \/ caps[Len(caps)] = 0) THEN 1 ELSE c)
          /\ UNCHANGED <<strm, cx, env>>

\* ------------------------------------------------------------ family "hdr"
HdrLens == << [lb |-> <<0, 0, 0, 0>>, pay |-> <<>>],
              [lb |-> <<1, 0, 0, 0>>, pay |-> <<171>>],
              [lb |-> <<255, 255, 255, 127>>, pay |-> <<171, 205>>],
              [lb |-> <<255, 255, 255, 255>>, pay |-> <<171, 205>>] >>
HdrB0 == /\ phase = "b0"
         /\ \E b0 \in 0..255 : cx' = [cx EXCEPT !.inp = <<b0>>]
         /\ phase' = "b1"
         /\ UNCHANGED <<strm, env, caps, pos, req, fin>>
HdrB1 == /\ phase = "b1"
         /\ \E b1 \in 0..255, lf \in 1..Len(HdrLens) :
               LET bytes == cx.inp \o <<b1>> \o HdrLens[lf].lb \o HdrLens[lf].pay
                   p == PfbParse(bytes)
               IN /\ cx' = [inp |-> bytes, D |-> p.D, term |-> p.term]
                  /\ env' = [chunks |-> <<1 + ((cx.inp[1] + b1) % 7)>>, eofwd |-> (cx.inp[1] + b1 + lf) % 2 = 0]
         /\ phase' = "run"
         /\ UNCHANGED <<strm, caps, pos, req, fin>>
HdrRun == /\ phase = "run" /\ Family = "hdr"
          /\ Walk(3)
          /\ UNCHANGED <<strm, cx, env>>

\* ------------------------------------------------------------ family "big"
\* segments whose length needs the third and the fourth byte of the length field.  The payload is
\* described, not written out: byte i (from 1) of a payload is (a * i + c) % 256 as in SimData; the
\* six header bytes are the specification's; the harness expands the description.
BigLens == {65535, 65536, 65537, 16777215, 16777216, 16777219}
BigPick == /\ phase = "big"
           /\ \E t1 \in 1..2, l1 \in BigLens, t2 \in 0..2, tl \in {"eof", "marker"}, ew \in BOOLEAN :
                 /\ (~Rich => (ew = (t1 = 1) /\ t2 \in {0, 3 - t1}))
                 /\ strm' = [segs |-> <<[hdr |-> PfbHeader(t1, l1), ty |-> t1, n |-> l1, a |-> 7, c |-> 3]>>
                                      \o (IF t2 = 0 THEN <<>> ELSE <<[hdr |-> PfbHeader(t2, 5), ty |-> t2, n |-> 5, a |-> 11, c |-> 200]>>),
                             tail |-> IF tl = "eof" THEN PfbTailEof ELSE PfbTailMarker(<<>>)]
                 /\ env' = [chunks |-> <<65536, 4097>>, eofwd |-> ew]
                 /\ caps' = <<4096, 65537>>
           /\ phase' = "done"
           /\ UNCHANGED <<cx, pos, req, fin>>

Next == ExhSegs \/ ExhTail \/ ExhEnv \/ ExhRun \/ SimPick \/ SimRun \/ HdrB0 \/ HdrB1 \/ HdrRun \/ BigPick

\* ------------------------------------------------------------- invariants
\* the generator's and the reader's description of a stream agree
ParseAgrees == (Family = "exh" /\ phase = "env") =>
                  (PfbIsStream(strm) /\ PfbParse(cx.inp) = [D |-> cx.D, term |-> cx.term])
ParseAgreesSim == (Family = "sim" /\ phase = "run" /\ caps = <<>>) =>
                  PfbParse(cx.inp) = [D |-> cx.D, term |-> cx.term]
\* the first two bytes alone decide about the invalid-PFB error
HdrExactly == (Family = "hdr" /\ phase = "run") =>
                  ((cx.term = "invalid") <=> PfbBadHeader(cx.inp[1], cx.inp[2]))
\* the reporting classes are consistent with the contract (all counts, error classes, and one wrong byte)
ClassAgrees == (phase = "run" /\ Len(caps) <= 1 /\ env = [chunks |-> <<1>>, eofwd |-> FALSE]) =>
    \A c \in 0..3, n \in 0..4, e \in PfbErrClasses, flip \in BOOLEAN :
        LET good == SubSeq(cx.D, pos + 1, PfbMin(pos + n, Len(cx.D)))
            out == IF flip /\ good # <<>> THEN [good EXCEPT ![1] = (@ + 1) % 256] ELSE good
        IN (PfbRejectClass(cx.D, cx.term, pos, c, n, out, e) = "ok") <=> PfbReadOK(cx.D, cx.term, pos, c, n, out, e)
PrefixOK == pos <= Len(cx.D)

Desc == [j \in 1..Len(strm.segs) |-> <<strm.segs[j].ty, IF Family = "big" THEN strm.segs[j].n ELSE Len(strm.segs[j].data)>>]
Emit == phase = "done" =>
           IF Family = "big"
           THEN CSVWrite("%1$s", <<ToJson([fam |-> Family, desc |-> Desc, tail |-> strm.tail.k, parts |-> strm.segs,
                                           inp |-> <<>>, D |-> <<>>, term |-> "eof",
                                           caps |-> caps, chunks |-> env.chunks, eofwd |-> env.eofwd])>>, OutFile)
           ELSE
           CSVWrite("%1$s", <<ToJson([fam |-> Family, desc |-> Desc, tail |-> strm.tail.k,
                                      inp |-> cx.inp, D |-> cx.D, term |-> cx.term,
                                      caps |-> caps, chunks |-> env.chunks, eofwd |-> env.eofwd])>>, OutFile)
=============================================================================
