------------------------------- MODULE Faults -------------------------------
(***************************************************************************)
(* Outcome rules for I/O faults and truncation (C13), as predicates on the *)
(* call log of one run recorded by the harness:                            *)
(*   kind       "readfault" | "truncate" | "writefault" | "shortwrite"     *)
(*   entry      which public call                                          *)
(*   at         byte offset (readers) or write-call index (writers)        *)
(*   delivered  the injected fault was actually returned to the library    *)
(*              (a reader that stops earlier, e.g. at the PFB end marker   *)
(*              or after closefile, never sees it)                         *)
(*   calls      number of Read / Write calls the library made              *)
(*   outcome    "error" | "ok" | "panic"                                   *)
(*   equal      outcome ok: the result equals the result of the unharmed   *)
(*              run                                                        *)
(*   complete   truncate: the cut removed nothing the reader consumes      *)
(*                                                                         *)
(* Rules: never a panic; a delivered fault surfaces as an error; a         *)
(* truncated font or CMap file gives an error or the complete result; a    *)
(* run whose fault was not delivered behaves like the unharmed run.        *)
(***************************************************************************)
EXTENDS Integers, Sequences

TruncEntries == {"type1", "readcmap"}      \* the property speaks about font and CMap files

RunOK(r) ==
    /\ r.outcome # "panic"
    /\ (r.kind \in {"readfault", "writefault", "shortwrite"} /\ r.delivered) => r.outcome = "error"
    \* a fault that was never delivered changes nothing: the result is the unharmed one (a result for an
    \* input the reader accepts; for the few inputs it rejects, the very same error)
    /\ (r.kind \in {"readfault", "writefault", "shortwrite"} /\ ~r.delivered) => (r.equal /\ (r.baseok => r.outcome = "ok"))
    /\ (r.kind = "truncate" /\ r.entry \in TruncEntries) => (r.outcome = "error" \/ (r.outcome = "ok" /\ r.equal))
=============================================================================
