------------------------------ MODULE PFBImpl ------------------------------
(***************************************************************************)
(* The decoder of pfb/reader.go as a state machine, written as a           *)
(* refinement of the contract PFB.tla (C14).                               *)
(*                                                                         *)
(* Decoder fields: st (0 header, 1 text, 2 binary, -1 parked nibble,       *)
(* 3 end), ln (payload bytes left), tl (the parked hex digit).  One Read   *)
(* call works on the caller's buffer buf (cells start as Junk), cnt cells  *)
(* are filled so far (reader.go keeps n and the re-sliced b in lock step). *)
(* Binary data is read raw into the front of the free part of the buffer   *)
(* and expanded in place from the back (ImplExpand applies the assignments *)
(* of the loop at reader.go:93-99 one after the other, so aliasing between *)
(* source and destination cells is part of the model).                     *)
(*                                                                         *)
(* The underlying io.Reader is the environment (EnvReads): a Read into m   *)
(* cells returns any 1..min(m, available) bytes, end of file together with *)
(* the last bytes or alone; a Read into no cells returns (0, nil) (or EOF  *)
(* at the end).  io.ReadFull (headers, binary data) is the loop of         *)
(* io.ReadAtLeast over such calls; text uses one plain Read per turn.      *)
(*                                                                         *)
(* Checked by TLC for all streams within MaxSegs / MaxLen, all sequences   *)
(* of caller buffer sizes 1..MaxCap and all environment choices:           *)
(*   ImplRefines  every call/return is a step of the contract              *)
(*   ImplPrefix   cells filled so far are the next bytes of the content    *)
(*   ImplNibble   a parked nibble is the next byte of the content          *)
(*   deadlock     no state without successor before a terminal result      *)
(***************************************************************************)
EXTENDS PFB, TLC

CONSTANTS MaxSegs, MaxLen, MaxCap,
          Rich,          \* all trailing-garbage and bad-header variants, or one of each
          WithShort,     \* "no" / "yes" / "only": streams whose last binary segment is cut short
          BinEOF         \* what Read returns when io.ReadFull reports io.EOF inside a binary segment:
                         \* "eof" (reader.go:84 as it stands: the error is passed on) or
                         \* "unexpected" (the repair: io.ErrUnexpectedEOF)

Junk == -1

ImplStreams == PfbStreams(MaxSegs, MaxLen, Rich, WithShort)

VARIABLES strm,            \* the abstract stream (fixed per behaviour)
          inp, ipos,       \* its bytes and how many the underlying reader has handed out
          st, ln, tl,      \* decoder fields
          buf, cnt,        \* the call in progress: caller's buffer and cells filled
          rf,              \* io.ReadFull in progress: [on, want, got]
          hdr              \* the six byte header buffer
implVars == <<strm, inp, ipos, st, ln, tl, buf, cnt, rf, hdr>>
vars == <<pos, req, fin, strm, inp, ipos, st, ln, tl, buf, cnt, rf, hdr>>

ImplD == PfbContent(strm)
ImplTerm == PfbTerm(strm)
RfOff == [on |-> FALSE, want |-> 0, got |-> 0]
Avail == Len(inp) - ipos

\* dealing with the environment: results <<bytes, eof>> of one Read into m cells
EnvReads(m) ==
    IF m = 0 THEN {<<0, FALSE>>} \cup (IF Avail = 0 THEN {<<0, TRUE>>} ELSE {})
    ELSE IF Avail = 0 THEN {<<0, TRUE>>}
    ELSE {<<j, FALSE>> : j \in 1..PfbMin(m, Avail)} \cup (IF Avail <= m THEN {<<Avail, TRUE>>} ELSE {})

ErrClass(err) == IF err = "unexpected" THEN "error" ELSE err     \* "eof", "invalid" are themselves
ImplLE32(h) == h[3] + 256 * h[4] + 65536 * h[5] + 16777216 * h[6]

\* the loop  for i := l-1; i >= 0; i-- { b[i] = hex(nibble of b[i/2]) }  with b = buf[base..]
RECURSIVE ImplExpand(_, _, _)
ImplExpand(bf, base, i) ==
    IF i < 0 THEN bf
    ELSE LET src == bf[base + (i \div 2) + 1]
             v == IF i % 2 = 0 THEN src \div 16 ELSE src % 16
         IN ImplExpand([bf EXCEPT ![base + i + 1] = PfbHexDigit(v)], base, i - 1)

Ret(c, e) == /\ cnt' = c /\ pos' = pos + c /\ req' = 0
             /\ fin' = IF e = "nil" THEN "no" ELSE e
Cont(c) == cnt' = c /\ UNCHANGED <<pos, req, fin>>

ImplInit == /\ PfbInit
            /\ strm \in ImplStreams
            /\ inp = PfbEncode(strm) /\ ipos = 0
            /\ st = 0 /\ ln = 0 /\ tl = 0
            /\ buf = <<>> /\ cnt = 0 /\ rf = RfOff /\ hdr = [i \in 1..6 |-> 0]

\* the caller
Call(c) == /\ PfbCall(c)
           /\ buf' = [i \in 1..c |-> Junk] /\ cnt' = 0
           /\ UNCHANGED <<strm, inp, ipos, st, ln, tl, rf, hdr>>

\* after io.ReadFull(r.r, hdr[:]) returned (k, err); h is the header buffer     (reader.go:43-52)
AfterHeader(h, k, err) ==
    LET pass == k >= 2 /\ h[1] = 128 /\ h[2] = 3 /\ err = "unexpected" IN
    IF ~pass /\ err # "nil" THEN Ret(cnt, ErrClass(err)) /\ UNCHANGED <<st, ln>>
    ELSE IF h[1] # 128 \/ h[2] = 0 \/ h[2] > 3 THEN Ret(cnt, "invalid") /\ UNCHANGED <<st, ln>>
    ELSE st' = h[2] /\ ln' = ImplLE32(h) /\ Cont(cnt)

\* after io.ReadFull(r.r, b[:k]) returned (k, err); bf is the buffer with the raw bytes   (reader.go:83-104)
AfterBinary(bf, k, err) ==
    /\ ln' = ln - k
    /\ IF err # "nil"
       THEN /\ Ret(cnt, ErrClass(IF err = "eof" /\ BinEOF = "unexpected" THEN "unexpected" ELSE err))
            /\ buf' = bf /\ UNCHANGED <<st, tl>>
       ELSE LET odd == (req - cnt) < 2 * k
                l == IF odd THEN 2 * k - 1 ELSE 2 * k
            IN /\ tl' = IF odd THEN PfbHexDigit(bf[cnt + k] % 16) ELSE tl
               /\ buf' = ImplExpand(bf, cnt, l - 1)
               /\ st' = IF odd THEN -1 ELSE IF ln - k = 0 THEN 0 ELSE 2
               /\ Cont(cnt + l)

\* one turn of the loop  for len(b) > 0 { switch r.state ... }
Turn ==
    /\ req >= 1 /\ ~rf.on
    /\ \/ /\ cnt = req                                                 \* return n, nil
          /\ Ret(cnt, "nil")
          /\ UNCHANGED <<strm, inp, ipos, st, ln, tl, buf, rf, hdr>>
       \/ /\ cnt < req /\ st = 0                                       \* case 0: start reading a header
          /\ hdr' = [i \in 1..6 |-> 0]
          /\ rf' = [on |-> TRUE, want |-> 6, got |-> 0]
          /\ Cont(cnt)
          /\ UNCHANGED <<strm, inp, ipos, st, ln, tl, buf>>
       \/ /\ cnt < req /\ st = -1                                      \* case -1: the parked nibble
          /\ buf' = [buf EXCEPT ![cnt + 1] = tl]
          /\ st' = IF ln = 0 THEN 0 ELSE 2
          /\ Cont(cnt + 1)
          /\ UNCHANGED <<strm, inp, ipos, ln, tl, rf, hdr>>
       \/ /\ cnt < req /\ st = 1                                       \* case 1: text, one plain Read
          /\ \E r \in EnvReads(PfbMin(req - cnt, ln)) :
                LET j == r[1] IN
                /\ buf' = [i \in 1..req |-> IF i > cnt /\ i <= cnt + j THEN inp[ipos + i - cnt] ELSE buf[i]]
                /\ ipos' = ipos + j /\ ln' = ln - j
                /\ IF r[2] THEN Ret(cnt + j, "eof") /\ st' = st
                   ELSE Cont(cnt + j) /\ st' = IF ln - j = 0 THEN 0 ELSE st
          /\ UNCHANGED <<strm, inp, tl, rf, hdr>>
       \/ /\ cnt < req /\ st = 2                                       \* case 2: binary
          /\ LET k == PfbMin((req - cnt + 1) \div 2, ln) IN
             IF k = 0                                                  \* ReadFull of nothing calls nobody
             THEN AfterBinary(buf, 0, "nil") /\ UNCHANGED <<strm, inp, ipos, rf, hdr>>
             ELSE /\ rf' = [on |-> TRUE, want |-> k, got |-> 0]
                  /\ Cont(cnt)
                  /\ UNCHANGED <<strm, inp, ipos, st, ln, tl, buf, hdr>>
       \/ /\ cnt < req /\ st = 3                                       \* case 3: end
          /\ Ret(cnt, "eof")
          /\ UNCHANGED <<strm, inp, ipos, st, ln, tl, buf, rf, hdr>>

\* one underlying Read inside io.ReadFull (io.ReadAtLeast)
ReadFullStep ==
    /\ req >= 1 /\ rf.on
    /\ \E r \in EnvReads(rf.want - rf.got) :
          LET j == r[1]
              got2 == rf.got + j
              err == IF got2 = rf.want THEN "nil"
                     ELSE IF r[2] THEN (IF got2 > 0 THEN "unexpected" ELSE "eof")
                     ELSE "more"
              h2 == [i \in 1..6 |-> IF i > rf.got /\ i <= got2 THEN inp[ipos + i - rf.got] ELSE hdr[i]]
              b2 == [i \in 1..req |-> IF i > cnt + rf.got /\ i <= cnt + got2
                                      THEN inp[ipos + i - cnt - rf.got] ELSE buf[i]]
          IN /\ ipos' = ipos + j
             /\ IF st = 0
                THEN /\ hdr' = h2 /\ UNCHANGED <<buf, tl>>
                     /\ IF err = "more"
                        THEN rf' = [rf EXCEPT !.got = got2] /\ Cont(cnt) /\ UNCHANGED <<st, ln>>
                        ELSE rf' = RfOff /\ AfterHeader(h2, got2, err)
                ELSE /\ UNCHANGED hdr
                     /\ IF err = "more"
                        THEN rf' = [rf EXCEPT !.got = got2] /\ buf' = b2 /\ Cont(cnt) /\ UNCHANGED <<st, ln, tl>>
                        ELSE rf' = RfOff /\ AfterBinary(b2, got2, err)
    /\ UNCHANGED <<strm, inp>>

Done == fin # "no" /\ UNCHANGED vars

ImplNext == (\E c \in 1..MaxCap : Call(c)) \/ Turn \/ ReadFullStep \/ Done

\* ------------------------------------------------------------- properties
\* refinement: what the caller sees of every step is a step of the contract for this stream
ContractStep ==
    \/ \E c \in 1..MaxCap : PfbCall(c)
    \/ \E e \in PfbErrClasses : PfbReturn(ImplD, ImplTerm, cnt', SubSeq(buf', 1, cnt'), e)
ImplRefines == [][ContractStep]_pfbVars

Emitted == IF req >= 1 THEN pos + cnt ELSE pos
ImplPrefix == req >= 1 => (/\ pos + cnt <= Len(ImplD)
                           /\ SubSeq(buf, 1, cnt) = SubSeq(ImplD, pos + 1, pos + cnt))
ImplNibble == st = -1 => (Emitted < Len(ImplD) /\ tl = ImplD[Emitted + 1])
ImplTypeOK == /\ st \in {-1, 0, 1, 2, 3} /\ ln >= 0 /\ cnt \in 0..MaxCap /\ req \in 0..MaxCap
              /\ ipos \in 0..Len(inp) /\ fin \in {"no", "eof", "invalid", "error"}
\* a well-formed stream never ends in anything but end of file, and only after everything was delivered
ImplEnd == (fin # "no" /\ ImplTerm = "eof") => (fin = "eof" /\ pos = Len(ImplD))
ImplStreamsOK == PfbIsStream(strm)
=============================================================================
