------------------------------- MODULE ScanBuf -------------------------------
(***************************************************************************)
(* The scanner's buffered input layer (scanner.go: Peek, PeekN, Next,      *)
(* readByteRaw, refill) over an io.Reader that may deliver any short read  *)
(* and may report end-of-file together with the last bytes or alone        *)
(* (C12).  The buffer is scaled down to BufSize bytes so that TLC explores *)
(* every interleaving of consumer calls and delivery schedules on short    *)
(* inputs.                                                                 *)
(*                                                                         *)
(* Invariants: nothing is lost, duplicated or reordered                    *)
(*     out \o peek \o unread part of buf \o undelivered input = Input      *)
(* and the first read error is sticky and only ever reported once every    *)
(* byte has been handed over.                                              *)
(*                                                                         *)
(* Family "sched" of the same module enumerates delivery schedules for the *)
(* harness: cyclic chunk-size sequences x EOF mode x seekable.             *)
(***************************************************************************)
EXTENDS Integers, Sequences, TLC, Json, CSV

CONSTANTS InLen,      \* length of the byte sequence of the underlying reader
          BufSize, MaxPeek, Family, OutFile,
          Faulty      \* TRUE: a refill that got data together with EOF reports EOF at once (non-vacuity)
Input == [j \in 1..InLen |-> j]      \* distinct bytes, so that any reordering shows

VARIABLES off,     \* bytes the source has delivered so far
          buf, pos, used,   \* buffer contents (a sequence of length used), read position (0-based count)
          peek,    \* peeked bytes not yet consumed
          err,     \* "none" | "eof": the sticky error of refill
          out,     \* bytes handed to the consumer by Next
          op,      \* consumer call in progress: [k |-> "idle"] | [k |-> "next"] | [k |-> "peek", n]
          ret,     \* what the last completed call returned: "ok" | "eof"
          sched    \* family "sched"
vars == <<off, buf, pos, used, peek, err, out, op, ret, sched>>

Init == /\ off = 0 /\ buf = <<>> /\ pos = 0 /\ used = 0 /\ peek = <<>> /\ err = "none" /\ out = <<>>
        /\ op = [k |-> "idle"] /\ ret = "ok" /\ sched = <<>>

Remaining == Len(Input) - off
Unread == SubSeq(buf, pos + 1, used)

\* the consumer starts a call
StartNext == /\ Family = "buf" /\ op.k = "idle" /\ op' = [k |-> "next"] /\ UNCHANGED <<off, buf, pos, used, peek, err, out, ret, sched>>
StartPeek == /\ Family = "buf" /\ op.k = "idle" /\ \E n \in 1..MaxPeek : op' = [k |-> "peek", n |-> n]
             /\ UNCHANGED <<off, buf, pos, used, peek, err, out, ret, sched>>

\* Next with a peeked byte available: no source access at all
NextFromPeek == /\ op.k = "next" /\ peek # <<>>
                /\ out' = Append(out, Head(peek)) /\ peek' = Tail(peek)
                /\ op' = [k |-> "idle"] /\ ret' = "ok"
                /\ UNCHANGED <<off, buf, pos, used, err, sched>>
\* PeekN satisfied
PeekDone == /\ op.k = "peek" /\ Len(peek) >= op.n
            /\ op' = [k |-> "idle"] /\ ret' = "ok" /\ UNCHANGED <<off, buf, pos, used, peek, err, out, sched>>
NeedsByte == (op.k = "next" /\ peek = <<>>) \/ (op.k = "peek" /\ Len(peek) < op.n)
\* readByteRaw with data in the buffer
TakeByte == /\ NeedsByte /\ pos < used
            /\ pos' = pos + 1
            /\ IF op.k = "next" THEN out' = Append(out, buf[pos + 1]) /\ peek' = peek /\ op' = [k |-> "idle"] /\ ret' = "ok"
               ELSE peek' = Append(peek, buf[pos + 1]) /\ out' = out /\ op' = op /\ ret' = ret
            /\ UNCHANGED <<off, buf, used, err, sched>>
\* refill when an error is already remembered: the call ends with it
RefillSticky == /\ NeedsByte /\ pos >= used /\ err # "none"
                /\ op' = [k |-> "idle"] /\ ret' = err
                /\ UNCHANGED <<off, buf, pos, used, peek, err, out, sched>>
\* refill: unread bytes move to the front, the source delivers n bytes and possibly EOF
Refill == /\ NeedsByte /\ pos >= used /\ err = "none"
          /\ \E n \in 0..Remaining, e \in {"none", "eof"} :
                /\ n <= BufSize - (used - pos)
                /\ (n = 0 => (Remaining = 0 /\ e = "eof"))           \* no zero-progress reads before the end
                /\ (e = "eof" => n = Remaining)                      \* EOF with the last bytes, or alone
                /\ buf' = Unread \o SubSeq(Input, off + 1, off + n)
                /\ used' = (used - pos) + n /\ pos' = 0 /\ off' = off + n
                /\ err' = e
                \* the call goes on if data arrived; otherwise it ends with the error
                /\ IF n > 0 /\ ~(Faulty /\ e = "eof") THEN op' = op /\ ret' = ret ELSE op' = [k |-> "idle"] /\ ret' = e
          /\ UNCHANGED <<peek, out, sched>>

\* ---- family "sched": delivery schedules for the harness
Sizes == {1, 2, 3, 7, 64, 511, 512, 513}
GrowSched == /\ Family = "sched" /\ Len(sched) < 3
             /\ \E s \in Sizes : sched' = Append(sched, s)
             /\ UNCHANGED <<off, buf, pos, used, peek, err, out, op, ret>>
EmitSched == (Family = "sched" /\ sched # <<>>) =>
    CSVWrite("%1$s", <<ToJson([chunks |-> sched])>>, OutFile)

Next == StartNext \/ StartPeek \/ NextFromPeek \/ PeekDone \/ TakeByte \/ RefillSticky \/ Refill \/ GrowSched

NothingLost == out \o peek \o Unread \o SubSeq(Input, off + 1, Len(Input)) = Input
ErrSticky == (err = "eof" => off = Len(Input)) /\ (ret = "eof" => (err = "eof" /\ pos >= used))
Bounds == pos <= used /\ used <= BufSize /\ Len(buf) = used
\* an end-of-file answer to Next means every byte has been handed over or is still peeked
EofOnlyAtEnd == (ret = "eof" /\ op.k = "idle") => out \o peek = Input
=============================================================================
