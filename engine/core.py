"""Core of the /verif check engine.

One check = one Ctx.  A check module (checks/cXX.py) receives the Ctx, runs TLC
configurations through ctx.tlc(...), runs the Go harness through ctx.vh(...),
reports disagreements through ctx.violation(...), and the engine takes care of
known findings, evidence, replay files and the exit code.

Exit codes (DESIGN.md section 9):
  0  everything explored agreed (known findings printed as KNOWN-FINDING lines)
  1  at least one reproduced disagreement not covered by known_findings.json
  2  the check itself is broken (TLC error, time-out, build failure, vacuity,
     negative control accepted, ...) -- never reported as a violation
"""
import hashlib
import threading
import json
import os
import re
import shutil
import subprocess
import sys
import tempfile
import time

VERIF = os.path.dirname(os.path.dirname(os.path.abspath(__file__)))
REPO = os.environ.get("VERIF_REPO", "/repo")
BUILD = os.path.join(VERIF, ".build")
SPEC = os.path.join(VERIF, "spec")
GOENV = {
    "GOFLAGS": "-mod=mod",
    "GOPROXY": "off",
    "GOSUMDB": "off",
    "GOTOOLCHAIN": "local",
}


class Broken(Exception):
    """The check cannot give a verdict (exit 2)."""


def log(*a):
    print(*a, file=sys.stderr, flush=True)


def goenv():
    env = dict(os.environ)
    env.update(GOENV)
    return env


def build_harness(race=False):
    """(Re)build the harness binary from /repo's current working tree."""
    os.makedirs(BUILD, exist_ok=True)
    hdir = os.path.join(VERIF, "harness")
    # the harness module replaces the library by /repo; it needs /repo's go.sum
    shutil.copyfile(os.path.join(REPO, "go.sum"), os.path.join(hdir, "go.sum"))
    out = os.path.join(BUILD, "vh-race" if race else "vh")
    cmd = ["go", "build", "-tags", "verif"]
    if REPO != "/repo":
        # VERIF_REPO: the same harness against another working tree of the library
        alt = os.path.join(BUILD, "go.alt.mod")
        with open(os.path.join(hdir, "go.mod")) as f:
            text = f.read().replace("=> /repo", "=> " + REPO)
        with open(alt, "w") as f:
            f.write(text)
        shutil.copyfile(os.path.join(REPO, "go.sum"), os.path.join(BUILD, "go.alt.sum"))
        cmd.append("-modfile=" + alt)
    if race:
        cmd.append("-race")
    cmd += ["-o", out, "./cmd/vh"]
    t0 = time.time()
    p = subprocess.run(cmd, cwd=hdir, env=goenv(), capture_output=True, text=True)
    if p.returncode != 0:
        raise Broken("harness build failed:\n" + p.stdout + p.stderr)
    log("[build] %s in %.1fs" % (os.path.basename(out), time.time() - t0))
    return out


class TLCResult:
    def __init__(self):
        self.generated = 0
        self.distinct = 0
        self.ok = False
        self.out = ""
        self.violated = None  # name of violated invariant / property
        self.error = None
        self.wall = 0.0
        self.coverage = {}


_CFG_LOCK = threading.Lock()
_STATES_RE = re.compile(r"(\d+) states generated, (\d+) distinct states found")
_SIM_RE = re.compile(r"The number of states generated: (\d+)")


class Ctx:
    def __init__(self, prop, tier, seed):
        self.prop = prop
        self.tier = tier
        self.seed = seed
        self.t0 = time.time()
        self.scratch = tempfile.mkdtemp(prefix="verif-%s-" % prop)
        self.states = 0
        self.transitions = 0
        self.traces = 0
        self.evaluations = 0
        self.nontrivial = set()
        self.nontrivial_extra = 0
        self.samples = []
        self.violations = []
        self.known_hits = {}
        self.notes = []
        self.tlc_runs = []
        self.rule = ""
        self.exhaustive = None
        self.assumptions = []
        self.extra = {}
        self.level = "model_checking"
        self._vh = None
        self._vh_race = None
        self.findings = load_findings()
        shutil.rmtree(os.path.join(VERIF, "replays", prop), ignore_errors=True)

    # ------------------------------------------------------------------ build
    @property
    def vh_bin(self):
        if self._vh is None:
            self._vh = build_harness()
        return self._vh

    @property
    def vh_race_bin(self):
        if self._vh_race is None:
            self._vh_race = build_harness(race=True)
        return self._vh_race

    # -------------------------------------------------------------------- TLC
    def specdir(self, name="spec"):
        """A scratch directory with every TLA+ module of /verif/spec, flat."""
        d = os.path.join(self.scratch, name)
        if not os.path.isdir(d):
            os.makedirs(d)
            for root, _, files in os.walk(SPEC):
                for f in files:
                    if f.endswith(".tla") or f.endswith(".cfg") or f.endswith(".json") or f.endswith(".ndjson"):
                        shutil.copyfile(os.path.join(root, f), os.path.join(d, f))
            gen = os.path.join(BUILD, "gen")
            if os.path.isdir(gen):
                for f in os.listdir(gen):
                    shutil.copyfile(os.path.join(gen, f), os.path.join(d, f))
        return d

    def tlc(self, module, cfg, workers=None, simulate=None, depth=None,
            timeout=600, extra=(), cwd=None, dfs=False, xss=None, count=True,
            must_pass=True, coverage=False, label=None):
        """Run TLC.  cfg is the text of the configuration (written to scratch)
        or the name of a .cfg file in the spec directory."""
        d = cwd or self.specdir()
        label = label or module
        if "\n" in cfg or cfg.startswith("SPECIFICATION") or cfg.startswith("INIT"):
            with _CFG_LOCK:
                self._cfgseq = getattr(self, "_cfgseq", 0) + 1
                cfgname = "%s__%d.cfg" % (module, self._cfgseq)
            with open(os.path.join(d, cfgname), "w") as f:
                f.write(cfg)
        else:
            cfgname = cfg
        md = tempfile.mkdtemp(prefix="md", dir=self.scratch)
        if workers is None:
            workers = min(16, os.cpu_count() or 4)
        cmd = ["timeout", str(int(timeout)), "tlc", "-metadir", md, "-config", cfgname,
               "-workers", str(workers), "-noGenerateSpecTE"]
        if simulate is not None:
            cmd += ["-simulate", "num=%d" % simulate]
            cmd += ["-seed", str(self.seed)]
            if depth is not None:
                cmd += ["-depth", str(depth)]
        if coverage:
            cmd += ["-coverage", "1"]
        cmd += list(extra)
        cmd.append(module + ".tla")
        env = dict(os.environ)
        jto = []
        if dfs:
            jto.append("-Dtlc2.tool.queue.IStateQueue=StateDeque")
        if xss:
            jto.append("-Xss%s" % xss)
        if jto:
            env["JAVA_TOOL_OPTIONS"] = (env.get("JAVA_TOOL_OPTIONS", "") + " " + " ".join(jto)).strip()
        t0 = time.time()
        # Opt-in cache (VERIF_TLC_CACHE=<dir>, set only by tools/seedcheck.py): what TLC derives from the
        # specification does not depend on the library under test, so that a seeded change can be
        # checked without exploring the same state space again.  Never set by the registered commands.
        cdir = os.environ.get("VERIF_TLC_CACHE")
        ckey = None
        if cdir:
            # Inputs: every module, the configuration, and the data files it names as inputs (TraceFile:
            # traces recorded from the library under test).  Outputs: the files it names otherwise
            # (OutFile, BaseFile, VerdictFile).  Other files in the directory may belong to TLC runs
            # that are going on side by side and are ignored.
            hh = hashlib.sha256()
            cfgtext = open(os.path.join(d, cfgname)).read()
            named = re.findall(r'(\w+File)\s*=\s*"([^"]+)"', cfgtext)
            inputs = sorted(v for k, v in named if k.startswith("Trace"))
            outputs = sorted(set(v for k, v in named if not k.startswith("Trace")))
            for fn in sorted(os.listdir(d)):
                if fn.endswith(".tla"):
                    hh.update(fn.encode())
                    hh.update(open(os.path.join(d, fn), "rb").read())
            for fn in inputs:
                fp = os.path.join(d, fn)
                hh.update(fn.encode())
                if os.path.isfile(fp):
                    with open(fp, "rb") as fh:
                        for chunk in iter(lambda: fh.read(1 << 20), b""):
                            hh.update(chunk)
            hh.update(cfgtext.encode())
            hh.update(repr([module, workers, simulate, depth, self.seed if simulate is not None else 0, list(extra), coverage]).encode())
            ckey = os.path.join(cdir, hh.hexdigest()[:24])
        before = {}
        if ckey and os.path.exists(os.path.join(ckey, "stdout.txt")):
            out_text = open(os.path.join(ckey, "stdout.txt")).read()
            rc = int(open(os.path.join(ckey, "rc.txt")).read())
            for fn in os.listdir(os.path.join(ckey, "files")):
                src = os.path.join(ckey, "files", fn)
                dst = os.path.join(d, fn)
                if os.path.isdir(src):
                    shutil.copytree(src, dst, dirs_exist_ok=True)
                else:
                    shutil.copyfile(src, dst)

            class _P:
                pass
            p = _P()
            p.stdout, p.stderr, p.returncode = out_text, "", rc
        else:
            p = subprocess.run(cmd, cwd=d, env=env, capture_output=True, text=True)
            if ckey and p.returncode != 124:
                tmpk = ckey + ".tmp%d" % os.getpid()
                os.makedirs(os.path.join(tmpk, "files"), exist_ok=True)
                for fn in outputs:
                    fp = os.path.join(d, fn)
                    if os.path.isdir(fp):
                        shutil.copytree(fp, os.path.join(tmpk, "files", fn), dirs_exist_ok=True)
                    elif os.path.isfile(fp):
                        shutil.copyfile(fp, os.path.join(tmpk, "files", fn))
                open(os.path.join(tmpk, "stdout.txt"), "w").write(p.stdout + p.stderr)
                open(os.path.join(tmpk, "rc.txt"), "w").write(str(p.returncode))
                try:
                    os.rename(tmpk, ckey)
                except OSError:
                    shutil.rmtree(tmpk, ignore_errors=True)
        r = TLCResult()
        r.wall = time.time() - t0
        r.out = p.stdout + p.stderr
        shutil.rmtree(md, ignore_errors=True)
        shutil.rmtree(os.path.join(d, "states"), ignore_errors=True)
        m = None
        for m in _STATES_RE.finditer(r.out):
            pass
        if m:
            r.generated = int(m.group(1))
            r.distinct = int(m.group(2))
        else:
            m = _SIM_RE.search(r.out)
            if m:
                r.generated = int(m.group(1))
                r.distinct = r.generated
        if p.returncode == 124:
            r.error = "timeout after %ds" % timeout
        elif "Invariant " in r.out and " is violated" in r.out:
            mm = re.search(r"Invariant (\S+) is violated", r.out)
            r.violated = mm.group(1) if mm else "?"
        elif "Temporal properties were violated" in r.out or "Action property" in r.out and "is violated" in r.out:
            r.violated = "temporal"
        elif "is violated" in r.out and "postcondition" in r.out.lower():
            r.violated = "postcondition"
        elif p.returncode != 0 and not ("Model checking completed. No error has been found." in r.out
                                        or "Finished in" in r.out and "Error:" not in r.out):
            r.error = "tlc exit %d" % p.returncode
        if r.error is None and r.violated is None:
            if "Error:" in r.out:
                r.error = "tlc error"
            else:
                r.ok = True
        if count:
            self.states += r.distinct
            self.transitions += r.generated
        self.tlc_runs.append({"module": module, "label": label, "cfg": cfgname, "generated": r.generated,
                              "distinct": r.distinct, "ok": r.ok, "violated": r.violated,
                              "error": r.error, "wall_s": round(r.wall, 2),
                              "simulate": simulate})
        log("[tlc] %-28s %9d generated %9d distinct  %5.1fs  %s" %
            (label, r.generated, r.distinct, r.wall,
             "ok" if r.ok else ("VIOLATED " + str(r.violated) if r.violated else "ERROR " + str(r.error))))
        if must_pass and not r.ok:
            tail = "\n".join(r.out.splitlines()[-60:])
            raise Broken("TLC run %s/%s failed (%s):\n%s" % (module, cfgname, r.violated or r.error, tail))
        return r

    # ---------------------------------------------------------------- harness
    def vh(self, *args, stdin=None, timeout=1200, race=False, check=True, env=None):
        b = self.vh_race_bin if race else self.vh_bin
        e = dict(os.environ)
        e["VERIF_SEED"] = str(self.seed)
        e["VERIF_TIER"] = self.tier
        if env:
            e.update(env)
        try:
            p = subprocess.run([b] + [str(a) for a in args], input=stdin, capture_output=True,
                               text=True, timeout=timeout, cwd=self.scratch, env=e)
        except subprocess.TimeoutExpired:
            raise Broken("harness %s timed out after %ds" % (args[0], timeout))
        if check and p.returncode != 0:
            raise Broken("harness %s failed (exit %d):\n%s" % (" ".join(map(str, args)), p.returncode,
                                                                (p.stdout[-3000:] + p.stderr[-6000:])))
        return p

    def vh_json(self, *args, **kw):
        """Run a harness sub-command whose stdout is one JSON document."""
        p = self.vh(*args, **kw)
        try:
            return json.loads(p.stdout)
        except Exception as ex:
            raise Broken("harness %s: bad JSON output (%s): %s" % (args[0], ex, p.stdout[:2000]))

    # ------------------------------------------------------------- accounting
    def sample(self, s, limit=6):
        if len(self.samples) < limit:
            self.samples.append(s)

    def count(self, n=1, key=None):
        self.evaluations += n
        if key is not None:
            self.nontrivial.add(key)

    def violation(self, sig, what, stimulus=None, expected=None, observed=None, how=None, spec=None):
        """Report a disagreement.  sig identifies the failing class narrowly."""
        for f in self.findings:
            if f.get("property") != self.prop or f.get("status") != "known":
                continue
            if finding_matches(f, sig):
                k = f["id"]
                if k not in self.known_hits:
                    self.known_hits[k] = {"finding": f, "n": 0, "example": sig}
                self.known_hits[k]["n"] += 1
                return False
        self.violations.append({"sig": sig, "what": what, "stimulus": stimulus, "expected": expected,
                                "observed": observed, "how": how, "spec": spec})
        return True

    def has_unlisted_violations(self):
        return bool(self.violations)

    # ---------------------------------------------------------------- finish
    def finish(self):
        wall = time.time() - self.t0
        for k, h in sorted(self.known_hits.items()):
            print("KNOWN-FINDING: property=%s %s (%s; %d occurrence(s) this run, e.g. %s)" %
                  (self.prop, h["finding"]["what"], k, h["n"], h["example"]))
        # group violations by signature, one replay file per signature
        bysig = {}
        for v in self.violations:
            bysig.setdefault(v["sig"], []).append(v)
        rdir = os.path.join(VERIF, "replays", self.prop)
        paths = []
        if bysig:
            os.makedirs(rdir, exist_ok=True)
        for sig, vs in sorted(bysig.items()):
            v = dict(vs[0])
            v.update({"property": self.prop, "tier": self.tier, "seed": self.seed,
                      "occurrences": len(vs)})
            h = hashlib.sha1(sig.encode()).hexdigest()[:12]
            path = os.path.join(rdir, h + ".json")
            with open(path, "w") as f:
                json.dump(v, f, indent=1, default=str)
            paths.append((sig, path, len(vs), v["what"]))
        cov = {
            "states": max(self.states, 0),
            "transitions": max(self.transitions, 0),
            "traces_validated_against_impl": self.traces,
            "samples": self.samples if self.samples else ["(no sample recorded)"],
            "evaluations": self.evaluations,
            "distinct_nontrivial": len(self.nontrivial) + self.nontrivial_extra,
            "rule": self.rule,
            "tlc_runs": self.tlc_runs,
            "known_findings_hit": {k: h["n"] for k, h in self.known_hits.items()},
        }
        if self.exhaustive is not None:
            cov["exhaustive"] = bool(self.exhaustive)
        cov.update(self.extra)
        ev = {
            "property_id": self.prop,
            "tier": self.tier,
            "seed": self.seed,
            "level": self.level,
            "coverage": cov,
            "assumptions": self.assumptions,
            "wall_s": round(wall, 2),
            "violations": len(bysig),
        }
        os.makedirs(os.path.join(VERIF, "evidence"), exist_ok=True)
        with open(os.path.join(VERIF, "evidence", self.prop + ".json"), "w") as f:
            json.dump(ev, f, indent=1, default=str)
            f.write("\n")
        for k, (sig, path, n, what) in enumerate(paths):
            if k == 60:
                print("  ... %d further violation signatures: see replays/%s/ and the evidence file" % (len(paths) - 60, self.prop))
                break
            print("VIOLATION property=%s replay=%s" % (self.prop, path))
            print("  -> %s [%s] x%d" % (what, sig, n))
        sys.stdout.flush()
        log("[done] %s tier=%s seed=%d wall=%.1fs states=%d transitions=%d evaluations=%d traces=%d violations=%d known=%d" %
            (self.prop, self.tier, self.seed, wall, self.states, self.transitions, self.evaluations,
             self.traces, len(bysig), len(self.known_hits)))
        return 1 if bysig else 0

    def cleanup(self):
        shutil.rmtree(self.scratch, ignore_errors=True)


def load_findings():
    p = os.path.join(VERIF, "known_findings.json")
    if not os.path.exists(p):
        return []
    with open(p) as f:
        return json.load(f).get("findings", [])


def finding_matches(f, sig):
    """A known finding lists exact signatures and/or anchored regular
    expressions; nothing broader than what is listed is ever suppressed."""
    if sig in f.get("signatures", []):
        return True
    for pat in f.get("signature_patterns", []):
        if re.fullmatch(pat, sig):
            return True
    return False


def read_vectors(path):
    """Vectors emitted from TLC by CSVWrite("%1$s", <<ToJson(x)>>, file): each
    line is a JSON string whose content is a JSON document."""
    out = []
    if not os.path.exists(path):
        return out
    with open(path) as f:
        for line in f:
            line = line.strip()
            if not line:
                continue
            v = json.loads(line)
            if isinstance(v, str):
                v = json.loads(v)
            out.append(v)
    return out
