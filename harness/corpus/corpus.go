// Package corpus provides the input files shared by the delivery (C12),
// fault (C13), determinism (C17) and isolation (C18) checks, and the uniform
// "entry points" through which the library consumes a byte stream.
package corpus

import (
	"bytes"
	"fmt"
	"io"
	"math/rand"
	"sort"
	"strings"

	ps "seehuhn.de/go/postscript"
	"seehuhn.de/go/postscript/afm"
	"seehuhn.de/go/postscript/pfb"
	"seehuhn.de/go/postscript/type1"

	"vharness/fontgen"
	"vharness/indep"
)

// Input is one named input for one entry point.
type Input struct {
	Name  string
	Entry string // execute | readcmap | type1 | afm | pfbdecode
	Data  []byte
}

func cmapText(n int) string {
	var sb strings.Builder
	sb.WriteString("%!PS-Adobe-3.0 Resource-CMap\n%%DocumentNeededResources: ProcSet (CIDInit)\n%%BeginResource: CMap (Test-H)\n")
	sb.WriteString("/CIDInit /ProcSet findresource begin\n12 dict begin\nbegincmap\n/CIDSystemInfo 3 dict dup begin\n  /Registry (Adobe) def\n  /Ordering (Test) def\n  /Supplement 0 def\nend def\n")
	sb.WriteString("/CMapName /Test-H def\n/CMapVersion 1.0 def\n/CMapType 1 def\n/WMode 0 def\n")
	sb.WriteString("2 begincodespacerange\n<00> <80>\n<8140> <FEFE>\nendcodespacerange\n")
	for b := 0; b < n; b++ {
		fmt.Fprintf(&sb, "3 begincidrange\n<%02x> <%02x> %d\n<81%02x> <81%02x> %d\n<90%02x> <90%02x> %d\nendcidrange\n", b, b+1, b*3, b, b+5, 1000+b, b, b, 2000+b)
		fmt.Fprintf(&sb, "2 beginbfchar\n<%02x> <00%02x>\n<82%02x> /space\nendbfchar\n", b, 65+b%20, b)
		fmt.Fprintf(&sb, "1 beginbfrange\n<83%02x> <83%02x> [<0041> <0042>]\nendbfrange\n", b, b+1)
	}
	sb.WriteString("1 beginnotdefrange\n<00> <1F> 1\nendnotdefrange\nendcmap\nCMapName currentdict /CMap defineresource pop\nend\nend\n%%EndResource\n%%EOF\n")
	return sb.String()
}

func afmText(rng *rand.Rand, n int) string {
	var sb strings.Builder
	sb.WriteString("StartFontMetrics 4.1\nComment generated\nFontName Verif-Regular\nFullName Verif Regular\nFamilyName Verif\nWeight Regular\nVersion 001.002\nNotice (c) nobody\n")
	sb.WriteString("ItalicAngle -12.5\nIsFixedPitch false\nUnderlinePosition -100\nUnderlineThickness 50\nCapHeight 700\nXHeight 500\nAscender 750\nDescender -250\n")
	fmt.Fprintf(&sb, "StartCharMetrics %d\n", n)
	for i := 0; i < n; i++ {
		code := 32 + i
		if code > 255 {
			code = -1
		}
		fmt.Fprintf(&sb, "C %d ; WX %d ; N g%d ; B %d %d %d %d ;", code, 200+rng.Intn(800), i, rng.Intn(50), -rng.Intn(200), 300+rng.Intn(500), rng.Intn(800))
		if i%7 == 0 {
			fmt.Fprintf(&sb, " L g%d g%d ; L g%d g%d ;", (i+1)%n, (i+2)%n, (i+3)%n, (i+4)%n)
		}
		sb.WriteString("\n")
	}
	sb.WriteString("EndCharMetrics\nStartKernData\nStartKernPairs 3\nKPX g0 g1 -50\nKPX g1 g2 30\nKPX g0 g1 -20\nEndKernPairs\nEndKernData\nEndFontMetrics\n")
	return sb.String()
}

const programText = `%!PS-Adobe-3.0
%%Title: delivery test
%%Creator: verif
/a 1 def /b (string with (nested) parens and \n escapes) def
/p { a 1 add /a exch def } def
10 { p } repeat
[ 1 2 3 <414243> <~87cURD]i,"Ebo7~> ] /arr exch def
% a comment
%%Pages: 3
%%+ more
16#FF 8#17 1.5e3 -.25
/d 5 dict def d begin /x 42 def end
arr { pop } forall
<< /k1 1 /k2 (two) >> /dd exch def
0 1 20 { dup mul pop } for
`

// All returns the corpus.  Sizes are chosen so that interesting positions
// (eexec switch, PFB headers, readstring payloads, DSC lines) fall on both
// sides of the scanner's 512-byte refill boundary.
// Rejected names the inputs of All that the readers reject (they are in the corpus for what
// happens around them: state left behind, faults after the point where reading stops).
var Rejected = map[string]bool{"font-pop-without-othersubr": true, "font-clear-with-closefile": true}

func All(seed int64) []Input {
	rng := rand.New(rand.NewSource(seed))
	var out []Input
	add := func(name, entry string, data []byte) { out = append(out, Input{name, entry, data}) }
	// programs: padded so that tokens straddle byte 512
	for _, pad := range []int{0, 437, 505} {
		add(fmt.Sprintf("program-pad%d", pad), "execute", []byte(strings.Replace(programText, "% a comment\n", "% "+strings.Repeat("x", pad)+"\n", 1)))
	}
	// small eexec programs: everything from the eexec token to the end of the input fits
	// into the scanner's last refill (data may arrive together with the end-of-file indication)
	plain := []byte("3 (bar) /inside 7 def currentfile closefile\n")
	var cipher []byte
	for iv := byte(0); ; iv++ {
		// a legal random prefix: the cipher text starts with a non-white-space byte and has a
		// non-hexadecimal byte among its first four
		cipher = indep.Encrypt(55665, append([]byte{iv, 'y', 0x80, 'z'}, plain...))
		isHex := func(c byte) bool { return c >= '0' && c <= '9' || c >= 'a' && c <= 'f' || c >= 'A' && c <= 'F' }
		if cipher[0] > ' ' && !(isHex(cipher[0]) && isHex(cipher[1]) && isHex(cipher[2]) && isHex(cipher[3])) {
			break
		}
	}
	add("eexec-small-binary", "execute", append([]byte("30 currentfile eexec "), cipher...))
	add("eexec-small-hex", "execute", []byte("30 currentfile eexec\n"+fmt.Sprintf("%x", cipher)+"\n"))
	add("eexec-small-then-clear", "execute", append(append([]byte("30 currentfile eexec "), cipher...), []byte("\n/after 5 def (tail)")...))
	add("cmap-small", "readcmap", []byte(cmapText(2)))
	add("cmap-large", "readcmap", []byte(cmapText(30)))
	add("afm-small", "afm", []byte(afmText(rng, 5)))
	add("afm-large", "afm", []byte(afmText(rng, 120)))
	// fonts: library writer and independent writer, every container
	f := fontgen.Generate(rng, fontgen.Opts{NGlyphs: 6, Encoding: "custom", Zone: "utc", NonDefault: true})
	for _, ft := range []struct {
		n string
		f type1.FileFormat
	}{{"pfa", type1.FormatPFA}, {"pfb", type1.FormatPFB}, {"binary", type1.FormatBinary}, {"noeexec", type1.FormatNoEExec}} {
		var buf bytes.Buffer
		if err := f.Write(&buf, &type1.WriterOptions{Format: ft.f}); err == nil {
			add("font-lib-"+ft.n, "type1", buf.Bytes())
			if ft.n == "pfb" {
				add("pfb-stream", "pfbdecode", buf.Bytes())
			}
		}
	}
	num := func(v int64) indep.Tok { return indep.Tok{T: "n", V: v} }
	cmd := func(c string) indep.Tok { return indep.Tok{T: "c", C: c} }
	spec := &indep.FontSpec{FontName: "Indep", Glyphs: []string{".notdef", "A", "B"}, Toks: map[string][]indep.Tok{
		".notdef": {num(0), num(250), cmd("hsbw"), cmd("endchar")},
		"A":       {num(20), num(600), cmd("hsbw"), num(10), num(20), cmd("hstem"), num(50), num(0), cmd("rmoveto"), num(300), cmd("hlineto"), num(-150), num(700), cmd("rlineto"), cmd("closepath"), cmd("endchar")},
		"B":       {num(30), num(650), cmd("hsbw"), num(40), num(40), cmd("rmoveto"), num(100), num(50), num(60), num(80), num(-20), num(120), cmd("rrcurveto"), cmd("closepath"), cmd("endchar")},
	}, Subrs: [][]indep.Tok{{cmd("return")}, {cmd("return")}, {cmd("return")}, {cmd("return")}},
		Info:    []string{"/version (001.001) readonly def", "/FullName (Indep Font) readonly def", "/FamilyName (Indep) readonly def", "/Weight (Bold) readonly def", "/ItalicAngle 0 def", "/isFixedPitch false def", "/UnderlinePosition -100 def", "/UnderlineThickness 50 def"},
		Private: []string{"/BlueValues [-10 0 700 710] def"}, Header: []string{"%%CreationDate: 1991-09-13 11:15:12 +0000 UTC"}}
	for _, c := range []string{"pfa", "bin", "pfb", "clear"} {
		if data, err := indep.WriteFont(spec, indep.Layout{Cont: c, LenIV: 4, Names: "RD", Enc: "std"}); err == nil {
			add("font-indep-"+c, "type1", data)
		}
	}
	// a font without an /Encoding entry between fonts that use StandardEncoding (read before and after it)
	if data, err := indep.WriteFont(spec, indep.Layout{Cont: "pfa", LenIV: 4, Names: "RD", Enc: "none"}); err == nil {
		add("font-indep-no-encoding", "type1", data)
	}
	if data, err := indep.WriteFont(spec, indep.Layout{Cont: "clear", LenIV: 4, Names: "bar", Enc: "std"}); err == nil {
		add("font-indep-clear-bar", "type1", data)
	}
	// the other line-end conventions (classic Mac: CR, DOS: CR LF), in the hexadecimal and in the binary form
	for _, c := range []string{"pfa", "bin"} {
		for _, el := range []string{"cr", "crlf"} {
			if data, err := indep.WriteFont(spec, indep.Layout{Cont: c, LenIV: 4, Names: "RD", Enc: "std", Eol: el}); err == nil {
				add("font-indep-"+c+"-"+el, "type1", data)
			}
		}
	}
	// the same under other names: the cipher text of the closing line end differs from font to font (a stray
	// cipher byte that happens to look like a number would vanish in the cleartomark of the trailer)
	for k, nm := range []string{"IndepA", "IndepBB", "IndepCCC"} {
		sp := *spec
		sp.FontName = nm
		sp.Private = append(append([]string{}, spec.Private...), fmt.Sprintf("/BlueShift %d def", k+5)) // inside the encrypted portion
		if data, err := indep.WriteFont(&sp, indep.Layout{Cont: "pfa", LenIV: 4, Names: "RD", Enc: "std", Eol: "crlf"}); err == nil {
			add(fmt.Sprintf("font-indep-pfa-crlf-%d", k+2), "type1", data)
		}
	}
	// charstrings that lean on the reader's scratch state (OtherSubrs results, flex points): the two
	// malformed ones come first, so that a run over the corpus meets them once before and once after
	// the fonts that fill that state (a leak from one read into the next changes what they give)
	{
		stdSubrs := [][]indep.Tok{
			{num(3), num(0), cmd("callothersubr"), cmd("pop"), cmd("pop"), cmd("setcurrentpoint"), cmd("return")},
			{num(0), num(1), cmd("callothersubr"), cmd("return")},
			{num(0), num(2), cmd("callothersubr"), cmd("return")},
			{cmd("return")}}
		flexBody := []indep.Tok{num(1), cmd("callsubr")}
		for _, d := range [][2]int64{{30, 0}, {5, -3}, {10, -7}, {15, 0}, {15, 0}, {10, 7}, {5, 3}} {
			flexBody = append(flexBody, num(d[0]), num(d[1]), cmd("rmoveto"), num(2), cmd("callsubr"))
		}
		head := []indep.Tok{num(20), num(600), cmd("hsbw"), num(100), num(200), cmd("rmoveto")}
		tail := []indep.Tok{cmd("closepath"), cmd("endchar")}
		cat := func(parts ...[]indep.Tok) []indep.Tok {
			var o []indep.Tok
			for _, q := range parts {
				o = append(o, q...)
			}
			return o
		}
		glyphs := []struct {
			name string
			toks []indep.Tok
		}{
			{"font-flex-end-without-start", cat(head, []indep.Tok{num(50), num(190), num(200), num(0), cmd("callsubr")}, tail)},
			{"font-pop-without-othersubr", cat(head, []indep.Tok{cmd("pop"), num(7), cmd("rlineto")}, tail)},
			{"font-complete-flex", cat(head, flexBody, []indep.Tok{num(50), num(190), num(200), num(0), cmd("callsubr")}, tail)},
			{"font-othersubr-result-unpopped", cat(head, []indep.Tok{num(3), num(1), num(3), cmd("callothersubr"), num(40), num(50), cmd("rlineto")}, tail)},
		}
		for _, g := range glyphs {
			sp := &indep.FontSpec{FontName: "Scratch", Glyphs: []string{".notdef", "A"}, Toks: map[string][]indep.Tok{
				".notdef": {num(0), num(250), cmd("hsbw"), cmd("endchar")}, "A": g.toks}, Subrs: stdSubrs,
				Info: spec.Info, Private: spec.Private}
			if data, err := indep.WriteFont(sp, indep.Layout{Cont: "pfa", LenIV: 4, Names: "RD", Enc: "std"}); err == nil {
				add(g.name, "type1", data)
			}
		}
	}
	// CMap files without the customary "12 dict begin ... end": the entries are defined in the
	// dictionary that was current, the procedure set's own (every reader has its own copy of it)
	add("cmap-unwrapped-h", "readcmap", []byte("/CIDInit /ProcSet findresource begin\nbegincmap\n/CMapName /Unwrapped-H def\n/CMapType 1 def\n"+
		"1 begincodespacerange <00> <FF> endcodespacerange\n1 begincidrange <20> <7E> 1 endcidrange\nendcmap\nCMapName currentdict /CMap defineresource pop\nend\n"))
	add("cmap-unwrapped-v", "readcmap", []byte("/CIDInit /ProcSet findresource begin\nbegincmap\n/CIDSystemInfo 3 dict dup begin /Registry (Adobe) def /Ordering (UCS) def /Supplement 0 def end def\n"+
		"/CMapName /Unwrapped-V def\n/CMapType 1 def\n/WMode 1 def\n1 begincodespacerange <00> <FF> endcodespacerange\n1 begincidchar <41> 7 endcidchar\nendcmap\n"+
		"CMapName currentdict /CMap defineresource pop\nend\n"))
	// a font program in the clear that closes its file the way an encrypted one does
	if data, err := indep.WriteFont(spec, indep.Layout{Cont: "clear", LenIV: 4, Names: "RD", Enc: "std"}); err == nil {
		add("font-clear-with-closefile", "type1", append(data, []byte("mark currentfile closefile\n"+strings.Repeat(strings.Repeat("0", 64)+"\n", 8)+"cleartomark\n")...))
	}
	return out
}

// Result is the outcome of one entry point on one reader.
type Result struct {
	Err    string // "" or the error text
	Digest string // canonical rendering of the result
	Panic  string
}

func dictDigest(d ps.Dict, depth int) string {
	var ks []string
	for k := range d {
		ks = append(ks, string(k))
	}
	sort.Strings(ks)
	var sb strings.Builder
	sb.WriteString("<<")
	for _, k := range ks {
		sb.WriteString("/" + k + " " + objDigest(d[ps.Name(k)], depth+1) + " ")
	}
	sb.WriteString(">>")
	return sb.String()
}

func objDigest(o ps.Object, depth int) string {
	if depth > 6 {
		return "..."
	}
	switch x := o.(type) {
	case nil:
		return "nil"
	case ps.Integer, ps.Real, ps.Boolean:
		return fmt.Sprint(x)
	case ps.Name:
		return "/" + string(x)
	case ps.Operator:
		return string(x)
	case ps.String:
		return fmt.Sprintf("%q", string(x))
	case ps.Array:
		var ss []string
		for _, e := range x {
			ss = append(ss, objDigest(e, depth+1))
		}
		return "[" + strings.Join(ss, " ") + "]"
	case ps.Procedure:
		var ss []string
		for _, e := range x {
			ss = append(ss, objDigest(e, depth+1))
		}
		return "{" + strings.Join(ss, " ") + "}"
	case ps.Dict:
		return dictDigest(x, depth)
	case *ps.CMapInfo:
		return fmt.Sprintf("cmapinfo%+v", *x)
	}
	return fmt.Sprintf("<%T>", o)
}

// RunExecuteCalls feeds the parts to one interpreter in consecutive Execute calls and renders the
// result as Run("execute", ...) does for the concatenation.
func RunExecuteCalls(parts [][]byte) (res Result) {
	defer func() {
		if p := recover(); p != nil {
			res.Panic = fmt.Sprint(p)
		}
	}()
	intp := ps.NewInterpreter()
	intp.MaxOps = 1000000
	for _, part := range parts {
		if err := intp.Execute(bytes.NewReader(part)); err != nil {
			res.Err = err.Error()
			break
		}
	}
	var ss []string
	for _, o := range intp.Stack {
		ss = append(ss, objDigest(o, 0))
	}
	res.Digest = fmt.Sprintf("stack[%s] user%s dsc%q dictstack=%d", strings.Join(ss, " "), dictDigest(intp.UserDict, 0), intp.DSC, len(intp.DictStack))
	return
}

// Run feeds r to the entry point and renders the result canonically.
func Run(entry string, r io.Reader) (res Result) {
	defer func() {
		if p := recover(); p != nil {
			res.Panic = fmt.Sprint(p)
		}
	}()
	switch entry {
	case "execute":
		intp := ps.NewInterpreter()
		intp.MaxOps = 1000000
		err := intp.Execute(r)
		if err != nil {
			res.Err = err.Error()
		}
		var ss []string
		for _, o := range intp.Stack {
			ss = append(ss, objDigest(o, 0))
		}
		res.Digest = fmt.Sprintf("stack[%s] user%s dsc%q dictstack=%d", strings.Join(ss, " "), dictDigest(intp.UserDict, 0), intp.DSC, len(intp.DictStack))
	case "readcmap":
		d, err := ps.ReadCMap(r)
		if err != nil {
			res.Err = err.Error()
			return
		}
		res.Digest = dictDigest(d, 0)
	case "type1":
		f, err := type1.Read(r)
		if err != nil {
			res.Err = err.Error()
			return
		}
		b, _ := jsonOf(fontgen.Project(f))
		res.Digest = string(b)
	case "afm":
		m, err := afm.Read(r)
		if err != nil {
			res.Err = err.Error()
			return
		}
		res.Digest = metricsDigest(m)
	case "pfbdecode":
		data, err := io.ReadAll(pfb.Decode(r))
		if err != nil {
			res.Err = err.Error()
		}
		res.Digest = fmt.Sprintf("%d bytes %x", len(data), data)
	default:
		res.Err = "unknown entry " + entry
	}
	return
}

func metricsDigest(m *afm.Metrics) string {
	var names []string
	for n := range m.Glyphs {
		names = append(names, n)
	}
	sort.Strings(names)
	var sb strings.Builder
	fmt.Fprintf(&sb, "%q %q %q %q %v %v %v %v %v %v %v %v|", m.FontName, m.FullName, m.Version, m.Notice, m.CapHeight, m.XHeight, m.Ascent, m.Descent,
		m.UnderlinePosition, m.UnderlineThickness, m.ItalicAngle, m.IsFixedPitch)
	for _, n := range names {
		g := m.Glyphs[n]
		var ls []string
		for k, v := range g.Ligatures {
			ls = append(ls, k+">"+v)
		}
		sort.Strings(ls)
		fmt.Fprintf(&sb, "%s:%v:%v:%v;", n, g.WidthX, g.BBox, ls)
	}
	fmt.Fprintf(&sb, "|%q|", m.Encoding)
	for _, k := range m.Kern {
		fmt.Fprintf(&sb, "%s,%s,%d;", k.Left, k.Right, k.Adjust)
	}
	return sb.String()
}

// Erroneous returns inputs that every reader must reject or end early on in the
// same way under every delivery: the outcome (error text and what was built up to
// the error) is part of the result that C12 speaks of.
func Erroneous(seed int64) []Input {
	var out []Input
	add := func(name, entry string, data []byte) { out = append(out, Input{name, entry, data}) }
	add("program-stray-gt", "execute", []byte("1 2 add > 3 4"))
	add("program-stray-gt-at-end", "execute", []byte("1 2 add >"))
	add("program-stray-gt-before-space", "execute", []byte("1 2 add > "))
	add("program-open-string-at-end", "execute", []byte("1 2 add (abc"))
	add("program-open-hex-at-end", "execute", []byte("1 2 add <41"))
	add("program-open-proc-at-end", "execute", []byte("1 2 add { 3"))
	add("program-typecheck", "execute", []byte("1 (x) add 5"))
	// not PostScript at all, handed to the readers that check the start of the input
	for k, txt := range []string{"", "x", "%", "ab", "%?", "hello, this is not a font", "StartFontMetrics 4.1", "\x80\x01\x05\x00\x00\x00hello", strings.Repeat("not a font ", 60)} {
		add(fmt.Sprintf("not-postscript-%d", k), "type1", []byte(txt))
	}
	all := All(seed)
	for _, in := range all {
		switch in.Name {
		case "cmap-small", "afm-small", "font-lib-pfa", "font-lib-pfb", "font-lib-binary", "font-indep-clear", "pfb-stream", "eexec-small-hex":
			for _, frac := range []int{35, 80, 97} {
				add(fmt.Sprintf("%s-truncated-%d%%", in.Name, frac), in.Entry, in.Data[:len(in.Data)*frac/100])
			}
		}
	}
	return out
}

// ObjDigest renders an object canonically (nested containers up to depth 6).
func ObjDigest(o ps.Object) string { return objDigest(o, 0) }
