package corpus

import "encoding/json"

func jsonOf(v any) ([]byte, error) { return json.Marshal(v) }
