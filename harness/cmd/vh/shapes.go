package main

import (
	"bytes"
	"encoding/json"
	"fmt"
	"math/big"
	"os"
	"os/exec"
	"runtime"
	"sort"
	"strings"
	"syscall"
	"time"

	"seehuhn.de/go/postscript/afm"
	"seehuhn.de/go/postscript/psenc"
	"seehuhn.de/go/postscript/type1"
	"vharness/indep"

	ps "seehuhn.de/go/postscript"

	"vharness/model"
)

func init() {
	register("run-shapes", runShapes)
	register("run-shape-child", runShapeChild)
}

func renderShape(shape string, n int) (string, error) {
	rep := strings.Repeat
	switch shape {
	case "nest-bind":
		return rep("{", n) + rep("}", n) + " bind", nil
	case "nest-exec":
		return rep("{", n) + " 1 " + rep("} exec ", n), nil
	case "nest-arrays":
		return rep("[", n) + rep("]", n), nil
	case "self-proc-exec":
		return "/p {p} def p", nil
	case "self-proc-nontail":
		return "/p {p 1} def p", nil
	case "xname-if-recursion":
		return "/f { true { f } 0 get if 1 } def f", nil
	case "xname-ifelse-recursion":
		return "/f { false { } { f } 0 get ifelse 1 } def f", nil
	case "xname-for-recursion":
		return "/f { 0 1 0 { f } 0 get for 1 } def f", nil
	case "proc-in-itself":
		return "/p {0 1} def /p load 0 /p load put p", nil
	case "dict-begin-loop":
		return "{currentdict begin} loop", nil
	case "push-loop":
		return "{1} loop", nil
	case "exec-chain":
		return "/a {b 1} def /b {a 2} def a", nil
	case "failing-handler":
		return "errordict /typecheck {1 (x) add} put 1 (x) add", nil
	case "handler-recursion":
		return "errordict /undefined {zzz} put zzz", nil
	case "long-string":
		return "(" + rep("x", n) + ") length", nil
	case "long-hex":
		return "<" + rep("00", n) + "> length", nil
	case "long-name":
		return "/" + rep("a", n) + " length", nil
	case "many-dicts":
		return rep("1 dict begin ", min(n, 100000)), nil
	case "cvx-nest-bind":
		// nesting built at run time, one level per iteration, then bound
		return fmt.Sprintf("{} %d { [ exch ] cvx } repeat bind", n), nil
	case "bind-shared":
		return fmt.Sprintf("{} %d { [ exch dup ] cvx } repeat bind", min(n, 900)), nil
	case "bind-self-multi":
		k := min(n, 24)
		return fmt.Sprintf("/p {%s} def 0 1 %d {/p load exch /p load put} for /p load bind", rep("0 ", k), k-1), nil
	case "alias-cycle":
		return "/a {a} 0 get def a", nil
	case "alias-cycle-2":
		return "/a {b} 0 get def /b {a} 0 get def b", nil
	case "default-handler":
		return "errordict /typecheck get exec", nil
	case "big-for":
		return fmt.Sprintf("0 1 %d {} for", n), nil
	case "deep-parens":
		return rep("(", n) + rep(")", n), nil
	case "unbalanced-close":
		return rep("}", n), nil
	case "copy-huge":
		return fmt.Sprintf("1 2 3 %d copy", 9223372036854775807-int64(n)), nil
	case "roll-huge":
		return fmt.Sprintf("1 2 3 3 %d roll", 9223372036854775807-int64(n)), nil
	}
	return "", fmt.Errorf("unknown shape %q", shape)
}

// renderT1Shape builds size-parameterised hostile fonts with the independent writer.
func renderT1Shape(shape string, n int) ([]byte, error) {
	num := func(v int64) indep.Tok { return indep.Tok{T: "n", V: v} }
	cmd := func(c string) indep.Tok { return indep.Tok{T: "c", C: c} }
	spec := &indep.FontSpec{FontName: "Shape", Toks: map[string][]indep.Tok{}, Subrs: [][]indep.Tok{{cmd("return")}, {cmd("return")}, {cmd("return")}, {cmd("return")}},
		Info:    []string{"/version (1) readonly def", "/FullName (S) readonly def", "/FamilyName (S) readonly def", "/Weight (R) readonly def", "/ItalicAngle 0 def", "/isFixedPitch false def", "/UnderlinePosition -100 def", "/UnderlineThickness 50 def"},
		Private: []string{"/BlueValues [-10 0 700 710] def"}}
	addg := func(name string, t []indep.Tok) {
		spec.Glyphs = append(spec.Glyphs, name)
		spec.Toks[name] = t
	}
	addg(".notdef", []indep.Tok{num(0), num(250), cmd("hsbw"), cmd("endchar")})
	// the glyph names of StandardEncoding with their codes, in sorted order
	type sn struct {
		name string
		code int
	}
	var std []sn
	seen := map[string]bool{}
	for c, nm := range psenc.StandardEncoding {
		if nm != ".notdef" && !seen[nm] {
			seen[nm] = true
			std = append(std, sn{nm, c})
		}
	}
	sort.Slice(std, func(i, j int) bool { return std[i].name < std[j].name })
	switch shape {
	case "t1-seac-chain":
		// every glyph is the composite of its predecessor with itself: resolved naively in
		// name order, the outline doubles at every step
		k := min(n, len(std))
		addg(std[0].name, []indep.Tok{num(10), num(500), cmd("hsbw"), num(10), num(0), cmd("rmoveto"), num(100), cmd("hlineto"), num(100), cmd("vlineto"), cmd("closepath"), cmd("endchar")})
		for i := 1; i < k; i++ {
			addg(std[i].name, []indep.Tok{num(10), num(500), cmd("hsbw"), num(10), num(1), num(1), num(int64(std[i-1].code)), num(int64(std[i-1].code)), cmd("seac")})
		}
	case "t1-seac-self":
		// composites of themselves and of each other
		addg(std[0].name, []indep.Tok{num(10), num(500), cmd("hsbw"), num(10), num(1), num(1), num(int64(std[0].code)), num(int64(std[0].code)), cmd("seac")})
		addg(std[1].name, []indep.Tok{num(10), num(500), cmd("hsbw"), num(10), num(1), num(1), num(int64(std[2].code)), num(int64(std[2].code)), cmd("seac")})
		addg(std[2].name, []indep.Tok{num(10), num(500), cmd("hsbw"), num(10), num(1), num(1), num(int64(std[1].code)), num(int64(std[1].code)), cmd("seac")})
	case "t1-seac-codes":
		// composites whose base / accent codes are unassigned in StandardEncoding (or out of range),
		// in a font without an encoding array, with the standard one, and with a custom one
		addg("A", []indep.Tok{num(10), num(500), cmd("hsbw"), num(10), num(0), cmd("rmoveto"), num(100), cmd("hlineto"), cmd("closepath"), cmd("endchar")})
		codes := []int64{0, 31, 127, 160, 255, 65, 256, -1, 1000000}
		for i, c := range codes {
			addg(std[10+i].name, []indep.Tok{num(10), num(500), cmd("hsbw"), num(10), num(1), num(1), num(c), num(codes[(i+3)%len(codes)]), cmd("seac")})
		}
		enc := []string{"none", "std", "custom"}[len(fmt.Sprint(n))%3]
		if enc == "custom" {
			spec.Encoding = map[int]string{65: "A", 0: "A"}
		}
		return indep.WriteFont(spec, indep.Layout{Cont: "clear", LenIV: 4, Names: "RD", Enc: enc})
	default:
		return nil, fmt.Errorf("unknown shape %q", shape)
	}
	return indep.WriteFont(spec, indep.Layout{Cont: "clear", LenIV: 4, Names: "RD", Enc: "std"})
}

// renderAFMShape: AFM files in which one of the lines that announce a number of entries carries a
// count of about 2^e (the entries themselves are two or three).
func renderAFMShape(shape string, e int) [][]byte {
	one := new(big.Int).Lsh(big.NewInt(1), uint(e))
	counts := []string{new(big.Int).Sub(one, big.NewInt(1)).String(), one.String(), new(big.Int).Neg(one).String()}
	var out [][]byte
	for _, kw := range []string{"StartCharMetrics", "StartKernPairs", "StartKernPairs0", "StartKernPairs1", "StartTrackKern", "StartComposites"} {
		for _, c := range counts {
			n := map[string]string{"StartCharMetrics": "2", "StartKernPairs": "2", "StartKernPairs0": "2", "StartKernPairs1": "2", "StartTrackKern": "1", "StartComposites": "1"}
			n[kw] = c
			var sb strings.Builder
			sb.WriteString("StartFontMetrics 4.1\nFontName Counts\nFullName Counts\nFamilyName Counts\nWeight Regular\nItalicAngle 0\nIsFixedPitch false\n")
			sb.WriteString("StartCharMetrics " + n["StartCharMetrics"] + "\nC 65 ; WX 600 ; N A ; B 0 0 500 700 ;\nC 66 ; WX 610 ; N B ; B 0 0 510 700 ;\nEndCharMetrics\n")
			sb.WriteString("StartKernData\n")
			sb.WriteString("StartTrackKern " + n["StartTrackKern"] + "\nTrackKern 0 8 0 72 0\nEndTrackKern\n")
			pairs := "KPX A B -30\nKPX B A -20\n"
			switch kw {
			case "StartKernPairs0":
				sb.WriteString("StartKernPairs0 " + c + "\n" + pairs + "EndKernPairs\n")
			case "StartKernPairs1":
				sb.WriteString("StartKernPairs1 " + c + "\n" + pairs + "EndKernPairs\n")
			default:
				sb.WriteString("StartKernPairs " + n["StartKernPairs"] + "\n" + pairs + "EndKernPairs\n")
			}
			sb.WriteString("EndKernData\n")
			sb.WriteString("StartComposites " + n["StartComposites"] + "\nCC Aacute 2 ; PCC A 0 0 ; PCC B 100 200 ;\nEndComposites\n")
			sb.WriteString("EndFontMetrics\n")
			out = append(out, []byte(sb.String()))
		}
	}
	return out
}

func firstCountLine(data []byte) string {
	for _, l := range strings.Split(string(data), "\n") {
		f := strings.Fields(l)
		if len(f) == 2 && strings.HasPrefix(f[0], "Start") && len(f[1]) > 4 {
			return l
		}
	}
	return ""
}

// depthLimited: the child reported an error after fewer than 100000 operations.
func depthLimited(out string) bool {
	var e bool
	var n int
	i := strings.Index(out, "returned err=")
	if i < 0 {
		return false
	}
	if _, err := fmt.Sscanf(out[i:], "returned err=%t numops=%d", &e, &n); err != nil {
		return false
	}
	return e && n < 100000
}

func shapeBudget(shape string, n int) int {
	if shape == "cvx-nest-bind" {
		return 12*n + 100 // enough to build all levels: the budget is the caller's choice
	}
	return 1000000
}

// runShapeChild <shape> <size> <maxops>: runs one shape in this process.
func runShapeChild(args []string) error {
	var n, maxops int
	fmt.Sscan(args[1], &n)
	fmt.Sscan(args[2], &maxops)
	// one absurd allocation must kill this child, not the machine
	var lim syscall.Rlimit
	lim.Cur, lim.Max = 6<<30, 6<<30
	syscall.Setrlimit(syscall.RLIMIT_AS, &lim)
	if strings.HasPrefix(args[0], "afm-") {
		// every file of the shape in turn; an allocation far beyond the size of the input is reported
		// like an abort (the address-space limit catches the really absurd ones)
		files := renderAFMShape(args[0], n)
		nerr := 0
		for _, data := range files {
			var m0, m1 runtime.MemStats
			runtime.ReadMemStats(&m0)
			_, e := afm.Read(bytes.NewReader(data))
			runtime.ReadMemStats(&m1)
			if e != nil {
				nerr++
			}
			if grown := m1.TotalAlloc - m0.TotalAlloc; grown > 64<<20 {
				fmt.Printf("absurd allocation: %d bytes allocated while reading %d bytes: %q\n", grown, len(data), firstCountLine(data))
				os.Exit(3)
			}
		}
		fmt.Printf("returned err=%v files=%d errors=%d\n", nerr > 0, len(files), nerr)
		return nil
	}
	if strings.HasPrefix(args[0], "t1-") {
		data, err := renderT1Shape(args[0], n)
		if err != nil {
			return err
		}
		f, e := type1.Read(bytes.NewReader(data))
		ncmd := 0
		if f != nil {
			for _, g := range f.Glyphs {
				ncmd += len(g.Cmds)
			}
		}
		fmt.Printf("returned err=%v path commands=%d\n", e != nil, ncmd)
		return nil
	}
	text, err := renderShape(args[0], n)
	if err != nil {
		return err
	}
	intp := ps.NewInterpreter()
	intp.MaxOps = maxops
	e := intp.ExecuteString(text)
	fmt.Printf("returned err=%v numops=%d\n", e != nil, intp.NumOps)
	return nil
}

// runShapes <vectors> : every (shape, size) in its own child process, so that a
// fatal runtime error (stack exhaustion, out of memory) is observed, not suffered.
func runShapes(args []string) error {
	type vec struct {
		Shape  string `json:"shape"`
		Size   int    `json:"size"`
		Expect string `json:"expect"`
	}
	sum := replaySummary{PerOp: map[string]int{}, PerOpOK: map[string]int{}, BySig: map[string]int{}}
	self, _ := os.Executable()
	seenShape := map[string]bool{}
	for _, path := range args {
		err := model.ReadVectors(path, func(line int, raw []byte) error {
			var v vec
			if err := json.Unmarshal(raw, &v); err != nil {
				return err
			}
			// shapes whose program does not depend on the size run once
			key := v.Shape
			if strings.HasPrefix(v.Shape, "afm-") {
				key += fmt.Sprint(v.Size)
			} else if strings.HasPrefix(v.Shape, "t1-") {
				if data, err := renderT1Shape(v.Shape, v.Size); err == nil {
					key += string(data)
				}
			} else if text, err := renderShape(v.Shape, v.Size); err == nil {
				key += text
			}
			if seenShape[key] {
				return nil
			}
			seenShape[key] = true
			sum.Vectors++
			sum.PerOp[v.Shape]++
			cmd := exec.Command(self, "run-shape-child", v.Shape, fmt.Sprint(v.Size), fmt.Sprint(shapeBudget(v.Shape, v.Size)))
			cmd.Env = append(os.Environ(), "GOMEMLIMIT=8GiB")
			t0 := time.Now()
			done := make(chan error, 1)
			var out []byte
			go func() {
				var e error
				out, e = cmd.CombinedOutput()
				done <- e
			}()
			var e error
			timedOut := false
			select {
			case e = <-done:
			case <-time.After(120 * time.Second):
				timedOut = true
				cmd.Process.Kill()
				<-done
			}
			stim := fmt.Sprintf("shape %s size %d (MaxOps=%d)", v.Shape, v.Size, shapeBudget(v.Shape, v.Size))
			if timedOut {
				sig := "shape " + v.Shape + " hang"
				sum.NDisagree++
				sum.BySig[sig]++
				sum.Disagreements = append(sum.Disagreements, disagreement{Sig: sig, What: "the call did not return within 120 s", Stimulus: stim, Expected: "returns", Observed: "still running"})
			} else if e != nil || !strings.Contains(string(out), "returned err=") {
				sig := "shape " + v.Shape + " process-abort"
				first := strings.SplitN(string(out), "\n", 3)
				obs := strings.Join(first[:min(2, len(first))], " / ")
				sum.NDisagree++
				sum.BySig[sig]++
				sum.Disagreements = append(sum.Disagreements, disagreement{Sig: sig, What: "the process was aborted (panic or fatal runtime error)", Stimulus: stim, Expected: "returns", Observed: fmt.Sprintf("%v: %s", e, obs)})
			} else if v.Expect == "depth-limit" && !depthLimited(string(out)) {
				sig := "shape " + v.Shape + " not cut off by the nesting limit"
				sum.NDisagree++
				sum.BySig[sig]++
				sum.Disagreements = append(sum.Disagreements, disagreement{Sig: sig, What: "recursion that is not in tail position ran until the operation budget stopped it",
					Stimulus: stim, Expected: "an error after a few hundred operations (nesting limit)", Observed: strings.TrimSpace(string(out))})
			} else {
				sum.Agreed++
				sum.PerOpOK[v.Shape]++
			}
			if len(sum.Samples) < 4 && v.Size > 100 {
				sum.Samples = append(sum.Samples, fmt.Sprintf("%s -> returned in %.2fs", stim, time.Since(t0).Seconds()))
			}
			return nil
		})
		if err != nil {
			return err
		}
	}
	sum.Distinct = sum.Vectors
	return emit(sum)
}
