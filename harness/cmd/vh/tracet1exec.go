package main

import (
	"bufio"
	"bytes"
	"encoding/json"
	"fmt"
	"math/rand"
	"os"

	"seehuhn.de/go/postscript/type1"

	"vharness/fontgen"
	"vharness/indep"
	"vharness/model"
)

func init() { register("trace-t1exec", traceT1Exec) }

func ints(b []byte) []int {
	o := make([]int, len(b))
	for i, c := range b {
		o[i] = int(c)
	}
	return o
}

func dy(f float64) model.Dyadic {
	d, err := model.DyadicFromFloat(f)
	if err != nil {
		return model.Dyadic{N: model.FromInt64(0)}
	}
	return d
}

// tokJSON renders a token of the independent tokenizer as a PSMachine token.
func tokJSON(t indep.PTok) (map[string]any, error) {
	switch t.K {
	case "int":
		return map[string]any{"t": "int", "i": model.FromInt64(t.I)}, nil
	case "real":
		return map[string]any{"t": "real", "r": dy(t.F)}, nil
	case "name":
		return map[string]any{"t": "name", "s": t.S}, nil
	case "xname":
		return map[string]any{"t": "xname", "s": t.S}, nil
	case "str":
		return map[string]any{"t": "strlit", "bytes": ints(t.Raw)}, nil
	case "raw":
		return map[string]any{"t": "raw", "bytes": ints(t.Raw)}, nil
	case "lbrace":
		return map[string]any{"t": "lbrace"}, nil
	case "rbrace":
		return map[string]any{"t": "rbrace"}, nil
	}
	return nil, fmt.Errorf("token kind %q", t.K)
}

// traceT1Exec <out.ndjson> <n> <seed>: small fonts written in the clear-text form; the
// event carries the program's tokens and what the font says (TraceT1Exec.tla runs the
// program on the specification's PostScript machine).
func traceT1Exec(args []string) error {
	var n int
	var seed int64
	fmt.Sscan(args[1], &n)
	fmt.Sscan(args[2], &seed)
	out, err := os.Create(args[0])
	if err != nil {
		return err
	}
	defer out.Close()
	w := bufio.NewWriterSize(out, 1<<20)
	defer w.Flush()
	enc := json.NewEncoder(w)
	rng := rand.New(rand.NewSource(seed))
	type fail struct{ Sig, What, Stim string }
	var fails []fail
	events := 0
	encs := []string{"std-subset", "custom", "none", "holes", "std-plus"}
	for i := 0; i < n; i++ {
		o := fontgen.Opts{NGlyphs: 1 + i%3, Encoding: encs[i%5], HardString: i%2 == 1, NonDefault: i%3 == 2, Zone: []string{"none", "utc"}[i%2], Fractional: i%4 == 3}
		f := fontgen.Generate(rng, o)
		stim := fmt.Sprintf("font #%d seed %d %+v", i, seed, o)
		var buf bytes.Buffer
		if err := f.Write(&buf, &type1.WriterOptions{Format: type1.FormatNoEExec}); err != nil {
			fails = append(fails, fail{"t1exec: write fails", err.Error(), stim})
			continue
		}
		ap, err := indep.TakeApart(buf.Bytes())
		if err != nil {
			fails = append(fails, fail{"t1exec: output cannot be taken apart by an independent decoder", err.Error(), stim})
			continue
		}
		var toks []map[string]any
		bad := false
		for _, t := range ap.Tokens {
			j, err := tokJSON(t)
			if err != nil {
				fails = append(fails, fail{"t1exec: token", err.Error(), stim})
				bad = true
				break
			}
			toks = append(toks, j)
		}
		if bad {
			continue
		}
		glyphs := map[string][]int{}
		for name, cs := range ap.Glyphs {
			glyphs[name] = ints(cs)
		}
		if len(glyphs) != len(f.Glyphs) {
			fails = append(fails, fail{"t1exec: glyph set differs", fmt.Sprintf("%d in the file, %d in the font", len(glyphs), len(f.Glyphs)), stim})
			continue
		}
		encWant := []string{}
		if len(f.Encoding) == 256 {
			encWant = f.Encoding
		}
		matrix := make([]model.Dyadic, 6)
		for k := range matrix {
			matrix[k] = dy(f.FontMatrix[k])
		}
		parrs := map[string][]model.Dyadic{"BlueValues": {}, "OtherBlues": {}, "StdHW": {}, "StdVW": {}}
		for _, x := range f.Private.BlueValues {
			parrs["BlueValues"] = append(parrs["BlueValues"], dy(float64(x)))
		}
		for _, x := range f.Private.OtherBlues {
			parrs["OtherBlues"] = append(parrs["OtherBlues"], dy(float64(x)))
		}
		if f.Private.StdHW != 0 {
			parrs["StdHW"] = []model.Dyadic{dy(f.Private.StdHW)}
		}
		if f.Private.StdVW != 0 {
			parrs["StdVW"] = []model.Dyadic{dy(f.Private.StdVW)}
		}
		pnums := map[string]model.Dyadic{"password": dy(5839)}
		if f.Private.BlueScale < 0.039624 || f.Private.BlueScale > 0.039626 {
			pnums["BlueScale"] = dy(f.Private.BlueScale)
		}
		if f.Private.BlueShift != 7 {
			pnums["BlueShift"] = dy(float64(f.Private.BlueShift))
		}
		if f.Private.BlueFuzz != 1 {
			pnums["BlueFuzz"] = dy(float64(f.Private.BlueFuzz))
		}
		want := map[string]any{
			"name":   f.FontName,
			"matrix": matrix,
			"enc":    encWant,
			"strs": map[string][]int{"version": ints([]byte(f.Version)), "FullName": ints([]byte(f.FullName)),
				"FamilyName": ints([]byte(f.FamilyName)), "Weight": ints([]byte(f.Weight))},
			"optstrs": map[string][]int{"Notice": ints([]byte(f.Notice)), "Copyright": ints([]byte(f.Copyright))},
			"nums": map[string]model.Dyadic{"ItalicAngle": dy(f.ItalicAngle), "UnderlinePosition": dy(float64(f.UnderlinePosition)),
				"UnderlineThickness": dy(float64(f.UnderlineThickness))},
			"fixed": f.IsFixedPitch, "pnums": pnums, "parrs": parrs, "forcebold": f.Private.ForceBold,
			"nsubrs": len(ap.Subrs), "glyphs": glyphs,
		}
		events++
		if err := enc.Encode(map[string]any{"ev": "exec", "id": i, "fmt": "noeexec", "opts": fmt.Sprintf("%+v", o), "toks": toks,
			"fuel": 40*len(toks) + 4000, "want": want}); err != nil {
			return err
		}
	}
	return emit(map[string]any{"events": events, "fonts": n, "failures": fails,
		"axes": []string{fmt.Sprintf("%d small fonts in the clear-text form, executed by PSMachine", n)}})
}
