package main

import (
	"bufio"
	"bytes"
	"encoding/json"
	"fmt"
	"math/rand"
	"os"

	"seehuhn.de/go/postscript/type1"

	"vharness/fontgen"
)

func init() { register("cycle-t1", cycleT1) }

var t1Formats = []struct {
	name string
	f    type1.FileFormat
}{{"pfa", type1.FormatPFA}, {"pfb", type1.FormatPFB}, {"binary", type1.FormatBinary}, {"noeexec", type1.FormatNoEExec}}

func writeRead(f *type1.Font, ff type1.FileFormat) (g *type1.Font, werr, rerr error, pan any) {
	defer func() {
		if r := recover(); r != nil {
			pan = r
		}
	}()
	var buf bytes.Buffer
	werr = f.Write(&buf, &type1.WriterOptions{Format: ff})
	if werr != nil {
		return
	}
	g, rerr = type1.Read(bytes.NewReader(buf.Bytes()))
	return
}

// cycleT1 <out.ndjson> <nfonts> <seed>: C09 histories (generated font, format,
// font read back).  Failures that are not relation failures (write error, read
// error, panic) are reported directly.
func cycleT1(args []string) error {
	var n int
	var seed int64
	fmt.Sscan(args[1], &n)
	fmt.Sscan(args[2], &seed)
	out, err := os.Create(args[0])
	if err != nil {
		return err
	}
	defer out.Close()
	w := bufio.NewWriterSize(out, 1<<20)
	defer w.Flush()
	enc := json.NewEncoder(w)
	rng := rand.New(rand.NewSource(seed))
	type fail struct {
		Sig, What, Stim string
	}
	var fails []fail
	events := 0
	var axes []string
	shapes := map[string]int{}
	encs := []string{"none", "std-subset", "custom", "holes", "std-plus"}
	zones := []string{"none", "utc", "named", "unnamed"}
	for i := 0; i < n; i++ {
		o := fontgen.Opts{
			NGlyphs:    []int{1, 2, 5, 17, 60}[i%5],
			Fractional: i%3 == 1,
			Encoding:   encs[(i+i/5)%5],
			HardString: i%2 == 1,
			Zone:       zones[(i/4)%4],
			NonDefault: i%7 < 3,
			LongPaths:  i%11 == 5,
			BigFrac:    i%3 == 1 && i%4 == 1,
		}
		if i == n-1 && n > 20 {
			o.NGlyphs = 300
		}
		if i == n-2 && n > 20 {
			o.NGlyphs, o.Huge, o.Fractional = 40, true, false
		}
		f := fontgen.Generate(rng, o)
		fontgen.SegmentShapes(f, shapes)
		stim := fmt.Sprintf("font #%d seed %d %+v", i, seed, o)
		axes = append(axes, fmt.Sprintf("%+v", o))
		pa := fontgen.Project(f)
		for _, ft := range t1Formats {
			g, werr, rerr, pan := writeRead(f, ft.f)
			switch {
			case pan != nil:
				fails = append(fails, fail{"cycle: panic in write/read", fmt.Sprintf("panic: %v", pan), stim + " format " + ft.name})
			case werr != nil:
				fails = append(fails, fail{"cycle: write error", werr.Error(), stim + " format " + ft.name})
			case rerr != nil:
				fails = append(fails, fail{"cycle: written font is rejected by the reader", rerr.Error(), stim + " format " + ft.name})
			default:
				events++
				if err := enc.Encode(map[string]any{"ev": "cycle", "fmt": ft.name, "id": i, "opts": fmt.Sprintf("%+v", o), "a": pa, "b": fontgen.Project(g)}); err != nil {
					return err
				}
			}
		}
	}
	return emit(map[string]any{"events": events, "fonts": n, "failures": fails, "axes": axes[:min(6, len(axes))],
		"shapes": shapes, "shapes_missing": missingShapes(shapes)})
}

func missingShapes(shapes map[string]int) []string {
	miss := []string{}
	for _, s := range fontgen.AllShapes() {
		if shapes[s] == 0 {
			miss = append(miss, s)
		}
	}
	return miss
}
