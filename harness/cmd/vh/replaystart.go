package main

import (
	"encoding/json"
	"errors"
	"fmt"
	"strings"

	ps "seehuhn.de/go/postscript"

	"vharness/model"
)

func init() { register("replay-start", replayStart) }

// inputs of the classes of PSStart.tla
var startInputs = map[string]string{
	"ps":     "%!PS-Adobe\n1",
	"pct":    "%?\n1",
	"digits": "12",
	"empty":  "",
	"one":    "%",
	"late":   " %!\n1",
}

func replayStart(args []string) error {
	type call struct {
		Cls    string `json:"cls"`
		Res    string `json:"res"`
		Check0 bool   `json:"check0"`
	}
	type vec struct {
		B1     *int   `json:"b1"`
		B2     *int   `json:"b2"`
		Res    string `json:"res"`
		Calls  []call `json:"calls"`
		Pushed int    `json:"pushed"`
		Check  bool   `json:"check"`
	}
	sum := replaySummary{PerOp: map[string]int{}, PerOpOK: map[string]int{}, BySig: map[string]int{}}
	add := func(sig, what, stim, exp, obs string) {
		sum.NDisagree++
		sum.BySig[sig]++
		if sum.BySig[sig] <= 2 {
			sum.Disagreements = append(sum.Disagreements, disagreement{Sig: sig, What: what, Stimulus: stim, Expected: exp, Observed: obs})
		}
	}
	for _, path := range args {
		err := model.ReadVectors(path, func(line int, raw []byte) error {
			var v vec
			if err := json.Unmarshal(raw, &v); err != nil {
				return err
			}
			sum.Vectors++
			if v.B1 != nil {
				// family "pairs": the two bytes, then a line end and a token
				in := string([]byte{byte(*v.B1), byte(*v.B2)}) + "\n"
				stim := fmt.Sprintf("CheckStart=true, input starts with bytes %d %d", *v.B1, *v.B2)
				intp := ps.NewInterpreter()
				intp.CheckStart = true
				intp.MaxOps = 1000
				var err error
				func() {
					defer func() {
						if r := recover(); r != nil {
							err = fmt.Errorf("panic: %v", r)
						}
					}()
					err = intp.Execute(strings.NewReader(in))
				}()
				sum.PerOp["pairs"]++
				if v.Res == "notps" {
					sum.ExpectError++
					if !errors.Is(err, ps.ErrNoPostScript) {
						add("start: non-%! prefix not rejected", "input not starting with %! must be rejected with ErrNoPostScript", stim, "ErrNoPostScript", fmt.Sprint(err))
					} else if intp.NumOps != 0 || len(intp.Stack) != 0 || !intp.CheckStart {
						add("start: rejected input had effects", "a rejected input must execute nothing", stim, "NumOps=0, empty stack, check still on", fmt.Sprintf("NumOps=%d stack=%d check=%v", intp.NumOps, len(intp.Stack), intp.CheckStart))
					} else {
						sum.Agreed++
					}
				} else {
					sum.ExpectOK++
					if err != nil || intp.CheckStart {
						add("start: %! rejected", "input starting with %! must pass the check and clear it", stim, "success, check off", fmt.Sprintf("%v check=%v", err, intp.CheckStart))
					} else {
						sum.Agreed++
					}
				}
				return nil
			}
			// family "hist"
			sum.PerOp["hist"]++
			intp := ps.NewInterpreter()
			intp.MaxOps = 1000
			if len(v.Calls) > 0 {
				intp.CheckStart = v.Calls[0].Check0
			}
			var names []string
			ok := true
			for i, c := range v.Calls {
				names = append(names, c.Cls)
				err := intp.Execute(strings.NewReader(startInputs[c.Cls]))
				stim := fmt.Sprintf("CheckStart=%v, calls %v", v.Calls[0].Check0, names)
				if c.Res == "notps" {
					if !errors.Is(err, ps.ErrNoPostScript) {
						add("start-history: call not rejected", "a call that fails the start check must return ErrNoPostScript", stim, "ErrNoPostScript at call "+fmt.Sprint(i+1), fmt.Sprint(err))
						ok = false
						break
					}
				} else if err != nil {
					add("start-history: call rejected", "a call must not be checked once the check has passed or when it is off", stim, "success at call "+fmt.Sprint(i+1), fmt.Sprint(err))
					ok = false
					break
				}
			}
			if ok {
				stim := fmt.Sprintf("CheckStart=%v, calls %v", v.Calls[0].Check0, names)
				if len(intp.Stack) != v.Pushed || intp.CheckStart != v.Check {
					add("start-history: final state", "executed input and flag after the history differ from the specification", stim, fmt.Sprintf("stack depth %d, check %v", v.Pushed, v.Check), fmt.Sprintf("stack depth %d, check %v", len(intp.Stack), intp.CheckStart))
				} else {
					sum.Agreed++
				}
			}
			if len(sum.Samples) < 3 && line%50 == 7 {
				sum.Samples = append(sum.Samples, fmt.Sprintf("CheckStart=%v calls %v => pushed %d check %v", v.Calls[0].Check0, names, v.Pushed, v.Check))
			}
			return nil
		})
		if err != nil {
			return err
		}
	}
	sum.Distinct = sum.Vectors
	return emit(sum)
}
