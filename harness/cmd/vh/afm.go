package main

import (
	"bufio"
	"bytes"
	"encoding/json"
	"flag"
	"fmt"
	"math/rand"
	"os"
	"path/filepath"
	"sort"
	"strconv"
	"strings"

	"seehuhn.de/go/postscript/afm"

	"vharness/afmx"
	"vharness/model"
)

func init() {
	register("afm-mbt", afmMBT)
	register("afm-cycle", afmCycle)
}

type afmVector struct {
	M   afmx.AM     `json:"m"`
	Lay afmx.Layout `json:"lay"`
	// Expect replaces m as the prescribed outcome (negative control only).
	Expect *afmx.AM `json:"expect,omitempty"`
}

// SigVersionNotice is the signature of defect A-1.
const sigVersionNotice = "afm write: Version/Notice dropped"

func afmWrite(m *afm.Metrics) (out []byte, err error) {
	defer func() {
		if r := recover(); r != nil {
			err = fmt.Errorf("panic: %v", r)
		}
	}()
	var buf bytes.Buffer
	err = m.Write(&buf)
	return buf.Bytes(), err
}

func afmRead(text []byte) (m *afm.Metrics, err error) {
	defer func() {
		if r := recover(); r != nil {
			err = fmt.Errorf("panic: %v", r)
		}
	}()
	return afm.Read(bytes.NewReader(text))
}

func describeAM(a *afmx.AM) string {
	b, _ := json.Marshal(a)
	return string(b)
}

// afmMBT [-trace FILE] [-trace-every N] [-skip-a] VECTORS...
//
// (a) build *afm.Metrics from the model, Write, Read, compare with the model;
// (b) lay the model out with the independent writer, Read, compare;
// and record, for the specification's reader (AFMFormat.tla), the line
// events of the library's text (kind "lib", C15 d) and of the independent
// text (kind "indep", self-test of the layout writer).
func afmMBT(args []string) error {
	fs := flag.NewFlagSet("afm-mbt", flag.ContinueOnError)
	tracePath := fs.String("trace", "", "write line-event traces here")
	traceEvery := fs.Int("trace-every", 1, "trace only every n-th vector")
	skipA := fs.Bool("skip-a", false, "write/read only for the first vector (fixed model)")
	perVector := fs.Bool("per-vector", false, "list the signatures of every vector (negative control)")
	if err := fs.Parse(args); err != nil {
		return err
	}
	var tw *bufio.Writer
	if *tracePath != "" {
		f, err := os.Create(*tracePath)
		if err != nil {
			return err
		}
		defer f.Close()
		tw = bufio.NewWriterSize(f, 1<<20)
		defer tw.Flush()
	}
	sum := replaySummary{PerOp: map[string]int{}, PerOpOK: map[string]int{}, BySig: map[string]int{}}
	var perVec [][]string
	add := func(sig, what, stim, exp, obs string, line int) {
		if *perVector {
			perVec[len(perVec)-1] = append(perVec[len(perVec)-1], sig)
		}
		sum.NDisagree++
		sum.BySig[sig]++
		if sum.BySig[sig] <= 2 {
			sum.Disagreements = append(sum.Disagreements, disagreement{Sig: sig, What: what, Stimulus: stim, Expected: exp, Observed: obs, Line: line})
		}
	}
	traceText := func(id int, kind string, m *afmx.AM, text []byte) error {
		if tw == nil {
			return nil
		}
		enc := json.NewEncoder(tw)
		if err := enc.Encode(map[string]any{"ev": "begin", "id": id, "kind": kind, "m": m}); err != nil {
			return err
		}
		for _, ev := range afmx.Tokenize(text) {
			if err := enc.Encode(ev); err != nil {
				return err
			}
		}
		return enc.Encode(map[string]any{"ev": "end"})
	}
	distinct := map[string]bool{}
	traced := 0
	for _, path := range fs.Args() {
		err := model.ReadVectors(path, func(line int, raw []byte) error {
			var v afmVector
			if err := json.Unmarshal(raw, &v); err != nil {
				return err
			}
			sum.Vectors++
			perVec = append(perVec, []string{})
			id := sum.Vectors
			want := &v.M
			if v.Expect != nil {
				want = v.Expect
			}
			doTrace := (id-1)%*traceEvery == 0
			ok := true
			// (a) library writer, library reader
			if !*skipA || id == 1 {
				sum.PerOp["write+read"]++
				text, err := afmWrite(afmx.Build(&v.M))
				stim := "Metrics.Write of " + describeAM(&v.M)
				if err != nil {
					add("afm write: error", "Metrics.Write failed on metrics inside the domain", stim, "success", err.Error(), line)
					ok = false
				} else {
					got, err := afmRead(text)
					if err != nil {
						add("afm write+read: own output rejected", "afm.Read rejects what Metrics.Write wrote", stim+"\n--- written ---\n"+string(text), "success", err.Error(), line)
						ok = false
					} else {
						for _, d := range afmx.Compare(want, got) {
							ok = false
							sig := "afm write+read: " + d.Class + " differs"
							what := "Read(Write(m)) differs from m in " + d.Class
							if (d.Class == "Version" || d.Class == "Notice") && !afmx.HasKey(text, d.Class) {
								sig = sigVersionNotice
								what = "Metrics.Write does not write the " + d.Class + " line, so the field is lost in a write/read cycle"
							}
							add(sig, what, stim+"\n--- written ---\n"+string(text), d.Expected, d.Observed, line)
						}
					}
					if doTrace {
						if err := traceText(id, "lib", &v.M, text); err != nil {
							return err
						}
						traced++
					}
				}
			}
			// (b) independent writer, library reader
			sum.PerOp["layout+read"]++
			text := afmx.Render(&v.M, &v.Lay, nil)
			distinct[string(text)] = true
			lj, _ := json.Marshal(v.Lay)
			stim := fmt.Sprintf("afm.Read of %q (layout %s)", text, lj)
			got, err := afmRead(text)
			if err != nil {
				add("afm read (independent layout): rejected", "afm.Read rejects an AFM text inside the domain", stim, "success", err.Error(), line)
				ok = false
			} else {
				for _, d := range afmx.Compare(want, got) {
					ok = false
					add("afm read (independent layout): "+d.Class+" differs", "afm.Read understands "+d.Class+" differently from what the file says",
						stim, d.Expected, d.Observed, line)
				}
			}
			if doTrace {
				if err := traceText(id, "indep", &v.M, text); err != nil {
					return err
				}
				traced++
			}
			if ok {
				sum.Agreed++
			}
			if len(sum.Samples) < 2 && id%97 == 3 {
				sum.Samples = append(sum.Samples, fmt.Sprintf("%q", text))
			}
			return nil
		})
		if err != nil {
			return err
		}
	}
	sum.Distinct = len(distinct)
	sum.ExpectOK = sum.Vectors
	sum.PerOp["traced-texts"] = traced
	if *perVector {
		return emit(struct {
			replaySummary
			PerVector [][]string `json:"per_vector"`
		}{sum, perVec})
	}
	return emit(sum)
}

// ---------------------------------------------------------------- cycles

var floatSpells = []string{"0.5", "-0.5", "1.5", "2.5", "-1.5", "-2.5", "0.25", "3.999", "-3.001", "1e3", "1E+2",
	"12345678901234", "1e18", "9007199254740993", "-9223372036854775808", "9223372036854775807", "1e19", "1e30", "-1e30",
	"-0", "-0.0", "0.0", ".5", "5.", "+7", "1e-7", "0.1", "-0.49999", "0.49999999999999994", "32767.5",
	"NaN", "Inf", "-Inf", "+Inf", "0x1p-1", "1_000"}
var intSpells = []string{"70000", "-40000", "+5", "-0", "007", "2147483648", "99999999999", "32768", "-32769", "65536"}
var codeSpells = []string{"256", "-5", "300", "0065", "+65", "-1", "255"}

// extra texts the reader accepts although they are outside the subset of
// AFMFormat: the closure property holds for "any input the reader accepts".
var afmOddTexts = []string{
	"StartCharMetrics 1\nC 65 ; WX 500 ; N A ; B 0 0 1e19 1 ;\nEndCharMetrics\n",
	"StartCharMetrics 1\nC 65 ; WX 500 ; N A ; B NaN 0 1 1 ;\nEndCharMetrics\n",
	"StartCharMetrics 1\nC 65 ; WX 500 ; N A ; B 0.5 -0.5 1.5 2.25 ;\nEndCharMetrics\n",
	"CapHeight 0.5\nXHeight NaN\nAscender 1e30\nDescender -Inf\nItalicAngle 0.01\n",
	"StartCharMetrics 2\nC 65 ; WX 500 ; N A ; B 0 0 1 1 ;\nC 65 ; WX 600 ; N B ; B 0 0 2 2 ;\nEndCharMetrics\n",
	"StartCharMetrics 2\nC 65 ; WX 500 ; N A ; B 0 0 1 1 ;\nC 66 ; WX 600 ; N A ; B 0 0 2 2 ;\nEndCharMetrics\n",
	"StartCharMetrics 1\nC 5 ; WX 500 ; N .notdef ; B 0 0 1 1 ;\nC 0 ; WX 1 ; N A ;\nEndCharMetrics\n",
	"FontName A B\nFullName  A   B \nVersion 1  2\nNotice a\tb\nStartCharMetrics 1\nN x ; L a b c ; L a d ; B 1 2 3 ;\nEndCharMetrics\n",
	"StartCharMetrics 1\nCH <41> ; WX 5 ; N A B ;\nEndCharMetrics\nKPX A A 5\nStartKernPairs\nStartKernPairs 1\nKPX A A 5\nKPX A A\nEndKernPairs\nKPX A A 7\n",
	"StartCharMetrics 1\nC 1 ; N a\n EndCharMetrics\nStartKernPairs 1\nKPX a a 1\nEndKernPairs\nCapHeight 3.5\n",
	"IsFixedPitch TRUE\nIsFixedPitch true false\nItalicAngle -12.5\nCapHeight 0.5\nXHeight 1.5\nAscender 2.5\nDescender -0.5\nUnderlinePosition -1.5\nUnderlineThickness 1e2\n",
	"StartCharMetrics 3\nC -1 ; WX 0 ; N a ; B 0.5 0.5 0.5 0.5 ;\nC -1 ; WX 0 ; N b ; B -0.5 -1.5 -2.5 -3.5 ;\nC -1 ; WX 0 ; N c ; B 1e15 -1e15 1e16 1e17 ;\nEndCharMetrics",
	"StartCharMetrics 1\r\nC 65 ; WX 1 ; N A ; L B C ; L D E ; L F G ; L H I ;\r\nEndCharMetrics\r\nStartKernData\r\nStartKernPairs 2\r\nKPX A A -1\r\nKPX A A -1\r\nEndKernPairs\r\nEndKernData\r\nEndFontMetrics\r\n",
	"StartCharMetrics 1\nC 65 ; WX 1 ; N EndCharMetrics ;\nEndCharMetricsX\nFontName afterwards\n",
	"Version\nNotice\nFontName\nFullName\nFullName X\n",
	"FontName F\nFullName Some Family Bold Italic\nVersion 001.000\nNotice Copyright (c) Someone\nEndFontMetrics\n",
}

func loadFuzzSeeds(dir string) []string {
	var out []string
	files, _ := filepath.Glob(filepath.Join(dir, "*"))
	sort.Strings(files)
	for _, f := range files {
		data, err := os.ReadFile(f)
		if err != nil {
			continue
		}
		for _, ln := range strings.Split(string(data), "\n") {
			ln = strings.TrimSpace(ln)
			if strings.HasPrefix(ln, "[]byte(") && strings.HasSuffix(ln, ")") {
				if s, err := strconv.Unquote(ln[len("[]byte(") : len(ln)-1]); err == nil {
					out = append(out, s)
				}
			}
		}
	}
	return out
}

// afmCycle -hist FILE -texts FILE [-seeds DIR] [-variants N] [-seed S] VECTORS...
//
// Records histories text -> m0 -> m1 -> m2 of the library for AFMCycle.tla.
func afmCycle(args []string) error {
	fs := flag.NewFlagSet("afm-cycle", flag.ContinueOnError)
	histPath := fs.String("hist", "", "histories (ndjson) for TraceAFMCycle")
	textsPath := fs.String("texts", "", "the input text of every history (ndjson)")
	seedsDir := fs.String("seeds", "", "directory with go fuzz seed files")
	variants := fs.Int("variants", 2, "out-of-domain variants per vector")
	seed := fs.Int64("seed", 1, "seed")
	maxVec := fs.Int("max", 0, "use at most this many vectors (0 = all)")
	if err := fs.Parse(args); err != nil {
		return err
	}
	hf, err := os.Create(*histPath)
	if err != nil {
		return err
	}
	defer hf.Close()
	hw := bufio.NewWriterSize(hf, 1<<20)
	defer hw.Flush()
	tf, err := os.Create(*textsPath)
	if err != nil {
		return err
	}
	defer tf.Close()
	txw := bufio.NewWriterSize(tf, 1<<20)
	defer txw.Flush()
	henc := json.NewEncoder(hw)
	tenc := json.NewEncoder(txw)

	rng := rand.New(rand.NewSource(*seed))
	res := map[string]any{}
	nHist, nRejected, nSeeds, nOwnRejected := 0, 0, 0, 0
	var ownRejected []string
	bySource := map[string]int{}
	distinct := map[string]bool{}

	run := func(source string, text []byte) error {
		if distinct[string(text)] {
			return nil
		}
		distinct[string(text)] = true
		m0, err := afmRead(text)
		if err != nil || m0 == nil {
			nRejected++
			return nil
		}
		t1, err := afmWrite(m0)
		var m1, m2 *afm.Metrics
		var t2 []byte
		if err == nil {
			m1, err = afmRead(t1)
		}
		if err == nil {
			t2, err = afmWrite(m1)
		}
		if err == nil {
			m2, err = afmRead(t2)
		}
		if err != nil {
			nOwnRejected++
			if len(ownRejected) < 3 {
				ownRejected = append(ownRejected, fmt.Sprintf("%q: %v", text, err))
			}
			return nil
		}
		nHist++
		bySource[source]++
		id := nHist
		if err := henc.Encode(map[string]any{"id": id, "m0": afmx.Project(m0), "m1": afmx.Project(m1), "m2": afmx.Project(m2)}); err != nil {
			return err
		}
		return tenc.Encode(map[string]any{"id": id, "source": source, "text": string(text), "t1": string(t1), "t2": string(t2),
			"t1HasVersion": afmx.HasKey(t1, "Version"), "t1HasNotice": afmx.HasKey(t1, "Notice")})
	}

	if *seedsDir != "" {
		for _, s := range loadFuzzSeeds(*seedsDir) {
			nSeeds++
			if err := run("fuzz seed", []byte(s)); err != nil {
				return err
			}
		}
	}
	for _, s := range afmOddTexts {
		if err := run("odd text", []byte(s)); err != nil {
			return err
		}
	}
	nvec := 0
	for _, path := range fs.Args() {
		err := model.ReadVectors(path, func(line int, raw []byte) error {
			if *maxVec > 0 && nvec >= *maxVec {
				return nil
			}
			nvec++
			var v afmVector
			if err := json.Unmarshal(raw, &v); err != nil {
				return err
			}
			// the in-domain text, by both writers
			if err := run("independent layout", afmx.Render(&v.M, &v.Lay, nil)); err != nil {
				return err
			}
			if t, err := afmWrite(afmx.Build(&v.M)); err == nil {
				if err := run("library writer", t); err != nil {
					return err
				}
			}
			// out-of-domain numbers
			for k := 0; k < *variants; k++ {
				p := []float64{0.15, 0.5, 1.0}[k%3]
				spell := func(kind string, x int64) string {
					if rng.Float64() >= p {
						return strconv.FormatInt(x, 10)
					}
					switch kind {
					case "hdr", "box":
						return floatSpells[rng.Intn(len(floatSpells))]
					case "code":
						return codeSpells[rng.Intn(len(codeSpells))]
					default:
						if rng.Intn(3) > 0 {
							return strconv.FormatInt(x, 10)
						}
						return intSpells[rng.Intn(len(intSpells))]
					}
				}
				if err := run("out-of-domain numbers", afmx.Render(&v.M, &v.Lay, spell)); err != nil {
					return err
				}
			}
			return nil
		})
		if err != nil {
			return err
		}
	}
	res["histories"] = nHist
	res["rejected_inputs"] = nRejected
	res["fuzz_seeds"] = nSeeds
	res["own_output_rejected"] = nOwnRejected
	res["own_output_rejected_examples"] = ownRejected
	res["by_source"] = bySource
	return emit(res)
}
