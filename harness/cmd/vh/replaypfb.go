package main

import (
	"bufio"
	"bytes"
	"encoding/json"
	"errors"
	"flag"
	"fmt"
	"io"
	"math/rand"
	"os"
	"runtime"
	"sort"
	"sync"
	"sync/atomic"
	"time"

	"seehuhn.de/go/postscript/pfb"

	"vharness/model"
)

// C14: binding of spec/io/PFB.tla (contract of a PFB decoder) to pfb.Decode.
//
//	replay-pfb [-trace out.ndjson -every k] vectors...   MBT: vectors of MC_PFB.tla
//	record-pfb out.ndjson stimuli.ndjson                  replay of single stimuli, judged by TracePFB.tla
//	trace-pfb out.ndjson nstreams seed maxlen all|short  TV: records per-Read results for TracePFB.tla
func init() {
	register("replay-pfb", replayPFB)
	register("trace-pfb", tracePFB)
	register("record-pfb", recordPFB)
}

// recordPFB out.ndjson stimuli.ndjson: drives the decoder with the given
// stimuli (inp, caps, chunks, eofwd) and records the Read results as a
// TracePFB trace; no judgement is made here (replay of a reported violation).
func recordPFB(args []string) error {
	if len(args) < 2 {
		return fmt.Errorf("usage: record-pfb out.ndjson stimuli.ndjson")
	}
	f, err := os.Create(args[0])
	if err != nil {
		return err
	}
	defer f.Close()
	w := bufio.NewWriter(f)
	defer w.Flush()
	enc := json.NewEncoder(w)
	timer := time.NewTimer(time.Hour)
	n, hangs, panics := 0, 0, 0
	err = model.ReadVectors(args[1], func(line int, raw []byte) error {
		var v pfbVector
		if err := json.Unmarshal(raw, &v); err != nil {
			return err
		}
		run := drivePFBGuarded(pfbBytes(v.Inp), v.Caps, v.Chunks, v.EOFwd, 4, 3*time.Second, timer)
		if run.hang {
			hangs++
		}
		if run.panic != "" {
			panics++
		}
		n++
		if err := enc.Encode(map[string]any{"ev": "reset", "inp": v.Inp, "chunks": v.Chunks, "eofwd": v.EOFwd,
			"hang": run.hang, "panic": run.panic}); err != nil {
			return err
		}
		for i := range run.obs {
			o := run.obs[i]
			o.Out = pfbInts(o.raw)
			if err := enc.Encode(o); err != nil {
				return err
			}
		}
		return nil
	})
	if err != nil {
		return err
	}
	return emit(map[string]any{"streams": n, "hangs": hangs, "panics": panics})
}

// pfbVector is one line emitted by MC_PFB!Emit.
type pfbVector struct {
	Fam    string  `json:"fam"`
	Desc   [][]int `json:"desc"`
	Tail   string  `json:"tail"`
	Inp    []int   `json:"inp"`
	D      []int   `json:"D"`
	Term   string  `json:"term"`
	Caps   []int   `json:"caps"`
	Chunks []int   `json:"chunks"`
	EOFwd  bool    `json:"eofwd"`
	// family "big": the segments are described, not written out (header bytes from the
	// specification; payload byte i, counted from 1, is (a*i + c) % 256)
	Parts []struct {
		Hdr []int `json:"hdr"`
		Ty  int   `json:"ty"`
		N   int   `json:"n"`
		A   int   `json:"a"`
		C   int   `json:"c"`
	} `json:"parts"`
}

// expandBig writes out a described stream and what it decodes to.
func (v *pfbVector) expandBig() (inp, D []byte) {
	const hexd = "0123456789abcdef"
	for _, pt := range v.Parts {
		inp = append(inp, pfbBytes(pt.Hdr)...)
		at := len(inp)
		for i := 1; i <= pt.N; i++ {
			inp = append(inp, byte((pt.A*i+pt.C)%256))
		}
		if pt.Ty == 1 {
			D = append(D, inp[at:]...)
		} else {
			for _, b := range inp[at:] {
				D = append(D, hexd[b>>4], hexd[b&15])
			}
		}
	}
	if v.Tail == "marker" {
		inp = append(inp, 0x80, 3)
	}
	return inp, D
}

// scriptReader is the underlying io.Reader of a vector: call i hands out at
// most chunks[i mod len(chunks)] bytes; end of file comes together with the
// last bytes (eofWithData) or alone on the next call.
type scriptReader struct {
	data        []byte
	pos         int
	chunks      []int
	calls       int
	eofWithData bool
}

func (r *scriptReader) Read(p []byte) (int, error) {
	if len(p) == 0 {
		if r.pos >= len(r.data) && r.eofWithData {
			return 0, io.EOF
		}
		return 0, nil
	}
	if r.pos >= len(r.data) {
		return 0, io.EOF
	}
	c := 1
	if len(r.chunks) > 0 {
		c = r.chunks[r.calls%len(r.chunks)]
	}
	r.calls++
	if c < 1 {
		c = 1
	}
	if c > len(p) {
		c = len(p)
	}
	if c > len(r.data)-r.pos {
		c = len(r.data) - r.pos
	}
	copy(p, r.data[r.pos:r.pos+c])
	r.pos += c
	if r.pos == len(r.data) && r.eofWithData {
		return c, io.EOF
	}
	return c, nil
}

// pfbObs is what one Read call on the decoder returned.
type pfbObs struct {
	Ev  string `json:"ev"`
	Cap int    `json:"cap"`
	N   int    `json:"n"`
	Out []int  `json:"out"`
	Err string `json:"err"`
	raw []byte
	msg string
}

func pfbErrClass(err error) string {
	switch {
	case err == nil:
		return "nil"
	case err == io.EOF:
		return "eof"
	case errors.Is(err, pfb.ErrInvalidPFB):
		return "invalid"
	default:
		return "error"
	}
}

func pfbBytes(x []int) []byte {
	b := make([]byte, len(x))
	for i, v := range x {
		b[i] = byte(v)
	}
	return b
}

func pfbInts(b []byte) []int {
	x := make([]int, len(b))
	for i, v := range b {
		x[i] = int(v)
	}
	return x
}

type pfbRun struct {
	obs   []pfbObs
	panic string
	hang  bool
}

// drivePFB calls pfb.Decode(r).Read with exactly the given buffer sizes until
// a call returns an error; when the sizes run out it goes on with the last
// size for at most `extra` further calls.  A buffer is poisoned before each
// call; what lies beyond n is not looked at.
func drivePFB(inp []byte, caps, chunks []int, eofwd bool, extra int) (res pfbRun) {
	defer func() {
		if r := recover(); r != nil {
			res.panic = fmt.Sprint(r)
		}
	}()
	src := &scriptReader{data: inp, chunks: chunks, eofWithData: eofwd}
	dec := pfb.Decode(src)
	last := 1
	for i := 0; i < len(caps)+extra; i++ {
		c := last
		if i < len(caps) {
			c = caps[i]
			last = max(c, 1)
		}
		buf := make([]byte, c)
		for j := range buf {
			buf[j] = 0xEE
		}
		n, err := dec.Read(buf)
		o := pfbObs{Ev: "read", Cap: c, N: n, Err: pfbErrClass(err)}
		if err != nil {
			o.msg = err.Error()
		}
		if n >= 0 && n <= c {
			o.raw = buf[:n]
		} else {
			o.raw = buf
		}
		res.obs = append(res.obs, o)
		if err != nil {
			break
		}
	}
	return res
}

// drivePFBGuarded is drivePFB with a watchdog: a decoder that spins is
// reported, not waited for.
func drivePFBGuarded(inp []byte, caps, chunks []int, eofwd bool, extra int, limit time.Duration, timer *time.Timer) pfbRun {
	ch := make(chan pfbRun, 1)
	go func() { ch <- drivePFB(inp, caps, chunks, eofwd, extra) }()
	if !timer.Stop() {
		select {
		case <-timer.C:
		default:
		}
	}
	timer.Reset(limit)
	select {
	case r := <-ch:
		return r
	case <-timer.C:
	}
	// not back in time: give a loaded machine three times as long again before calling it a hang
	timer.Reset(3 * limit)
	select {
	case r := <-ch:
		return r
	case <-timer.C:
		return pfbRun{hang: true}
	}
}

// judgePFBRead is PFB!PfbReadOK, conjunct by conjunct, turned into a class
// signature for the first conjunct that fails ("" = the result is allowed).
func judgePFBRead(D []byte, term string, pos int, o *pfbObs) (sig, what string) {
	rem := len(D) - pos
	if o.N < 0 || o.N > o.Cap {
		return "pfb read: count out of range", "Read returned a count outside 0..len(p)"
	}
	if o.N > rem {
		if term == "invalid" {
			return "pfb header: accepted invalid", "bytes were delivered beyond a header with a wrong marker byte or unknown type"
		}
		return "pfb read: bytes beyond the content", "Read delivered more bytes than the stream contains"
	}
	for i := 0; i < o.N; i++ {
		if o.raw[i] != D[pos+i] {
			return "pfb read: wrong bytes", "the bytes delivered are not the next bytes of Decode(segments)"
		}
	}
	allowed := false
	switch term {
	case "eof":
		allowed = o.Err == "nil" || o.Err == "eof"
	case "invalid":
		allowed = o.Err == "nil" || o.Err == "invalid"
	case "error":
		allowed = o.Err == "nil" || o.Err == "error"
	case "open":
		allowed = o.Err != "invalid"
	}
	if !allowed {
		switch {
		case o.Err == "invalid":
			return "pfb header: rejected valid", "invalid-PFB error although every header has marker 0x80 and a type in 1..3"
		case term == "invalid" && o.Err == "eof":
			return "pfb header: accepted invalid", "a header with a wrong marker byte or unknown type ended in end-of-file instead of the invalid-PFB error"
		case term == "invalid":
			return "pfb header: wrong error class", "a header with a wrong marker byte or unknown type gave an error other than invalid-PFB"
		case term == "error" && o.Err == "eof":
			return "pfb short binary: clean EOF", "a binary segment shorter than its declared length ended in a clean end-of-file instead of an error"
		default:
			return "pfb read: unexpected error", "a well-formed stream gave an error"
		}
	}
	if o.Err == "nil" && o.N == 0 && o.Cap >= 1 {
		return "pfb read: no progress", "Read returned (0, nil)"
	}
	if term == "eof" {
		want := o.Cap
		if rem < want {
			want = rem
		}
		if o.N != want {
			return "pfb read: short fill", "Read returned fewer bytes than min(len(p), remaining) on a well-formed stream"
		}
		if o.Err == "eof" && pos+o.N != len(D) {
			return "pfb read: early EOF", "end of file reported before all of the content was delivered"
		}
	}
	return "", ""
}

// judgePFBRun judges the calls of one stream in order; at is the 1-based call that failed.
func judgePFBRun(D []byte, term string, obs []pfbObs) (sig, what string, at int) {
	pos, terminal := 0, false
	for i := range obs {
		o := &obs[i]
		if sig, what := judgePFBRead(D, term, pos, o); sig != "" {
			return sig, what, i + 1
		}
		pos += o.N
		if o.Err != "nil" {
			terminal = true
		}
	}
	if !terminal {
		return "pfb read: no terminal result", "the decoder never reported the end of the stream", len(obs)
	}
	return "", "", 0
}

func showPFBObs(obs []pfbObs) string {
	s := ""
	for i, o := range obs {
		if i > 0 {
			s += "; "
		}
		if i >= 6 {
			s += fmt.Sprintf("... (%d reads)", len(obs))
			break
		}
		s += fmt.Sprintf("Read(%d)=(%d,%q,%s)", o.Cap, o.N, clip(o.raw, 24), o.Err)
	}
	return s
}

func clip(b []byte, n int) string {
	if len(b) > n {
		return string(b[:n]) + "..."
	}
	return string(b)
}

func clipInts(x []int, n int) string {
	if len(x) > n {
		return fmt.Sprintf("%v... (%d bytes)", x[:n], len(x))
	}
	return fmt.Sprint(x)
}

// pfbPart is the summary of one worker.
type pfbPart struct {
	sum          replaySummary
	hangs        int
	traced       int
	tracedEvents int
	seen         map[string]bool
	examples     map[string]json.RawMessage // first failing vector per signature
	exampleAt    map[string]int
	err          error
}

type pfbBatch struct {
	path  string
	first int // number (over all files, from 0) of the first vector of the batch
	line  int // line of the first vector in its file
	lines [][]byte
}

func replayPFB(args []string) error {
	fs := flag.NewFlagSet("replay-pfb", flag.ContinueOnError)
	tracePath := fs.String("trace", "", "write the observed Read results of every k-th vector as a TracePFB trace")
	every := fs.Int("every", 1, "k")
	if err := fs.Parse(args); err != nil {
		return err
	}
	var tw *bufio.Writer
	var twMu sync.Mutex
	if *tracePath != "" {
		f, err := os.Create(*tracePath)
		if err != nil {
			return err
		}
		defer f.Close()
		tw = bufio.NewWriterSize(f, 1<<20)
		defer tw.Flush()
	}
	var hangsAll atomic.Int32
	batches := make(chan pfbBatch, 64)
	nw := runtime.GOMAXPROCS(0)
	parts := make([]*pfbPart, nw)
	var wg sync.WaitGroup
	for w := 0; w < nw; w++ {
		part := &pfbPart{sum: replaySummary{PerOp: map[string]int{}, PerOpOK: map[string]int{}, BySig: map[string]int{}}, seen: map[string]bool{},
			examples: map[string]json.RawMessage{}, exampleAt: map[string]int{}}
		parts[w] = part
		wg.Add(1)
		go func() {
			defer wg.Done()
			timer := time.NewTimer(time.Hour)
			var tbuf bytes.Buffer
			for b := range batches {
				for k, raw := range b.lines {
					if part.err != nil || hangsAll.Load() >= 3 {
						continue
					}
					tbuf.Reset()
					traceIt := tw != nil && (b.first+k)%*every == 0
					if err := replayPFBOne(part, b.path, b.line+k, b.first+k, raw, timer, traceIt, &tbuf, &hangsAll); err != nil {
						part.err = err
					}
					if tbuf.Len() > 0 {
						twMu.Lock()
						tw.Write(tbuf.Bytes())
						twMu.Unlock()
					}
				}
			}
		}()
	}
	total := 0
	var readErr error
	for _, path := range fs.Args() {
		cur := pfbBatch{path: path, first: total, line: 1}
		err := model.ReadVectors(path, func(line int, raw []byte) error {
			if len(cur.lines) == 0 {
				cur.first, cur.line = total, line
			}
			cur.lines = append(cur.lines, append([]byte(nil), raw...))
			total++
			if len(cur.lines) == 256 {
				batches <- cur
				cur = pfbBatch{path: path}
			}
			return nil
		})
		if len(cur.lines) > 0 {
			batches <- cur
		}
		if err != nil {
			readErr = err
			break
		}
	}
	close(batches)
	wg.Wait()
	if readErr != nil {
		return readErr
	}
	sum := replaySummary{PerOp: map[string]int{}, PerOpOK: map[string]int{}, BySig: map[string]int{}}
	hangs, traced, tracedEvents := 0, 0, 0
	examples := map[string]json.RawMessage{}
	exampleAt := map[string]int{}
	var all []disagreement
	for _, p := range parts {
		if p.err != nil {
			return p.err
		}
		sum.Vectors += p.sum.Vectors
		sum.Agreed += p.sum.Agreed
		sum.ExpectOK += p.sum.ExpectOK
		sum.ExpectError += p.sum.ExpectError
		sum.NDisagree += p.sum.NDisagree
		for k, v := range p.sum.PerOp {
			sum.PerOp[k] += v
		}
		for k, v := range p.sum.PerOpOK {
			sum.PerOpOK[k] += v
		}
		for k, v := range p.sum.BySig {
			sum.BySig[k] += v
		}
		all = append(all, p.sum.Disagreements...)
		for _, s := range p.sum.Samples {
			if len(sum.Samples) < 4 {
				sum.Samples = append(sum.Samples, s)
			}
		}
		for k, v := range p.examples {
			if at, ok := exampleAt[k]; !ok || p.exampleAt[k] < at {
				examples[k], exampleAt[k] = v, p.exampleAt[k]
			}
		}
		hangs += p.hangs
		traced += p.traced
		tracedEvents += p.tracedEvents
	}
	sort.Slice(all, func(i, j int) bool { return all[i].Line < all[j].Line })
	shown := map[string]int{}
	for _, d := range all {
		if shown[d.Sig] < 2 {
			shown[d.Sig]++
			sum.Disagreements = append(sum.Disagreements, d)
		}
	}
	sum.Distinct = sum.Vectors
	out := struct {
		replaySummary
		Hangs        int                        `json:"hangs"`
		Traced       int                        `json:"traced_vectors"`
		TracedEvents int                        `json:"traced_events"`
		Examples     map[string]json.RawMessage `json:"examples"`
	}{sum, hangs, traced, tracedEvents, examples}
	return emit(out)
}

func replayPFBOne(part *pfbPart, path string, line, num int, raw []byte, timer *time.Timer, traceIt bool, tbuf *bytes.Buffer, hangsAll *atomic.Int32) error {
	sum := &part.sum
	add := func(sig, what, stim, exp, obs string) {
		sum.NDisagree++
		sum.BySig[sig]++
		if sum.BySig[sig] <= 2 {
			sum.Disagreements = append(sum.Disagreements, disagreement{Sig: sig, What: what, Stimulus: stim, Expected: exp, Observed: obs, Line: num + 1})
		}
		if _, ok := part.examples[sig]; !ok {
			part.examples[sig] = append(json.RawMessage(nil), raw...)
			part.exampleAt[sig] = num
		}
	}
	var v pfbVector
	if err := json.Unmarshal(raw, &v); err != nil {
		return fmt.Errorf("%s:%d: %v", path, line, err)
	}
	sum.Vectors++
	cls := v.Fam + "/" + v.Tail + "/" + v.Term
	sum.PerOp[cls]++
	if v.Term == "eof" {
		sum.ExpectOK++
	} else {
		sum.ExpectError++
	}
	inp, D := pfbBytes(v.Inp), pfbBytes(v.D)
	if v.Fam == "big" {
		inp, D = v.expandBig()
		traceIt = false // far beyond what TLC can read back
	}
	stim := func() string {
		if v.Fam == "big" {
			return fmt.Sprintf("segments (type, length) %v with payload byte i = (a*i+c)%%256, tail %s; buffer sizes %v then %d; underlying reader: chunks %v cyclic, EOF with last bytes=%v",
				v.Desc, v.Tail, v.Caps, v.Caps[len(v.Caps)-1], v.Chunks, v.EOFwd)
		}
		return fmt.Sprintf("input bytes %s; buffer sizes %s; underlying reader: chunks %v cyclic, EOF with last bytes=%v",
			clipInts(v.Inp, 48), clipInts(v.Caps, 16), v.Chunks, v.EOFwd)
	}
	exp := func() string {
		return fmt.Sprintf("content %q (%d bytes), ending in %s", clip(D, 60), len(D), v.Term)
	}
	// when the vector's buffer sizes are used up without a terminal result (possible only where the contract
	// does not demand that buffers are filled) reading goes on until the decoder says how the stream ends
	extra := len(D) + 8
	limit := 3 * time.Second
	if v.Fam == "big" {
		limit = 20 * time.Second
	}
	run := drivePFBGuarded(inp, v.Caps, v.Chunks, v.EOFwd, extra, limit, timer)
	if run.hang {
		part.hangs++
		hangsAll.Add(1)
		add("pfb read: hang", "Read did not return within 12 s", stim(), exp(), "no return")
		return nil
	}
	if run.panic != "" {
		add("pfb read: panic", "Read panicked", stim(), exp(), run.panic+" after "+showPFBObs(run.obs))
		return nil
	}
	sig, what, at := judgePFBRun(D, v.Term, run.obs)
	bad := sig != ""
	if bad {
		// a disagreement counts when the same stimulus alone gives it again
		again := drivePFBGuarded(inp, v.Caps, v.Chunks, v.EOFwd, extra, limit, timer)
		if sig2, _, _ := judgePFBRun(D, v.Term, again.obs); again.hang || again.panic != "" || sig2 != sig {
			sum.Unreproduced++
		}
		add(sig, what, stim(), exp(), fmt.Sprintf("call %d of: %s", at, showPFBObs(run.obs)))
	}
	if !bad {
		sum.Agreed++
		sum.PerOpOK[cls]++
		if len(sum.Samples) < 2 && !part.seen[cls] && len(v.Caps) >= 2 && len(D) > 0 {
			part.seen[cls] = true
			sum.Samples = append(sum.Samples, stim()+" => "+showPFBObs(run.obs))
		}
	}
	if traceIt {
		part.traced++
		part.tracedEvents += 1 + len(run.obs)
		enc := json.NewEncoder(tbuf)
		if err := enc.Encode(map[string]any{"ev": "reset", "inp": v.Inp, "vec": num + 1, "judged_ok": !bad}); err != nil {
			return err
		}
		for i := range run.obs {
			o := run.obs[i]
			o.Out = pfbInts(o.raw)
			if err := enc.Encode(o); err != nil {
				return err
			}
		}
	}
	return nil
}

// tracePFB records what the real decoder returns on seeded random streams
// and schedules.  The framing here is written from the format description,
// not from the library; TracePFB.tla re-derives content and terminal class
// from the recorded input bytes with PFB!PfbParse.
func tracePFB(args []string) error {
	if len(args) < 5 {
		return fmt.Errorf("usage: trace-pfb out.ndjson nstreams seed maxlen all|short")
	}
	// all: well-formed streams and bad headers; short: every stream ends in a
	// binary segment that declares more bytes than follow
	onlyShort := args[4] == "short"
	var nStreams, maxLen int
	var seed int64
	fmt.Sscan(args[1], &nStreams)
	fmt.Sscan(args[2], &seed)
	fmt.Sscan(args[3], &maxLen)
	f, err := os.Create(args[0])
	if err != nil {
		return err
	}
	defer f.Close()
	w := bufio.NewWriterSize(f, 1<<20)
	defer w.Flush()
	enc := json.NewEncoder(w)
	rng := rand.New(rand.NewSource(seed))
	timer := time.NewTimer(time.Hour)
	events, reads, bytesOut, hangs, panics := 0, 0, 0, 0, 0
	kinds := map[string]int{}
	header := func(ty byte, n int) []byte {
		return []byte{0x80, ty, byte(n), byte(n >> 8), byte(n >> 16), byte(n >> 24)}
	}
	for s := 0; s < nStreams; s++ {
		var inp []byte
		nseg := rng.Intn(4)
		if onlyShort {
			nseg = 1 + rng.Intn(3)
		}
		lastLen := 0
		for i := 0; i < nseg; i++ {
			ty := byte(1 + rng.Intn(2))
			if onlyShort && i == nseg-1 {
				ty = 2
			}
			n := 0
			switch rng.Intn(4) {
			case 0:
				n = rng.Intn(4)
			case 1:
				n = rng.Intn(40)
			case 2:
				n = rng.Intn(maxLen + 1)
			case 3:
				n = rng.Intn(300)
			}
			data := make([]byte, n)
			rng.Read(data)
			lastLen = n
			inp = append(inp, header(ty, n)...)
			inp = append(inp, data...)
		}
		kind := "eof"
		switch k := rng.Intn(8); {
		case onlyShort:
			kind = "short"
			// re-write the last header so that it declares more than follows
			at := len(inp) - lastLen - 6
			copy(inp[at:], header(2, lastLen+1+rng.Intn(5)))
		case k < 3:
		case k < 5:
			kind = "marker"
			inp = append(inp, 0x80, 3)
		case k < 7:
			kind = "marker+garbage"
			inp = append(inp, 0x80, 3)
			g := make([]byte, rng.Intn(12))
			rng.Read(g)
			inp = append(inp, g...)
		case k < 8:
			kind = "bad"
			h := []byte{0x80, byte(4 + rng.Intn(252)), 1, 0, 0, 0, 65}
			if rng.Intn(2) == 0 {
				h[0] = byte(rng.Intn(128))
				h[1] = byte(1 + rng.Intn(2))
			}
			inp = append(inp, h...)
		}
		kinds[kind]++
		// schedule of buffer sizes
		var caps []int
		mode := rng.Intn(6)
		total := 0
		for total <= 2*len(inp)+2 && len(caps) < 20000 {
			c := 1
			switch mode {
			case 0:
				c = 1 + rng.Intn(64)
			case 1:
				c = 1 + rng.Intn(4)
			case 2:
				c = 1
			case 3:
				c = 1 + 2*rng.Intn(8) // odd sizes
			case 4:
				c = []int{1, 2, 3, 7, 64, 512, 4096}[rng.Intn(7)]
			case 5:
				// odd and even sizes with an empty buffer now and then (never twice in a row)
				c = rng.Intn(6)
				if c == 0 && (len(caps) == 0 || caps[len(caps)-1] == 0) {
					c = 3
				}
			}
			caps = append(caps, c)
			total += c
		}
		chunks := make([]int, 1+rng.Intn(3))
		for i := range chunks {
			chunks[i] = []int{1, 2, 3, 5, 17, 64, 4096}[rng.Intn(7)]
		}
		eofwd := rng.Intn(2) == 0
		run := drivePFBGuarded(inp, caps, chunks, eofwd, 4, 3*time.Second, timer)
		if run.hang {
			hangs++
			if hangs >= 3 {
				break
			}
		}
		if run.panic != "" {
			panics++
		}
		if err := enc.Encode(map[string]any{"ev": "reset", "inp": pfbInts(inp), "kind": kind, "chunks": chunks, "eofwd": eofwd,
			"hang": run.hang, "panic": run.panic}); err != nil {
			return err
		}
		events++
		for i := range run.obs {
			o := run.obs[i]
			o.Out = pfbInts(o.raw)
			if err := enc.Encode(o); err != nil {
				return err
			}
			events++
			reads++
			bytesOut += o.N
		}
	}
	return emit(map[string]any{"streams": nStreams, "events": events, "reads": reads, "bytes": bytesOut,
		"hangs": hangs, "panics": panics, "kinds": kinds})
}
