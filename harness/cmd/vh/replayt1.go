package main

import (
	"bytes"
	"encoding/json"
	"flag"
	"fmt"
	"math"
	"math/big"
	"os"
	"os/exec"
	"runtime"
	"runtime/debug"
	"sort"
	"strings"
	"sync"
	"syscall"
	"time"

	"seehuhn.de/go/postscript/type1"

	"vharness/indep"
	"vharness/model"
)

func init() { register("replay-t1", replayT1) }

type ratJ struct {
	N int64 `json:"n"`
	D int64 `json:"d"`
}

func (r ratJ) f() float64 {
	v, _ := new(big.Rat).SetFrac64(r.N, r.D).Float64()
	return v
}

type glyphExp struct {
	Cmds []struct {
		Op string `json:"op"`
		A  []ratJ `json:"a"`
	} `json:"cmds"`
	Hst []ratJ `json:"hst"`
	Vst []ratJ `json:"vst"`
	Wx  ratJ   `json:"wx"`
	Wy  ratJ   `json:"wy"`
	St  string `json:"st"`
}

type t1Vec struct {
	Fam    string       `json:"fam"`
	Lay    indep.Layout `json:"lay"`
	Subrs  [][]indep.Tok
	Glyphs struct {
		Name []string      `json:"name"`
		Toks [][]indep.Tok `json:"toks"`
	} `json:"glyphs"`
	Expect []glyphExp `json:"expect"`
	// family "fontlevel"
	Variant *struct {
		Bs, Bshift, Bfuzz, Fb, Std, Other, Ia, Date string
		Fixed                                       bool
		Str                                         int
	} `json:"variant"`
	Spelling  []int `json:"spelling"`
	FontLevel *struct {
		BlueScale  int64 `json:"bluescale"`
		BlueShift  int32 `json:"blueshift"`
		BlueFuzz   int32 `json:"bluefuzz"`
		ForceBold  bool  `json:"forcebold"`
		StdHW      int64 `json:"stdhw"`
		StdVW      int64 `json:"stdvw"`
		OtherBlues []int `json:"otherblues"`
		Italic     int64 `json:"italic"`
		Fixed      bool  `json:"fixed"`
		Text       []int `json:"text"`
		Date       []int `json:"date"`
	} `json:"fontlevel"`
}

var layoutRotation = func() []indep.Layout {
	var out []indep.Layout
	for _, c := range []string{"pfa", "bin", "pfb", "clear"} {
		for _, l := range []int{4, 0, 1, 5, 6} {
			for _, n := range []string{"RD", "bar"} {
				for _, ln := range []bool{false, true} {
					for _, e := range []string{"std", "custom", "none"} {
						out = append(out, indep.Layout{Cont: c, LenIV: l, Names: n, LongNum: ln, Enc: e})
					}
				}
			}
		}
	}
	// other line ends in the text portions
	for _, c := range []string{"pfa", "bin", "pfb", "clear"} {
		for _, e := range []string{"std", "custom", "none"} {
			for _, el := range []string{"cr", "crlf"} {
				out = append(out, indep.Layout{Cont: c, LenIV: 4, Names: "RD", Enc: e, Eol: el})
			}
		}
	}
	return out
}()

// stdCodes: the few StandardEncoding codes the generator uses
var stdCodes = map[string]int{"A": 65, "a": 97, "grave": 193, "agrave": -1, ".notdef": -1}

// expandFill adds the filler glyphs a layout asks for: copies of the last glyph (and of what
// reading it must give) under further names.
func expandFill(v *t1Vec) {
	n := len(v.Glyphs.Name)
	if v.Lay.Fill <= 0 || n == 0 || len(v.Expect) != n {
		return
	}
	for k := 0; k < v.Lay.Fill; k++ {
		v.Glyphs.Name = append(v.Glyphs.Name, fmt.Sprintf("fill%04d", k))
		v.Glyphs.Toks = append(v.Glyphs.Toks, v.Glyphs.Toks[n-1])
		v.Expect = append(v.Expect, v.Expect[n-1])
	}
}

func buildSpec(v *t1Vec) *indep.FontSpec {
	f := &indep.FontSpec{FontName: "VerifTest", Toks: map[string][]indep.Tok{}, Subrs: v.Subrs, Encoding: map[int]string{}}
	for i, n := range v.Glyphs.Name {
		f.Glyphs = append(f.Glyphs, n)
		f.Toks[n] = v.Glyphs.Toks[i]
	}
	f.Info = []string{"/version (001.001) readonly def", "/FullName (Verif Test) readonly def", "/FamilyName (Verif) readonly def",
		"/Weight (Regular) readonly def", "/ItalicAngle 0 def", "/isFixedPitch false def", "/UnderlinePosition -100 def",
		"/UnderlineThickness 50 def"}
	f.Private = []string{"/BlueValues [-10 0 700 710] def", "/StdHW [30] def", "/StdVW [80] def", "/ForceBold false def"}
	if v.Variant != nil {
		fl := v.Variant
		sp := string(toB(v.Spelling))
		f.Info = []string{"/version (001.001) readonly def", "/Notice " + sp + " readonly def", "/Copyright " + sp + " readonly def",
			"/FullName " + sp + " readonly def", "/FamilyName " + sp + " readonly def", "/Weight " + sp + " readonly def",
			"/ItalicAngle " + fl.Ia + " def", fmt.Sprintf("/isFixedPitch %v def", fl.Fixed), "/UnderlinePosition -100 def",
			"/UnderlineThickness 50 def"}
		f.Private = []string{"/BlueValues [-10 0 700 710] def"}
		switch fl.Bs {
		case "50000":
			f.Private = append(f.Private, "/BlueScale 0.05 def")
		case "39625":
			f.Private = append(f.Private, "/BlueScale .039625 def")
		}
		if fl.Bshift != "omit" {
			f.Private = append(f.Private, "/BlueShift "+fl.Bshift+" def")
		}
		if fl.Bfuzz != "omit" {
			f.Private = append(f.Private, "/BlueFuzz "+fl.Bfuzz+" def")
		}
		if fl.Fb != "omit" {
			f.Private = append(f.Private, "/ForceBold "+fl.Fb+" def")
		}
		switch fl.Std {
		case "int":
			f.Private = append(f.Private, "/StdHW [30] def", "/StdVW [80] def")
		case "real":
			f.Private = append(f.Private, "/StdHW [30.5] def", "/StdVW [80.25] def")
		}
		if fl.Other == "set" {
			f.Private = append(f.Private, "/OtherBlues [-250 -240] def")
		}
		switch fl.Date {
		case "iso":
			f.Header = []string{"%%CreationDate: 1991-09-13 11:15:12 +0000 UTC"}
		case "ctime":
			f.Header = []string{"%%Title: VerifTest", "%%CreationDate: Fri Sep 13 11:15:12 1991"}
		case "rfc":
			f.Header = []string{"%%CreationDate: Fri, 13 Sep 1991 11:15:12", "%%VMusage: 1024 1024"}
		case "short":
			f.Header = []string{"%%CreationDate: Fri Sep 13 1991"}
		}
	}
	switch v.Lay.Enc {
	case "custom":
		// an explicit array: glyphs at non-standard codes, one code naming an absent glyph
		c := 33
		for _, n := range v.Glyphs.Name {
			if n != ".notdef" {
				f.Encoding[c] = n
				c += 7
			}
		}
		f.Encoding[200] = "absentglyph"
	case "customseac":
		// an explicit array that differs from StandardEncoding at the codes seac uses
		f.Encoding[97] = "grave"
		f.Encoding[193] = "a"
		f.Encoding[194] = "agrave"
		f.Encoding[40] = "agrave"
		f.Encoding[41] = "aacute"
		f.Encoding[42] = "acute"
	}
	return f
}

func expectedEncoding(v *t1Vec) []string {
	has := map[string]bool{}
	for _, n := range v.Glyphs.Name {
		has[n] = true
	}
	switch v.Lay.Enc {
	case "none":
		return nil
	case "std":
		enc := make([]string, 256)
		for i, n := range stdEncodingNames() {
			if has[n] {
				enc[i] = n
			} else {
				enc[i] = ".notdef"
			}
		}
		return enc
	}
	spec := buildSpec(v)
	enc := make([]string, 256)
	for i := range enc {
		enc[i] = ".notdef"
		if n, ok := spec.Encoding[i]; ok && has[n] {
			enc[i] = n
		}
	}
	return enc
}

func near(a, b float64) bool {
	return math.Abs(a-b) <= 1e-9*math.Max(1, math.Max(math.Abs(a), math.Abs(b)))
}

func compareGlyph(name string, want *glyphExp, got *type1.Glyph) string {
	if got == nil {
		return "glyph " + name + " missing"
	}
	if !near(got.WidthX, want.Wx.f()) || !near(got.WidthY, want.Wy.f()) {
		return fmt.Sprintf("glyph %s: width (%v,%v), described (%v,%v)", name, got.WidthX, got.WidthY, want.Wx.f(), want.Wy.f())
	}
	ops := map[string]type1.GlyphOpType{"M": type1.OpMoveTo, "L": type1.OpLineTo, "C": type1.OpCurveTo, "Z": type1.OpClosePath}
	show := func() string {
		var ws, gs []string
		for _, c := range want.Cmds {
			s := c.Op
			for _, a := range c.A {
				s += fmt.Sprintf(" %g", a.f())
			}
			ws = append(ws, s)
		}
		for _, c := range got.Cmds {
			s := map[type1.GlyphOpType]string{type1.OpMoveTo: "M", type1.OpLineTo: "L", type1.OpCurveTo: "C", type1.OpClosePath: "Z"}[c.Op]
			for _, a := range c.Args {
				s += fmt.Sprintf(" %g", a)
			}
			gs = append(gs, s)
		}
		return fmt.Sprintf("described [%s], read [%s]", strings.Join(ws, "; "), strings.Join(gs, "; "))
	}
	if len(got.Cmds) != len(want.Cmds) {
		return fmt.Sprintf("glyph %s: outline: %s", name, show())
	}
	for i, c := range want.Cmds {
		g := got.Cmds[i]
		if g.Op != ops[c.Op] || len(g.Args) != len(c.A) {
			return fmt.Sprintf("glyph %s: outline: %s", name, show())
		}
		for j, a := range c.A {
			if !near(g.Args[j], a.f()) {
				return fmt.Sprintf("glyph %s: outline: %s", name, show())
			}
		}
	}
	cmpStems := func(kind string, w []ratJ, g []float64) string {
		if len(w) != len(g) {
			return fmt.Sprintf("glyph %s: %s hints %v, described %d values", name, kind, g, len(w))
		}
		for i := range w {
			if !near(g[i], w[i].f()) {
				return fmt.Sprintf("glyph %s: %s hints %v differ from the described ones at %d", name, kind, g, i)
			}
		}
		return ""
	}
	var hs, vs []float64
	for _, x := range got.HStem {
		hs = append(hs, float64(x))
	}
	for _, x := range got.VStem {
		vs = append(vs, float64(x))
	}
	if want.Hst != nil || want.Vst != nil || len(hs)+len(vs) > 0 {
		if s := cmpStems("horizontal", want.Hst, hs); s != "" {
			return s
		}
		if s := cmpStems("vertical", want.Vst, vs); s != "" {
			return s
		}
	}
	return ""
}

func t1Features(v *t1Vec) string {
	set := map[string]bool{}
	for _, ts := range v.Glyphs.Toks[1:] {
		prev := ""
		for i, t := range ts {
			if t.T == "c" {
				switch t.C {
				case "callsubr":
					if i > 0 && ts[i-1].T == "n" {
						switch ts[i-1].V {
						case 1:
							set["flex-after-"+prev] = true
						case 4:
							set["subr"] = true
						}
					}
				case "rmoveto", "hmoveto", "vmoveto", "endchar", "closepath", "hsbw":
				default:
					set[t.C] = true
				}
				switch t.C {
				case "rlineto", "hlineto", "vlineto":
					prev = "line"
				case "rrcurveto", "hvcurveto", "vhcurveto":
					prev = "curve"
				case "rmoveto", "hmoveto", "vmoveto":
					if prev == "" || prev == "move" {
						prev = "move"
					}
				}
			}
		}
	}
	var ks []string
	for k := range set {
		ks = append(ks, k)
	}
	sort.Strings(ks)
	return strings.Join(ks, ",")
}

func checkT1(v *t1Vec, line int) *disagreement {
	if v.Fam == "glyph" {
		v.Lay = layoutRotation[line%len(layoutRotation)]
	}
	expandFill(v)
	spec := buildSpec(v)
	if v.Fam == "hostile" {
		// C01c: hostile lenIV values (the cipher still uses four lead bytes), odd containers
		raw := hostileLenIV[line%12]
		if line%3 != 0 {
			spec.LenIVRaw = &raw
		}
		v.Lay = layoutRotation[line%len(layoutRotation)]
		if line%11 == 0 {
			spec.Subrs = append(spec.Subrs, v.Glyphs.Toks[len(v.Glyphs.Toks)-1]) // a subroutine that calls itself / runs wild
		}
	}
	if (v.Fam == "glyph" || v.Fam == "layout") && line%4 == 1 && len(spec.Subrs) > 4 {
		// a sparse Subrs array: slot 4 is left unassigned, the font's own subroutines move up by one
		// and every call of them is renumbered
		sp := append([][]indep.Tok{}, spec.Subrs[:4]...)
		sp = append(sp, nil)
		sp = append(sp, spec.Subrs[4:]...)
		renum := func(toks []indep.Tok) []indep.Tok {
			out := append([]indep.Tok{}, toks...)
			for i := 1; i < len(out); i++ {
				if out[i].T == "c" && out[i].C == "callsubr" && out[i-1].T == "n" && out[i-1].V >= 4 {
					out[i-1].V++
				}
			}
			return out
		}
		for i := range sp {
			if sp[i] != nil {
				sp[i] = renum(sp[i])
			}
		}
		for name, t := range spec.Toks {
			spec.Toks[name] = renum(t)
		}
		spec.Subrs = sp
	}
	v.Lay.Lead = line / 3 // binary containers: every legal kind of first cipher byte
	data, err := indep.WriteFont(spec, v.Lay)
	lay := fmt.Sprintf("%s lenIV=%d names=%s long=%v enc=%s lead=%d", v.Lay.Cont, v.Lay.LenIV, v.Lay.Names, v.Lay.LongNum, v.Lay.Enc, v.Lay.Lead%11)
	mk := func(kind, what, obs string) *disagreement {
		var toks []string
		for _, t := range v.Glyphs.Toks[len(v.Glyphs.Toks)-1] {
			if t.T == "n" {
				toks = append(toks, fmt.Sprint(t.V))
			} else {
				toks = append(toks, t.C)
			}
		}
		sig := fmt.Sprintf("t1read[%s] %s", v.Fam, kind)
		if v.Fam == "glyph" || v.Fam == "layout" {
			sig = fmt.Sprintf("t1read[%s:%s] %s", v.Fam, t1Features(v), kind)
		}
		if v.Fam == "seac" {
			sig = fmt.Sprintf("t1read[seac enc=%s] %s", v.Lay.Enc, kind)
		}
		return &disagreement{Sig: sig, What: what, Stimulus: "layout " + lay + "; last glyph: " + strings.Join(toks, " "), Expected: "", Observed: obs, Line: line}
	}
	if err != nil {
		return mk("harness", "harness error: "+err.Error(), "")
	}
	var font *type1.Font
	var pan any
	func() {
		defer func() { pan = recover() }()
		font, err = type1.Read(bytes.NewReader(data))
	}()
	if pan != nil {
		return mk("panic", fmt.Sprintf("type1.Read panicked: %v", pan), fmt.Sprint(pan))
	}
	if v.Fam == "hostile" {
		return nil // any normal return is fine (C01)
	}
	if err != nil {
		return mk("unexpected-error", "a conforming font is rejected", err.Error())
	}
	for i, name := range v.Glyphs.Name {
		if s := compareGlyph(name, &v.Expect[i], font.Glyphs[name]); s != "" {
			kind := "outline"
			if strings.Contains(s, "hints") {
				kind = "hints"
			} else if strings.Contains(s, "width") {
				kind = "width"
			}
			if v.Fam == "seac" && (name == "agrave" || name == "aacute") {
				kind = "composite-" + kind
			}
			return mk(kind, "the glyph read differs from the glyph described", s)
		}
	}
	if len(font.Glyphs) != len(v.Glyphs.Name) {
		return mk("glyphset", "glyph set differs", fmt.Sprintf("%d glyphs read, %d described", len(font.Glyphs), len(v.Glyphs.Name)))
	}
	want := expectedEncoding(v)
	if (want == nil) != (len(font.Encoding) == 0) {
		return mk("encoding", "encoding presence differs", fmt.Sprintf("read %d entries", len(font.Encoding)))
	}
	for i := range want {
		if font.Encoding[i] != want[i] {
			return mk("encoding", "encoding differs", fmt.Sprintf("code %d: read %q, described %q", i, font.Encoding[i], want[i]))
		}
	}
	p := font.Private
	if fl := v.FontLevel; fl != nil {
		micro := func(x float64) int64 { return int64(math.Round(x * 1e6)) }
		text := string(toB(fl.Text))
		var ob []int
		for _, x := range p.OtherBlues {
			ob = append(ob, int(x))
		}
		got := fmt.Sprintf("BlueScale=%d BlueShift=%d BlueFuzz=%d ForceBold=%v StdHW=%d StdVW=%d OtherBlues=%v Italic=%d Fixed=%v",
			micro(p.BlueScale), p.BlueShift, p.BlueFuzz, p.ForceBold, micro(p.StdHW), micro(p.StdVW), ob, micro(font.ItalicAngle), font.IsFixedPitch)
		want := fmt.Sprintf("BlueScale=%d BlueShift=%d BlueFuzz=%d ForceBold=%v StdHW=%d StdVW=%d OtherBlues=%v Italic=%d Fixed=%v",
			fl.BlueScale, fl.BlueShift, fl.BlueFuzz, fl.ForceBold, fl.StdHW, fl.StdVW, append([]int(nil), fl.OtherBlues...), fl.Italic, fl.Fixed)
		if got != want {
			return mk("private-or-info-values", "Private / FontInfo values or their defaults differ", "read "+got+"; described "+want)
		}
		for _, s := range []string{font.Notice, font.Copyright, font.FullName, font.FamilyName, font.Weight} {
			if s != text {
				return mk("info-string", "FontInfo string differs", fmt.Sprintf("read %q, described %q", s, text))
			}
		}
		if len(fl.Date) == 0 {
			if !font.CreationDate.IsZero() {
				return mk("date", "creation date invented", font.CreationDate.String())
			}
		} else {
			d := font.CreationDate.UTC()
			gotd := []int{d.Year(), int(d.Month()), d.Day(), d.Hour(), d.Minute(), d.Second()}
			if fmt.Sprint(gotd) != fmt.Sprint(fl.Date) {
				return mk("date", "creation date differs", fmt.Sprintf("read %v (%s), described %v", gotd, font.CreationDate, fl.Date))
			}
		}
		return nil
	}
	// font level values written by buildSpec
	if font.FontName != "VerifTest" || font.Version != "001.001" || font.FullName != "Verif Test" || font.FamilyName != "Verif" ||
		font.Weight != "Regular" || font.ItalicAngle != 0 || font.IsFixedPitch || font.UnderlinePosition != -100 || font.UnderlineThickness != 50 {
		return mk("fontinfo", "FontInfo differs", fmt.Sprintf("%+v", *font.FontInfo))
	}
	if len(p.BlueValues) != 4 || p.BlueValues[0] != -10 || p.BlueValues[3] != 710 || p.StdHW != 30 || p.StdVW != 80 || p.ForceBold ||
		p.BlueScale != 0.039625 || p.BlueShift != 7 || p.BlueFuzz != 1 {
		return mk("private", "Private values or their defaults differ", fmt.Sprintf("%+v", *p))
	}
	return nil
}

// replayT1Isolated runs the vectors in child processes with an address-space limit, so
// that a fatal runtime error (absurd allocation, stack exhaustion) is observed, not
// suffered; a dying batch is bisected to the single vectors that kill it.
func replayT1Isolated(path string) error {
	var lines [][]byte
	err := model.ReadAny(path, func(line int, raw []byte) error {
		lines = append(lines, append([]byte{}, raw...))
		return nil
	})
	if err != nil {
		return err
	}
	self, _ := os.Executable()
	total := replaySummary{PerOp: map[string]int{}, PerOpOK: map[string]int{}, BySig: map[string]int{}}
	var mu sync.Mutex
	runBatch := func(lo, hi int) (*replaySummary, string) {
		tmp, _ := os.CreateTemp("", "t1batch*.ndjson")
		for k := lo; k < hi; k++ {
			// keep the original line numbers: they select layouts and lenIV values
			fmt.Fprintf(tmp, "{\"__line\":%d,\"v\":%s}\n", k+1, lines[k])
		}
		tmp.Close()
		defer os.Remove(tmp.Name())
		cmd := exec.Command(self, "replay-t1", "-child", tmp.Name())
		var out, errb bytes.Buffer
		cmd.Stdout, cmd.Stderr = &out, &errb
		done := make(chan error, 1)
		cmd.Start()
		go func() { done <- cmd.Wait() }()
		select {
		case e := <-done:
			if e != nil {
				msg := errb.String()
				if i := strings.Index(msg, "\n"); i > 0 {
					msg = msg[:i]
				}
				return nil, fmt.Sprintf("%v: %s", e, msg)
			}
		case <-time.After(180 * time.Second):
			cmd.Process.Kill()
			<-done
			return nil, "no return within 180 s"
		}
		var s replaySummary
		if err := json.Unmarshal(out.Bytes(), &s); err != nil {
			return nil, "bad child output: " + err.Error()
		}
		return &s, ""
	}
	var work func(lo, hi int)
	merge := func(s *replaySummary) {
		mu.Lock()
		defer mu.Unlock()
		total.Vectors += s.Vectors
		total.Agreed += s.Agreed
		total.ExpectOK += s.ExpectOK
		total.NDisagree += s.NDisagree
		for k, v := range s.PerOp {
			total.PerOp[k] += v
		}
		for k, v := range s.PerOpOK {
			total.PerOpOK[k] += v
		}
		for k, v := range s.BySig {
			total.BySig[k] += v
		}
		total.Disagreements = append(total.Disagreements, s.Disagreements...)
		if len(total.Samples) < 4 {
			total.Samples = append(total.Samples, s.Samples...)
		}
	}
	work = func(lo, hi int) {
		s, dead := runBatch(lo, hi)
		if dead == "" {
			merge(s)
			return
		}
		if hi-lo == 1 {
			var v t1Vec
			json.Unmarshal(lines[lo], &v)
			var toks []string
			for _, t := range v.Glyphs.Toks[len(v.Glyphs.Toks)-1] {
				if t.T == "n" {
					toks = append(toks, fmt.Sprint(t.V))
				} else {
					toks = append(toks, t.C)
				}
			}
			kind := "process-abort"
			if strings.Contains(dead, "no return") {
				kind = "hang"
			}
			mu.Lock()
			total.Vectors++
			total.NDisagree++
			sig := "t1read[" + v.Fam + "] " + kind
			total.BySig[sig]++
			if total.BySig[sig] <= 3 {
				total.Disagreements = append(total.Disagreements, disagreement{Sig: sig, What: "type1.Read killed the process or did not return",
					Stimulus: fmt.Sprintf("vector %d (%s): %s", lo+1, hostileDesc(lo+1), strings.Join(toks, " ")), Expected: "a result or an error", Observed: dead})
			}
			mu.Unlock()
			return
		}
		mid := (lo + hi) / 2
		work(lo, mid)
		work(mid, hi)
	}
	const batch = 400
	var wg sync.WaitGroup
	sem := make(chan struct{}, max(2, runtime.NumCPU()/2))
	for lo := 0; lo < len(lines); lo += batch {
		lo, hi := lo, min(lo+batch, len(lines))
		wg.Add(1)
		sem <- struct{}{}
		go func() {
			defer wg.Done()
			work(lo, hi)
			<-sem
		}()
	}
	wg.Wait()
	total.Distinct = total.Vectors
	return emit(total)
}

var hostileLenIV = []int64{-9223372036854775808, -2147483648, -5, -1, 0, 1, 4, 5, 2147483648, 9223372036854775807, 3, 1000}

func hostileDesc(line int) string {
	if line%3 != 0 {
		return fmt.Sprintf("/lenIV %d", hostileLenIV[line%12])
	}
	return "default lenIV"
}

func replayT1(args []string) error {
	fs := flag.NewFlagSet("replay-t1", flag.ContinueOnError)
	isolate := fs.Bool("isolate", false, "run in child processes (C01)")
	child := fs.Bool("child", false, "internal: child of -isolate")
	if err := fs.Parse(args); err != nil {
		return err
	}
	if *isolate {
		return replayT1Isolated(fs.Arg(0))
	}
	if *child {
		// one absurd allocation must kill this child, not the machine
		var lim syscall.Rlimit
		lim.Cur, lim.Max = 6<<30, 6<<30
		syscall.Setrlimit(syscall.RLIMIT_AS, &lim)
		debug.SetMaxStack(256 << 20)
	}
	type job struct {
		line int
		raw  []byte
	}
	jobs := make(chan job, 256)
	var mu sync.Mutex
	sum := replaySummary{PerOp: map[string]int{}, PerOpOK: map[string]int{}, BySig: map[string]int{}}
	var wg sync.WaitGroup
	var firstErr error
	hangs := 0
	for w := 0; w < runtime.NumCPU(); w++ {
		wg.Add(1)
		go func() {
			defer wg.Done()
			for j := range jobs {
				var v t1Vec
				var wrapped struct {
					Line int             `json:"__line"`
					V    json.RawMessage `json:"v"`
				}
				if json.Unmarshal(j.raw, &wrapped) == nil && wrapped.Line > 0 {
					j.line = wrapped.Line
					j.raw = wrapped.V
				}
				if err := json.Unmarshal(j.raw, &v); err != nil {
					mu.Lock()
					if firstErr == nil {
						firstErr = fmt.Errorf("line %d: %v", j.line, err)
					}
					mu.Unlock()
					continue
				}
				// a reader that does not return is observed, not suffered: the vector is
				// reported as a hang and its goroutine abandoned; after a few of them the
				// rest of the batch is left unexamined (the verdict is a violation anyway)
				mu.Lock()
				giveUp := hangs >= 6
				mu.Unlock()
				if giveUp {
					continue
				}
				var d *disagreement
				done := make(chan *disagreement, 1)
				go func() { done <- checkT1(&v, j.line) }()
				select {
				case d = <-done:
				case <-time.After(20 * time.Second):
					var toks []string
					for _, t := range v.Glyphs.Toks[len(v.Glyphs.Toks)-1] {
						if t.T == "n" {
							toks = append(toks, fmt.Sprint(t.V))
						} else {
							toks = append(toks, t.C)
						}
					}
					d = &disagreement{Sig: "t1read[" + v.Fam + "] hang", What: "type1.Read did not return within 20 s",
						Stimulus: fmt.Sprintf("vector %d (%s): %s", j.line, hostileDesc(j.line), strings.Join(toks, " ")), Expected: "a result or an error", Observed: "still running", Line: j.line}
					mu.Lock()
					hangs++
					mu.Unlock()
				}
				mu.Lock()
				sum.Vectors++
				sum.PerOp[v.Fam+":"+v.Lay.Cont]++
				for _, f := range strings.Split(t1Features(&v), ",") {
					if f != "" {
						sum.PerOpOK[f]++
					}
				}
				sum.ExpectOK++
				if len(sum.Samples) < 4 && j.line%1999 == 7 {
					var toks []string
					for _, t := range v.Glyphs.Toks[len(v.Glyphs.Toks)-1] {
						if t.T == "n" {
							toks = append(toks, fmt.Sprint(t.V))
						} else {
							toks = append(toks, t.C)
						}
					}
					sum.Samples = append(sum.Samples, fmt.Sprintf("%s %+v: %s", v.Fam, v.Lay, strings.Join(toks, " ")))
				}
				if d == nil {
					sum.Agreed++
				} else {
					sum.NDisagree++
					sum.BySig[d.Sig]++
					if sum.BySig[d.Sig] <= 2 && len(sum.Disagreements) < 300 {
						sum.Disagreements = append(sum.Disagreements, *d)
					}
				}
				mu.Unlock()
			}
		}()
	}
	for _, path := range fs.Args() {
		err := model.ReadAny(path, func(line int, raw []byte) error {
			cp := make([]byte, len(raw))
			copy(cp, raw)
			jobs <- job{line, cp}
			return nil
		})
		if err != nil {
			close(jobs)
			return err
		}
	}
	close(jobs)
	wg.Wait()
	if firstErr != nil {
		return firstErr
	}
	sum.Distinct = sum.Vectors
	return emit(sum)
}
