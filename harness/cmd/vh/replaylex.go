package main

import (
	"bytes"
	"encoding/json"
	"fmt"
	"math/big"
	"runtime"
	"strings"
	"sync"

	ps "seehuhn.de/go/postscript"

	"vharness/model"
)

func init() { register("replay-lex", replayLex) }

type lexTok struct {
	T   string        `json:"t"`
	I   *model.BigInt `json:"i"`
	Sg  int           `json:"sg"`
	D   *model.BigInt `json:"d"`
	E10 int           `json:"e10"`
	B   []int         `json:"b"`
}

type lexVec struct {
	Inp  []int    `json:"inp"`
	OK   bool     `json:"ok"`
	Open bool     `json:"open"`
	Toks []lexTok `json:"toks"`
	Dsc  []struct {
		Key []int `json:"key"`
		Val []int `json:"val"`
	} `json:"dsc"`
	Bal bool   `json:"bal"`
	Fam string `json:"fam"`
}

func b2s(x []int) string { return string(toB(x)) }
func toB(x []int) []byte {
	b := make([]byte, len(x))
	for i, v := range x {
		b[i] = byte(v)
	}
	return b
}

func (t lexTok) String() string {
	switch t.T {
	case "int":
		return t.I.Big().String()
	case "real":
		return fmt.Sprintf("real(%d*%v*10^%d)", t.Sg, t.D.Big(), t.E10)
	case "str":
		return fmt.Sprintf("str%q", b2s(t.B))
	case "name":
		return "/" + fmt.Sprintf("%q", b2s(t.B))
	case "x":
		return fmt.Sprintf("x%q", b2s(t.B))
	}
	return t.T
}

// flatten turns the library's procedure back into a token list
func flatten(p ps.Procedure, out *[]ps.Object) {
	for _, o := range p {
		if q, ok := o.(ps.Procedure); ok {
			*out = append(*out, ps.Operator("{"))
			flatten(q, out)
			*out = append(*out, ps.Operator("}"))
		} else {
			*out = append(*out, o)
		}
	}
}

func tokMatches(t lexTok, o ps.Object) bool {
	switch t.T {
	case "int":
		g, ok := o.(ps.Integer)
		x, fits := t.I.Int64()
		return ok && fits && int64(g) == x
	case "real":
		g, ok := o.(ps.Real)
		if !ok {
			return false
		}
		r := new(big.Rat).SetInt(t.D.Big())
		ten := big.NewInt(10)
		p := new(big.Int).Exp(ten, big.NewInt(int64(abs(t.E10))), nil)
		if t.E10 >= 0 {
			r.Mul(r, new(big.Rat).SetInt(p))
		} else {
			r.Quo(r, new(big.Rat).SetInt(p))
		}
		if t.Sg < 0 {
			r.Neg(r)
		}
		want, _ := r.Float64() // correctly rounded
		return float64(g) == want
	case "str":
		g, ok := o.(ps.String)
		return ok && bytes.Equal([]byte(g), toB(t.B))
	case "name":
		g, ok := o.(ps.Name)
		return ok && string(g) == b2s(t.B)
	case "x":
		g, ok := o.(ps.Operator)
		return ok && string(g) == b2s(t.B)
	case "lbrace":
		g, ok := o.(ps.Operator)
		return ok && g == "{"
	case "rbrace":
		g, ok := o.(ps.Operator)
		return ok && g == "}"
	}
	return false
}

func abs(x int) int {
	if x < 0 {
		return -x
	}
	return x
}

func lexClass(v *lexVec) string {
	// classify the input by the kinds of bytes it contains (signature of a disagreement)
	set := map[string]bool{}
	for _, c := range v.Inp {
		switch {
		case c == '(' || c == ')' || c == '\\':
			set["litstring"] = true
		case c == '<' || c == '>':
			set["angle"] = true
		case c == '~':
			set["a85"] = true
		case c == '%':
			set["comment"] = true
		case c == '#':
			set["radix"] = true
		case c == '{' || c == '}':
			set["brace"] = true
		case c == '/':
			set["slash"] = true
		case c == 13 || c == 10:
			set["eol"] = true
		case c >= '0' && c <= '9' || c == '.' || c == '+' || c == '-' || c == 'e' || c == 'E' || c == 'x' || c == 'p':
			set["numeric"] = true
		}
	}
	var ks []string
	for _, k := range []string{"litstring", "angle", "a85", "comment", "radix", "brace", "slash", "eol", "numeric"} {
		if set[k] {
			ks = append(ks, k)
		}
	}
	return strings.Join(ks, "+")
}

func checkLex(v *lexVec) *disagreement {
	text := toB(v.Inp)
	stim := fmt.Sprintf("%q", string(text))
	mk := func(kind, what, exp, obs string) *disagreement {
		return &disagreement{Sig: "lex[" + v.Fam + ":" + lexClass(v) + "] " + kind, What: what, Stimulus: stim, Expected: exp, Observed: obs}
	}
	if v.Open || (v.OK && !v.Bal) {
		return nil // outside the quantifier, or not a complete procedure body
	}
	intp := ps.NewInterpreter()
	intp.MaxOps = 100000
	var err error
	var pan any
	func() {
		defer func() { pan = recover() }()
		err = intp.Execute(bytes.NewReader(append(append([]byte("{\n"), text...), "\n}"...)))
	}()
	if pan != nil {
		return mk("panic", fmt.Sprintf("the library panicked: %v", pan), "", fmt.Sprint(pan))
	}
	if !v.OK {
		// C04 speaks about legal lexical forms only: what the library does with an
		// illegal text (error or not) is not compared; it must not panic
		return nil
	}
	var want []string
	for _, t := range v.Toks {
		want = append(want, t.String())
	}
	if err != nil {
		return mk("unexpected-error", "a legal token sequence is rejected", strings.Join(want, " "), err.Error())
	}
	if len(intp.Stack) != 1 {
		return mk("tokens", "token sequence differs", strings.Join(want, " "), fmt.Sprintf("%d objects on the stack", len(intp.Stack)))
	}
	proc, ok := intp.Stack[0].(ps.Procedure)
	if !ok {
		return mk("tokens", "token sequence differs", strings.Join(want, " "), fmt.Sprintf("%T on the stack", intp.Stack[0]))
	}
	var got []ps.Object
	flatten(proc, &got)
	same := len(got) == len(v.Toks)
	for i := 0; same && i < len(got); i++ {
		same = tokMatches(v.Toks[i], got[i])
	}
	if !same {
		var gs []string
		for _, o := range got {
			gs = append(gs, fmt.Sprintf("%T(%v)", o, o))
		}
		return mk("tokens", "token sequence differs", strings.Join(want, " "), strings.Join(gs, " "))
	}
	same = len(intp.DSC) == len(v.Dsc)
	for i := 0; same && i < len(v.Dsc); i++ {
		same = intp.DSC[i].Key == b2s(v.Dsc[i].Key) && intp.DSC[i].Value == b2s(v.Dsc[i].Val)
	}
	if !same {
		var ws []string
		for _, d := range v.Dsc {
			ws = append(ws, fmt.Sprintf("%q=%q", b2s(d.Key), b2s(d.Val)))
		}
		return mk("dsc", "DSC comments differ", strings.Join(ws, " "), fmt.Sprintf("%q", intp.DSC))
	}
	// the comments are collected in order over everything one interpreter is given: the same text
	// handed over in several calls (cut after line feeds), followed by a call without comments
	if len(v.Dsc) > 0 {
		whole := append(append([]byte("{\n"), text...), "\n}"...)
		var parts [][]byte
		start := 0
		for i, c := range whole {
			// (not in front of a continuation line: "%%+" belongs to the comment before it)
			if c == '\n' && i+1 < len(whole) && !bytes.HasPrefix(whole[i+1:], []byte("%%+")) {
				parts = append(parts, whole[start:i+1])
				start = i + 1
			}
		}
		parts = append(parts, whole[start:], []byte(" 1 pop "))
		in2 := ps.NewInterpreter()
		in2.MaxOps = 100000
		var err2 error
		func() {
			defer func() { pan = recover() }()
			for _, part := range parts {
				if err2 = in2.Execute(bytes.NewReader(part)); err2 != nil {
					break
				}
			}
		}()
		if pan != nil {
			return mk("panic", fmt.Sprintf("the library panicked: %v", pan), "", fmt.Sprint(pan))
		}
		if err2 != nil {
			return nil // a cut inside a token that spans lines: not a split at a token boundary
		}
		same = len(in2.DSC) == len(v.Dsc)
		for i := 0; same && i < len(v.Dsc); i++ {
			same = in2.DSC[i].Key == b2s(v.Dsc[i].Key) && in2.DSC[i].Value == b2s(v.Dsc[i].Val)
		}
		if !same {
			return mk("dsc-calls", "DSC comments differ when the text is handed over in several calls", fmt.Sprintf("%d comments, as in one call", len(v.Dsc)),
				fmt.Sprintf("%v %q", err2, in2.DSC))
		}
	}
	return nil
}

func replayLex(args []string) error {
	type job struct {
		line int
		raw  []byte
	}
	jobs := make(chan job, 1024)
	var mu sync.Mutex
	sum := replaySummary{PerOp: map[string]int{}, PerOpOK: map[string]int{}, BySig: map[string]int{}}
	var wg sync.WaitGroup
	var firstErr error
	for w := 0; w < runtime.NumCPU(); w++ {
		wg.Add(1)
		go func() {
			defer wg.Done()
			for j := range jobs {
				var v lexVec
				if err := json.Unmarshal(j.raw, &v); err != nil {
					mu.Lock()
					if firstErr == nil {
						firstErr = fmt.Errorf("line %d: %v", j.line, err)
					}
					mu.Unlock()
					continue
				}
				d := checkLex(&v)
				mu.Lock()
				sum.Vectors++
				switch {
				case v.Open:
					sum.PerOp["open(not compared)"]++
				case v.OK && !v.Bal:
					sum.PerOp["unbalanced(not compared)"]++
				case v.OK:
					sum.ExpectOK++
					sum.PerOp["legal"]++
				default:
					sum.ExpectError++
					sum.PerOp["illegal"]++
				}
				if len(sum.Samples) < 5 && j.line%7919 == 3 {
					sum.Samples = append(sum.Samples, fmt.Sprintf("%q ok=%v tokens=%d dsc=%d", string(toB(v.Inp)), v.OK, len(v.Toks), len(v.Dsc)))
				}
				if d == nil {
					sum.Agreed++
				} else {
					sum.NDisagree++
					sum.BySig[d.Sig]++
					if sum.BySig[d.Sig] <= 2 && len(sum.Disagreements) < 400 {
						sum.Disagreements = append(sum.Disagreements, *d)
					}
				}
				mu.Unlock()
			}
		}()
	}
	for _, path := range args {
		err := model.ReadVectors(path, func(line int, raw []byte) error {
			cp := make([]byte, len(raw))
			copy(cp, raw)
			jobs <- job{line, cp}
			return nil
		})
		if err != nil {
			close(jobs)
			return err
		}
	}
	close(jobs)
	wg.Wait()
	if firstErr != nil {
		return firstErr
	}
	sum.Distinct = sum.ExpectOK + sum.ExpectError
	return emit(sum)
}
