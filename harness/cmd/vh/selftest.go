package main

import (
	"encoding/json"
	"fmt"
	"math/big"

	"vharness/model"
)

func init() { register("selftest-lib", selftestLib) }

// selftestLib re-computes with math/big what LibTest.tla computed with
// BigInt.tla / Dyadic.tla.
func selftestLib(args []string) error {
	if len(args) != 1 {
		return fmt.Errorf("usage: selftest-lib <libtest.ndjson>")
	}
	type vec struct {
		A, B, Add, Sub, Mul, And, Or, Not, Shr, Shl model.BigInt
		Cmp, Bl, Dcmp                               int
		In64                                        bool
		Rn, Rnadd, Rnmul                            model.Dyadic
	}
	n, bad := 0, 0
	fail := func(v vec, what string, got, want any) {
		bad++
		if bad < 10 {
			fmt.Printf("MISMATCH %s a=%v b=%v got=%v want=%v\n", what, v.A.Big(), v.B.Big(), got, want)
		}
	}
	rn53 := func(r *big.Rat) *big.Rat {
		f, _ := r.Float64() // nearest, ties to even
		return new(big.Rat).SetFloat64(f)
	}
	two := func(k int) *big.Rat {
		if k >= 0 {
			return new(big.Rat).SetInt(new(big.Int).Lsh(big.NewInt(1), uint(k)))
		}
		return new(big.Rat).SetFrac(big.NewInt(1), new(big.Int).Lsh(big.NewInt(1), uint(-k)))
	}
	err := model.ReadVectors(args[0], func(line int, raw []byte) error {
		var v vec
		if err := json.Unmarshal(raw, &v); err != nil {
			return err
		}
		n++
		a, b := v.A.Big(), v.B.Big()
		chk := func(what string, got model.BigInt, want *big.Int) {
			if !got.Canonical() || got.Big().Cmp(want) != 0 {
				fail(v, what, got.Big(), want)
			}
		}
		chk("add", v.Add, new(big.Int).Add(a, b))
		chk("sub", v.Sub, new(big.Int).Sub(a, b))
		chk("mul", v.Mul, new(big.Int).Mul(a, b))
		if v.Cmp != a.Cmp(b) {
			fail(v, "cmp", v.Cmp, a.Cmp(b))
		}
		if v.Bl != a.BitLen() {
			fail(v, "bitlen", v.Bl, a.BitLen())
		}
		ai, _ := v.A.Int64()
		bi, _ := v.B.Int64()
		chk("and", v.And, big.NewInt(ai&bi))
		chk("or", v.Or, big.NewInt(ai|bi))
		chk("not", v.Not, big.NewInt(^ai))
		s := new(big.Int).Add(a, b)
		if v.In64 != s.IsInt64() {
			fail(v, "in64", v.In64, s.IsInt64())
		}
		chk("shr", v.Shr, new(big.Int).Rsh(a, 7)) // Rsh on negative: floor (two's complement semantics)
		chk("shl", v.Shl, new(big.Int).Lsh(b, 17))
		// rn = RN53(a*b * 2^-3)
		want := rn53(new(big.Rat).Mul(new(big.Rat).SetInt(new(big.Int).Mul(a, b)), two(-3)))
		if v.Rn.Rat().Cmp(want) != 0 {
			fail(v, "rn53", v.Rn.Rat(), want)
		}
		// rnadd = RN53(RN53(a) + b*2^-70)
		ra := rn53(new(big.Rat).SetInt(a))
		want = rn53(new(big.Rat).Add(ra, new(big.Rat).Mul(new(big.Rat).SetInt(b), two(-70))))
		if v.Rnadd.Rat().Cmp(want) != 0 {
			fail(v, "rnadd", v.Rnadd.Rat(), want)
		}
		rb := rn53(new(big.Rat).SetInt(b))
		want = rn53(new(big.Rat).Mul(ra, rb))
		if v.Rnmul.Rat().Cmp(want) != 0 {
			fail(v, "rnmul", v.Rnmul.Rat(), want)
		}
		// native float cross-check of the same product
		fa, fb := float64(ai), float64(bi)
		if got, _ := v.Rnmul.Float64(); got != fa*fb {
			fail(v, "rnmul-native", got, fa*fb)
		}
		dc := new(big.Rat).Mul(new(big.Rat).SetInt(a), two(2)).Cmp(new(big.Rat).Mul(new(big.Rat).SetInt(b), two(5)))
		if v.Dcmp != dc {
			fail(v, "dcmp", v.Dcmp, dc)
		}
		// round trip of the Go-side conversions
		if back := model.FromBig(a); back.Big().Cmp(a) != 0 || !back.Canonical() {
			fail(v, "frombig", back, a)
		}
		return nil
	})
	if err != nil {
		return err
	}
	if err := emit(map[string]any{"vectors": n, "mismatches": bad}); err != nil {
		return err
	}
	if bad > 0 || n == 0 {
		return fmt.Errorf("%d mismatches in %d vectors", bad, n)
	}
	return nil
}
