package main

import (
	"bufio"
	"encoding/json"
	"fmt"
	"os"
	"path/filepath"
	"runtime"
	"sort"
	"strconv"
	"strings"
	"sync"

	"seehuhn.de/go/postscript/type1/names"
)

func init() { register("trace-agl", traceAGL) }

// aglEvent is one recorded observation: for the scalar R the library chose Name,
// and mapped Name back (with dingbats flag Ding) to Text.
type aglEvent struct {
	R    int   `json:"r"`
	Ding bool  `json:"ding"`
	Name []int `json:"name"`
	Text []int `json:"text"`
}

type aglChunk struct {
	File string `json:"file"`
	Lo   int    `json:"lo"`
	Hi   int    `json:"hi"`
	N    int    `json:"n"`
}

func isScalar(r int) bool { return r >= 0 && r <= 0x10FFFF && !(r >= 0xD800 && r <= 0xDFFF) }

func recordAGL(r int, ding bool) aglEvent {
	name := names.FromUnicode(rune(r))
	text := names.ToUnicode(name, ding)
	ev := aglEvent{R: r, Ding: ding, Name: make([]int, len(name)), Text: make([]int, len(text))}
	for i := 0; i < len(name); i++ {
		ev.Name[i] = int(name[i])
	}
	for i, c := range text {
		ev.Text[i] = int(c)
	}
	return ev
}

// traceAGL <outdir> <chunksize> <special.json|-> <lo-hi>...
//
// For every Unicode scalar value of the given (inclusive, decimal) ranges the
// library's FromUnicode answer and ToUnicode of that answer are recorded, one
// ndjson file per chunk of at most chunksize scalars.  special.json is a JSON
// array of scalars recorded once more into one extra file with both values of
// the dingbats flag.  Nothing is judged here except that all names of the
// ranges are collected, sorted and neighbours compared (injectivity).
func traceAGL(args []string) error {
	if len(args) < 4 {
		return fmt.Errorf("usage: trace-agl <outdir> <chunksize> <special.json|-> <lo-hi>...")
	}
	outdir := args[0]
	chunk, err := strconv.Atoi(args[1])
	if err != nil || chunk < 1 {
		return fmt.Errorf("bad chunk size %q", args[1])
	}
	var chunks []aglChunk
	for _, a := range args[3:] {
		var lo, hi int
		if _, err := fmt.Sscanf(a, "%d-%d", &lo, &hi); err != nil || lo > hi {
			return fmt.Errorf("bad range %q", a)
		}
		// cut into chunks of at most `chunk` scalars; chunk borders are scalars
		cur, last, n := -1, -1, 0
		flush := func() {
			if cur >= 0 {
				chunks = append(chunks, aglChunk{File: fmt.Sprintf("agl-%06X-%06X.ndjson", cur, last), Lo: cur, Hi: last, N: n})
			}
			cur, n = -1, 0
		}
		for r := lo; r <= hi; r++ {
			if !isScalar(r) {
				continue
			}
			if cur < 0 {
				cur = r
			}
			last = r
			n++
			if n == chunk {
				flush()
			}
		}
		flush()
	}
	type nr struct {
		name string
		r    int
	}
	all := make([][]nr, len(chunks))
	var wg sync.WaitGroup
	sem := make(chan struct{}, runtime.NumCPU())
	errs := make(chan error, len(chunks)+1)
	for ci := range chunks {
		wg.Add(1)
		go func(ci int) {
			defer wg.Done()
			sem <- struct{}{}
			defer func() { <-sem }()
			c := chunks[ci]
			f, err := os.Create(filepath.Join(outdir, c.File))
			if err != nil {
				errs <- err
				return
			}
			w := bufio.NewWriterSize(f, 1<<20)
			enc := json.NewEncoder(w)
			var local []nr
			for r := c.Lo; r <= c.Hi; r++ {
				if !isScalar(r) {
					continue
				}
				ev := recordAGL(r, false)
				if err := enc.Encode(ev); err != nil {
					errs <- err
					return
				}
				b := make([]byte, len(ev.Name))
				for i, x := range ev.Name {
					b[i] = byte(x)
				}
				local = append(local, nr{string(b), r})
			}
			if err := w.Flush(); err != nil {
				errs <- err
			}
			if err := f.Close(); err != nil {
				errs <- err
			}
			all[ci] = local
		}(ci)
	}
	wg.Wait()
	close(errs)
	for e := range errs {
		return e
	}
	// injectivity of the recorded names: sort, compare neighbours
	var flat []nr
	for _, l := range all {
		flat = append(flat, l...)
	}
	sort.Slice(flat, func(i, j int) bool {
		if flat[i].name != flat[j].name {
			return flat[i].name < flat[j].name
		}
		return flat[i].r < flat[j].r
	})
	dups := 0
	var dupEx []string
	for i := 1; i < len(flat); i++ {
		if flat[i].name == flat[i-1].name {
			dups++
			if len(dupEx) < 10 {
				dupEx = append(dupEx, fmt.Sprintf("U+%04X and U+%04X -> %q", flat[i-1].r, flat[i].r, flat[i].name))
			}
		}
	}
	// observation only (C16 does not ask for it): chosen names that names.IsValid rejects
	notValid := 0
	var notValidEx []string
	for _, x := range flat {
		if !names.IsValid(x.name) {
			notValid++
			if len(notValidEx) < 3 {
				notValidEx = append(notValidEx, fmt.Sprintf("U+%04X -> %q (%d bytes)", x.r, x.name, len(x.name)))
			}
		}
	}
	// the extra trace: listed scalars, both flags
	special := aglChunk{Lo: -1, Hi: -1}
	if args[2] != "-" {
		data, err := os.ReadFile(args[2])
		if err != nil {
			return err
		}
		var list []int
		if err := json.Unmarshal(data, &list); err != nil {
			return fmt.Errorf("%s: %v", args[2], err)
		}
		special.File = "agl-special.ndjson"
		f, err := os.Create(filepath.Join(outdir, special.File))
		if err != nil {
			return err
		}
		w := bufio.NewWriter(f)
		enc := json.NewEncoder(w)
		for _, r := range list {
			if !isScalar(r) {
				return fmt.Errorf("%s: %d is not a scalar value", args[2], r)
			}
			for _, d := range []bool{false, true} {
				if err := enc.Encode(recordAGL(r, d)); err != nil {
					return err
				}
				special.N++
			}
		}
		if err := w.Flush(); err != nil {
			return err
		}
		f.Close()
	}
	total := 0
	for _, c := range chunks {
		total += c.N
	}
	var samples []string
	for _, r := range []int{0x41, 0xFB04, 0x2026, 0x20AC, 0x1F600, 0x1F110} {
		ev := recordAGL(r, false)
		var t []string
		for _, x := range ev.Text {
			t = append(t, fmt.Sprintf("U+%04X", x))
		}
		samples = append(samples, fmt.Sprintf("U+%04X -> %q -> %s", r, names.FromUnicode(rune(r)), strings.Join(t, " ")))
	}
	return emit(map[string]any{"chunks": chunks, "special": special, "records": total, "names_sorted": len(flat),
		"dup_names": dups, "dup_examples": dupEx, "samples": samples,
		"chosen_names_not_valid": notValid, "chosen_names_not_valid_examples": notValidEx})
}
