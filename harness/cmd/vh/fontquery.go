package main

import (
	"encoding/json"
	"flag"
	"fmt"
	"math"
	"sort"
	"strings"

	"seehuhn.de/go/geom/matrix"
	"seehuhn.de/go/geom/rect"
	"seehuhn.de/go/postscript/afm"
	"seehuhn.de/go/postscript/type1"

	"vharness/model"
)

func init() { register("fontquery", fontQuery) }

// The vector emitted by MC_FontQuery.tla: a small integer font and the
// answers FontQuery.tla prescribes.  PDF quantities are in half units.
type fqCmd struct {
	Op string   `json:"op"`
	A  [6]int64 `json:"a"`
}
type fqGlyph struct {
	Name string  `json:"name"`
	W    int64   `json:"w"`
	Cmds []fqCmd `json:"cmds"`
}
type fqFont struct {
	Glyphs []fqGlyph `json:"glyphs"`
	Enc    []string  `json:"enc"`
	Mat    struct {
		A2 int64 `json:"a2"`
		D2 int64 `json:"d2"`
		TX int64 `json:"tx"`
		TY int64 `json:"ty"`
	} `json:"mat"`
}
type fqAnswer struct {
	Box    [4]int64 `json:"box"`
	BoxPDF [4]int64 `json:"boxpdf"`
	W      int64    `json:"w"`
	AfmW   int64    `json:"afmw"`
}
type fqVector struct {
	Font    fqFont              `json:"font"`
	Num     int                 `json:"num"`
	Lists   [][]string          `json:"lists"`
	Q       map[string]fqAnswer `json:"q"`
	FBox    [4]int64            `json:"fbox"`
	FBoxPDF [4]int64            `json:"fboxpdf"`
	AfmFBox [4]int64            `json:"afmfbox"`
	WKeys   []string            `json:"wkeys"`
}

// codes used when the short model encoding is spread over a 256-entry vector
var fqSpread = []int{0, 65, 128, 200, 254, 255}

// the order of the name pool assumed by FontQuery!FqNameOrder
var fqNameOrder = []string{".notdef", "Ab", "B", "a", "ab", "b", "c", "d01", "d02", "d03", "d04", "d05", "d06", "d07", "d08", "d09",
	"d10", "d11", "d12", "d13", "d14", "zz"}

func fqScale(x2 int64) float64 {
	switch x2 {
	case 2:
		return 0.001
	case -2:
		return -0.001
	case 1:
		return 0.0005
	case 2000:
		return 1
	}
	return float64(x2) / 2000
}

// close: within 1e-9 relative of the exact value half/2
func fqClose(got float64, half int64) bool {
	want := float64(half) / 2
	if math.IsNaN(got) || math.IsInf(got, 0) {
		return false
	}
	return math.Abs(got-want) <= 1e-9*math.Abs(want)
}

func fqRectClose(r rect.Rect, half [4]int64) bool {
	return fqClose(r.LLx, half[0]) && fqClose(r.LLy, half[1]) && fqClose(r.URx, half[2]) && fqClose(r.URy, half[3])
}

func fqDouble(b [4]int64) [4]int64 { return [4]int64{2 * b[0], 2 * b[1], 2 * b[2], 2 * b[3]} }

func fqHalfString(b [4]int64) string {
	return fmt.Sprintf("[%g %g %g %g]", float64(b[0])/2, float64(b[1])/2, float64(b[2])/2, float64(b[3])/2)
}

func fqBuild(v *fqVector, full bool) (*type1.Font, *afm.Metrics) {
	var enc []string
	if len(v.Font.Enc) > 0 {
		if full {
			enc = make([]string, 256)
			for i := range enc {
				enc[i] = ".notdef"
			}
			for i, n := range v.Font.Enc {
				enc[fqSpread[i]] = n
			}
		} else {
			enc = append([]string{}, v.Font.Enc...)
		}
	}
	f := &type1.Font{
		FontInfo: &type1.FontInfo{
			FontName: "Test",
			FontMatrix: matrix.Matrix{fqScale(v.Font.Mat.A2), 0, 0, fqScale(v.Font.Mat.D2),
				float64(v.Font.Mat.TX), float64(v.Font.Mat.TY)},
		},
		Glyphs:   map[string]*type1.Glyph{},
		Encoding: enc,
	}
	m := &afm.Metrics{Glyphs: map[string]*afm.GlyphInfo{}, Encoding: enc, FontName: "Test"}
	for _, g := range v.Font.Glyphs {
		tg := &type1.Glyph{WidthX: float64(g.W)}
		for _, c := range g.Cmds {
			a := c.A
			switch c.Op {
			case "m":
				tg.MoveTo(float64(a[0]), float64(a[1]))
			case "l":
				tg.LineTo(float64(a[0]), float64(a[1]))
			case "c":
				tg.CurveTo(float64(a[0]), float64(a[1]), float64(a[2]), float64(a[3]), float64(a[4]), float64(a[5]))
			case "z":
				tg.ClosePath()
			}
		}
		f.Glyphs[g.Name] = tg
		b := v.Q[g.Name].Box
		m.Glyphs[g.Name] = &afm.GlyphInfo{WidthX: float64(g.W),
			BBox: rect.Rect{LLx: float64(b[0]), LLy: float64(b[1]), URx: float64(b[2]), URy: float64(b[3])}}
	}
	return f, m
}

const sigQ1 = "afm GlyphList/NumGlyphs: .notdef missing from list"

func fqListIn(l []string, lists [][]string) bool {
	for _, x := range lists {
		if len(x) == len(l) {
			same := true
			for i := range x {
				if x[i] != l[i] {
					same = false
					break
				}
			}
			if same {
				return true
			}
		}
	}
	return false
}

// fontQuery VECTORS...: replay MC_FontQuery vectors into type1.Font and afm.Metrics.
func fontQuery(args []string) error {
	fs := flag.NewFlagSet("fontquery", flag.ContinueOnError)
	perVector := fs.Bool("per-vector", false, "list the signatures of every vector (negative control)")
	if err := fs.Parse(args); err != nil {
		return err
	}
	// the name order table of the specification is Go's string order
	sorted := append([]string{}, fqNameOrder...)
	sort.Strings(sorted)
	if strings.Join(sorted, " ") != strings.Join(fqNameOrder, " ") {
		return fmt.Errorf("FqNameOrder is not the bytewise order of the names")
	}
	sum := replaySummary{PerOp: map[string]int{}, PerOpOK: map[string]int{}, BySig: map[string]int{}}
	var perVec [][]string
	distinct := map[string]bool{}
	exGlyphs := map[string][]int{}
	for _, path := range fs.Args() {
		err := model.ReadVectors(path, func(line int, raw []byte) error {
			var v fqVector
			if err := json.Unmarshal(raw, &v); err != nil {
				return fmt.Errorf("line %d: %v", line, err)
			}
			sum.Vectors++
			perVec = append(perVec, []string{})
			fj, _ := json.Marshal(v.Font)
			distinct[string(fj)] = true
			okAll := true
			for _, full := range []bool{false, true} {
				stim := fmt.Sprintf("font %s (encoding %s)", fj, map[bool]string{false: "as given", true: "spread over 256 codes 0,65,200,255"}[full])
				add := func(sig, what, exp, obs string) {
					okAll = false
					for _, s := range perVec[len(perVec)-1] {
						if s == sig {
							return
						}
					}
					perVec[len(perVec)-1] = append(perVec[len(perVec)-1], sig)
					sum.NDisagree++
					sum.BySig[sig]++
					dg := disagreement{Sig: sig, What: what, Stimulus: stim, Expected: exp, Observed: obs, Line: line}
					if sum.BySig[sig] <= 2 {
						sum.Disagreements = append(sum.Disagreements, dg)
						exGlyphs[sig] = append(exGlyphs[sig], len(v.Font.Glyphs))
					} else if len(v.Font.Glyphs) >= 2 {
						// prefer an example with at least two glyphs over a degenerate one
						k := 0
						for i := range sum.Disagreements {
							if sum.Disagreements[i].Sig != sig {
								continue
							}
							if exGlyphs[sig][k] < 2 {
								sum.Disagreements[i] = dg
								exGlyphs[sig][k] = len(v.Font.Glyphs)
								break
							}
							k++
						}
					}
				}
				var perr any
				func() {
					defer func() { perr = recover() }()
					f, m := fqBuild(&v, full)
					fqCheckType1(&v, f, add)
					fqCheckAFM(&v, m, add)
				}()
				if perr != nil {
					add("query method panicked", "a query method panicked", "a result", fmt.Sprint(perr))
				}
				if len(v.Font.Enc) == 0 {
					break
				}
			}
			sum.PerOp["fonts"]++
			if okAll {
				sum.Agreed++
			}
			if len(sum.Samples) < 2 && sum.Vectors%1013 == 17 {
				sum.Samples = append(sum.Samples, fmt.Sprintf("font %s => num %d lists %v fbox %v", fj, v.Num, v.Lists, v.FBox))
			}
			return nil
		})
		if err != nil {
			return err
		}
	}
	sum.Distinct = len(distinct)
	sum.ExpectOK = sum.Vectors
	if *perVector {
		return emit(struct {
			replaySummary
			PerVector [][]string `json:"per_vector"`
		}{sum, perVec})
	}
	return emit(sum)
}

type fqAdd func(sig, what, exp, obs string)

func fqCheckType1(v *fqVector, f *type1.Font, add fqAdd) {
	n := f.NumGlyphs()
	if n != v.Num {
		add("type1 NumGlyphs", "Font.NumGlyphs differs from the number of glyphs including .notdef", fmt.Sprint(v.Num), fmt.Sprint(n))
	}
	l := f.GlyphList()
	if !fqListIn(l, v.Lists) {
		add("type1 GlyphList: not an admissible list", "Font.GlyphList is not .notdef, the encoded glyphs by code, the rest by name",
			fmt.Sprintf("one of %v", v.Lists), fmt.Sprint(l))
	}
	if len(l) != n {
		add("type1 GlyphList/NumGlyphs: lengths differ", "len(Font.GlyphList()) differs from Font.NumGlyphs()", fmt.Sprint(n), fmt.Sprint(len(l)))
	}
	for _, name := range fqNameOrder {
		want, asked := v.Q[name]
		if !asked {
			continue
		}
		if g, ok := f.Glyphs[name]; ok {
			if b := g.BBox(); !fqRectClose(b, fqDouble(want.Box)) {
				add("type1 Glyph.BBox", "Glyph.BBox is not the smallest rectangle containing the end points", fmt.Sprintf("%s: %v", name, want.Box), fmt.Sprint(b))
			}
		}
		if b := f.GlyphBBoxPDF(name); !fqRectClose(b, want.BoxPDF) {
			add("type1 GlyphBBoxPDF", "Font.GlyphBBoxPDF is not the box of the end points mapped through the font matrix times 1000",
				fmt.Sprintf("%s: %s", name, fqHalfString(want.BoxPDF)), fmt.Sprint(b))
		}
		if w := f.GlyphWidthPDF(name); !fqClose(w, want.W) {
			add("type1 GlyphWidthPDF", "Font.GlyphWidthPDF is not width x horizontal scale x 1000 (with .notdef / 0 fall-back)",
				fmt.Sprintf("%s: %g", name, float64(want.W)/2), fmt.Sprint(w))
		}
	}
	if b := f.FontBBox(); !fqRectClose(b, fqDouble(v.FBox)) {
		add("type1 FontBBox", "Font.FontBBox is not the union of the non-zero glyph boxes", fmt.Sprint(v.FBox), fmt.Sprint(b))
	}
	if b := f.FontBBoxPDF(); !fqRectClose(b, v.FBoxPDF) {
		add("type1 FontBBoxPDF", "Font.FontBBoxPDF is not the union of the non-zero PDF glyph boxes", fqHalfString(v.FBoxPDF), fmt.Sprint(b))
	}
	wm := f.WidthsMapPDF()
	okMap := len(wm) == len(v.WKeys)
	for _, k := range v.WKeys {
		w, has := wm[k]
		if !has || !fqClose(w, v.Q[k].W) {
			okMap = false
		}
	}
	if !okMap {
		add("type1 WidthsMapPDF", "Font.WidthsMapPDF does not map every glyph to its PDF width", fmt.Sprintf("keys %v", v.WKeys), fmt.Sprint(wm))
	}
}

func fqCheckAFM(v *fqVector, m *afm.Metrics, add fqAdd) {
	n := m.NumGlyphs()
	if n != v.Num {
		add("afm NumGlyphs", "Metrics.NumGlyphs differs from the number of glyphs including .notdef", fmt.Sprint(v.Num), fmt.Sprint(n))
	}
	l := m.GlyphList()
	if !fqListIn(l, v.Lists) {
		hasNotdef := false
		for _, x := range l {
			if x == ".notdef" {
				hasNotdef = true
			}
		}
		if !hasNotdef && fqListIn(append([]string{".notdef"}, l...), v.Lists) {
			add(sigQ1, "Metrics.GlyphList omits .notdef when the glyph map has no .notdef entry, while NumGlyphs counts it",
				fmt.Sprintf("one of %v (NumGlyphs %d)", v.Lists, n), fmt.Sprint(l))
		} else {
			add("afm GlyphList: not an admissible list", "Metrics.GlyphList is not .notdef, the encoded glyphs by code, the rest by name",
				fmt.Sprintf("one of %v", v.Lists), fmt.Sprint(l))
		}
	} else if len(l) != n {
		add("afm GlyphList/NumGlyphs: lengths differ", "len(Metrics.GlyphList()) differs from Metrics.NumGlyphs()", fmt.Sprint(n), fmt.Sprint(len(l)))
	}
	if b := m.FontBBoxPDF(); !fqRectClose(b, fqDouble(v.AfmFBox)) {
		add("afm FontBBoxPDF", "Metrics.FontBBoxPDF is not the union of the non-zero glyph boxes", fmt.Sprint(v.AfmFBox), fmt.Sprint(b))
	}
	for _, name := range fqNameOrder {
		want, asked := v.Q[name]
		if !asked {
			continue
		}
		if w := m.GlyphWidthPDF(name); !fqClose(w, 2*want.AfmW) {
			add("afm GlyphWidthPDF", "Metrics.GlyphWidthPDF is not the glyph's width (with .notdef / 0 fall-back)",
				fmt.Sprintf("%s: %d", name, want.AfmW), fmt.Sprint(w))
		}
	}
}
