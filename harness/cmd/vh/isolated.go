package main

import (
	"bytes"
	"encoding/json"
	"fmt"
	"os"
	"os/exec"
	"runtime"
	"runtime/debug"
	"strings"
	"sync"
	"syscall"
	"time"

	"vharness/model"
)

// Isolation of a replayer: the vectors are replayed by child processes (address
// space limit, bounded Go stack), so that what no recover() can catch - a fatal
// "stack overflow", "out of memory" or "concurrent map writes" of the runtime, a
// call that never returns - is observed by the parent as the death or silence of
// a child, not suffered.  A dying batch is bisected down to single vectors; each
// of those becomes a disagreement "process-abort" or "hang".

// childLimits is called by a replayer running as a child.
func childLimits() {
	var lim syscall.Rlimit
	lim.Cur, lim.Max = 6<<30, 6<<30
	syscall.Setrlimit(syscall.RLIMIT_AS, &lim)
	debug.SetMaxStack(256 << 20)
}

// runIsolated replays the vectors of path with `vh <sub...> <chunk>` in child
// processes and merges their summaries.  describe renders one vector for a report.
func runIsolated(sub []string, path string, batch int, perChild time.Duration, sigPrefix string, describe func(raw []byte) string) error {
	var lines [][]byte
	err := model.ReadAny(path, func(line int, raw []byte) error {
		lines = append(lines, append([]byte{}, raw...))
		return nil
	})
	if err != nil {
		return err
	}
	self, _ := os.Executable()
	total := replaySummary{PerOp: map[string]int{}, PerOpOK: map[string]int{}, BySig: map[string]int{}}
	var mu sync.Mutex
	runBatch := func(lo, hi int) (*replaySummary, string) {
		tmp, _ := os.CreateTemp("", "isobatch*.ndjson")
		for k := lo; k < hi; k++ {
			tmp.Write(lines[k])
			tmp.Write([]byte("\n"))
		}
		tmp.Close()
		defer os.Remove(tmp.Name())
		args := append(append([]string{}, sub...), tmp.Name())
		cmd := exec.Command(self, args...)
		cmd.Env = append(os.Environ(), "VH_CHILD=1", "GOMAXPROCS=4")
		var out, errb bytes.Buffer
		cmd.Stdout, cmd.Stderr = &out, &errb
		done := make(chan error, 1)
		if err := cmd.Start(); err != nil {
			return nil, "cannot start child: " + err.Error()
		}
		go func() { done <- cmd.Wait() }()
		select {
		case e := <-done:
			if e != nil {
				msg := strings.TrimSpace(errb.String())
				if i := strings.Index(msg, "\n"); i > 0 {
					msg = msg[:i]
				}
				return nil, fmt.Sprintf("%v: %s", e, msg)
			}
		case <-time.After(perChild):
			cmd.Process.Kill()
			<-done
			return nil, fmt.Sprintf("no return within %v", perChild)
		}
		var s replaySummary
		if err := json.Unmarshal(out.Bytes(), &s); err != nil {
			return nil, "bad child output: " + err.Error()
		}
		return &s, ""
	}
	merge := func(s *replaySummary) {
		mu.Lock()
		defer mu.Unlock()
		total.Vectors += s.Vectors
		total.Agreed += s.Agreed
		total.ExpectOK += s.ExpectOK
		total.ExpectError += s.ExpectError
		total.Unreproduced += s.Unreproduced
		total.Distinct += s.Distinct
		total.NDisagree += s.NDisagree
		for k, v := range s.PerOp {
			total.PerOp[k] += v
		}
		for k, v := range s.PerOpOK {
			total.PerOpOK[k] += v
		}
		for _, d := range s.Disagreements {
			if total.BySig[d.Sig] < 2 && len(total.Disagreements) < 400 {
				total.Disagreements = append(total.Disagreements, d)
			}
		}
		for k, v := range s.BySig {
			total.BySig[k] += v
		}
		if len(total.Samples) < 5 {
			total.Samples = append(total.Samples, s.Samples...)
		}
	}
	deaths := 0
	var work func(lo, hi int)
	work = func(lo, hi int) {
		mu.Lock()
		tooMany := deaths >= 12
		mu.Unlock()
		if tooMany {
			return // the verdict is a violation anyway; do not bisect for ever
		}
		s, dead := runBatch(lo, hi)
		if dead == "" {
			merge(s)
			return
		}
		if hi-lo == 1 {
			kind := "process-abort"
			if strings.Contains(dead, "no return") {
				kind = "hang"
			}
			mu.Lock()
			deaths++
			total.Vectors++
			total.NDisagree++
			sig := sigPrefix + " " + kind
			total.BySig[sig]++
			if total.BySig[sig] <= 4 {
				total.Disagreements = append(total.Disagreements, disagreement{Sig: sig,
					What:     "the call killed the process (fatal runtime error) or did not return",
					Stimulus: describe(lines[lo]), Expected: "a result or an error value", Observed: dead, Line: lo + 1})
			}
			mu.Unlock()
			return
		}
		mid := (lo + hi) / 2
		work(lo, mid)
		work(mid, hi)
	}
	var wg sync.WaitGroup
	sem := make(chan struct{}, max(2, runtime.NumCPU()/4))
	for lo := 0; lo < len(lines); lo += batch {
		lo, hi := lo, min(lo+batch, len(lines))
		wg.Add(1)
		sem <- struct{}{}
		go func() {
			defer wg.Done()
			work(lo, hi)
			<-sem
		}()
	}
	wg.Wait()
	return emit(total)
}
