package main

import (
	"bufio"
	"encoding/json"
	"fmt"
	"math/rand"
	"os"
	"strings"

	ps "seehuhn.de/go/postscript"
)

func init() { register("trace-pswrite", tracePSWrite) }

// tracePSWrite <out.ndjson> <maxlen> <nrandom> <seed>: records what String.PS
// and Name.PS produce; also checks that the library reads its own output back.
func tracePSWrite(args []string) error {
	var maxLen, nRandom int
	var seed int64
	fmt.Sscan(args[1], &maxLen)
	fmt.Sscan(args[2], &nRandom)
	fmt.Sscan(args[3], &seed)
	f, err := os.Create(args[0])
	if err != nil {
		return err
	}
	defer f.Close()
	w := bufio.NewWriter(f)
	defer w.Flush()
	type ev struct {
		Kind string `json:"kind"`
		B    []int  `json:"b"`
		Text []int  `json:"text"`
	}
	ints := func(s string) []int {
		out := make([]int, len(s))
		for i := 0; i < len(s); i++ {
			out[i] = int(s[i])
		}
		return out
	}
	n, selfBad := 0, 0
	var firstBad string
	emitStr := func(b []byte) error {
		text := ps.String(b).PS()
		n++
		// library reads its own output back
		intp := ps.NewInterpreter()
		if err := intp.ExecuteString(text); err != nil || len(intp.Stack) != 1 {
			selfBad++
			firstBad = fmt.Sprintf("%q -> %q: %v", b, text, err)
		} else if s, ok := intp.Stack[0].(ps.String); !ok || string(s) != string(b) {
			selfBad++
			firstBad = fmt.Sprintf("%q -> %q -> %q", b, text, intp.Stack[0])
		}
		return json.NewEncoder(w).Encode(ev{"str", ints(string(b)), ints(text)})
	}
	alpha := []byte{'(', ')', '\\', '\r', '\n', 'a', '0', '7', '%', ' ', 0, 200}
	var rec func(prefix []byte) error
	rec = func(prefix []byte) error {
		if err := emitStr(prefix); err != nil {
			return err
		}
		if len(prefix) == maxLen {
			return nil
		}
		for _, c := range alpha {
			if err := rec(append(append([]byte{}, prefix...), c)); err != nil {
				return err
			}
		}
		return nil
	}
	if err := rec(nil); err != nil {
		return err
	}
	rng := rand.New(rand.NewSource(seed))
	for i := 0; i < nRandom; i++ {
		b := make([]byte, 4+rng.Intn(40))
		for j := range b {
			if rng.Intn(3) == 0 {
				b[j] = alpha[rng.Intn(len(alpha))]
			} else {
				b[j] = byte(rng.Intn(256))
			}
		}
		if err := emitStr(b); err != nil {
			return err
		}
	}
	// names over regular characters
	regular := []byte("abzAZ09.-_+*!$&'?@^`|~\"#;:,=\\\x7f\x80\xff")
	for i := 0; i < 40+nRandom/4; i++ {
		b := make([]byte, rng.Intn(12))
		for j := range b {
			b[j] = regular[rng.Intn(len(regular))]
		}
		text := ps.Name(b).PS()
		n++
		intp := ps.NewInterpreter()
		if err := intp.ExecuteString(text); err != nil || len(intp.Stack) != 1 || intp.Stack[0] != ps.Name(b) {
			selfBad++
			firstBad = fmt.Sprintf("name %q -> %q", b, text)
		}
		if err := json.NewEncoder(w).Encode(ev{"name", ints(string(b)), ints(text)}); err != nil {
			return err
		}
	}
	_ = strings.TrimSpace
	return emit(map[string]any{"events": n, "self_roundtrip_failures": selfBad, "first_failure": firstBad})
}
