package main

import (
	"encoding/json"
	"flag"
	"fmt"
	"os"
	"runtime"
	"sort"
	"strings"
	"sync"
	"time"

	ps "seehuhn.de/go/postscript"

	"vharness/model"
	"vharness/psbind"
)

func init() { register("replay-ps", replayPS) }

// psVector is one behaviour emitted by an MC_PS* configuration.
type psVector struct {
	Op     string        `json:"op"`
	Prog   []model.Value `json:"prog"`
	Init   []model.Value `json:"init"`
	Dst0   []int         `json:"dst0"`
	MaxOps int           `json:"maxops"`
	Status string        `json:"status"`
	Errs   []string      `json:"errs"`
	NOps   *int          `json:"nops"`
	Text   *string       `json:"-"` // pre-rendered input (set by other replayers)
	Label  string        `json:"-"`
	psbind.Final
}

type disagreement struct {
	Sig      string `json:"sig"`
	What     string `json:"what"`
	Stimulus string `json:"stimulus"`
	Expected string `json:"expected"`
	Observed string `json:"observed"`
	Line     int    `json:"line"`
}

type psBase struct {
	Heap   []model.Cell `json:"heap"`
	NFixed int          `json:"nfixed"`
}

type replaySummary struct {
	Vectors       int            `json:"vectors"`
	Agreed        int            `json:"agreed"`
	ExpectOK      int            `json:"expect_ok"`
	ExpectError   int            `json:"expect_error"`
	PerOp         map[string]int `json:"per_op"`
	PerOpOK       map[string]int `json:"per_op_ok"`
	Unreproduced  int            `json:"unreproduced"`
	Distinct      int            `json:"distinct"`
	Disagreements []disagreement `json:"disagreements"`
	NDisagree     int            `json:"n_disagree"`
	BySig         map[string]int `json:"by_sig"`
	Samples       []string       `json:"samples"`
}

func loadBase(path string) (*psBase, error) {
	data, err := os.ReadFile(path)
	if err != nil {
		return nil, err
	}
	var b psBase
	if err := json.Unmarshal(data, &b); err != nil {
		return nil, fmt.Errorf("%s: %v", path, err)
	}
	return &b, nil
}

func stimulusText(v *psVector) string {
	var sb strings.Builder
	if v.Label != "" {
		return v.Label
	}
	if len(v.Init) > 0 {
		sb.WriteString("stack[")
		for i, x := range v.Init {
			if i > 0 {
				sb.WriteByte(' ')
			}
			sb.WriteString(psbind.Show(x))
		}
		sb.WriteString("] ")
	}
	if v.Op != "" && len(v.Prog) == 0 {
		sb.WriteString(v.Op)
	} else {
		calls, err := psbind.Calls(v.Prog)
		if err != nil {
			sb.WriteString("?" + err.Error())
		} else {
			sb.WriteString(strings.Join(calls, " || "))
		}
	}
	if v.MaxOps > 0 {
		fmt.Fprintf(&sb, " (MaxOps=%d)", v.MaxOps)
	}
	if len(v.Dst0) > 2 {
		fmt.Fprintf(&sb, " (dictstack %v)", v.Dst0)
	}
	return sb.String()
}

// progFeatures summarises a program by the operators it uses, so that
// disagreements group into classes instead of one signature per program text.
func progFeatures(toks []model.Value) string {
	set := map[string]bool{}
	for i, t := range toks {
		if t.T == "xname" {
			set[t.S] = true
		}
		if t.T == "rbrace" && i+1 < len(toks) && toks[i+1].T == "rbrace" {
			set["<proc-last-in-body>"] = true
		}
		if t.T == "eoc" {
			set["<call-split>"] = true
		}
	}
	var names []string
	for n := range set {
		names = append(names, n)
	}
	sort.Strings(names)
	s := strings.Join(names, " ")
	if len(s) > 160 {
		s = s[:160]
	}
	return s
}

func opSig(v *psVector, kind string) string {
	var cls []string
	init := v.Init
	// the two topmost operands identify the failing class; deeper ones are context
	keep := 2
	if kind == "panic" {
		keep = 1
	}
	if len(init) > keep {
		init = init[len(init)-keep:]
	}
	for _, x := range init {
		cls = append(cls, psbind.Class(x))
	}
	name := v.Op
	if name == "" {
		name = "prog{" + progFeatures(v.Prog) + "}"
		if strings.HasPrefix(kind, "budget-count") {
			name = "prog"
		}
	}
	return fmt.Sprintf("%s [%s] %s", name, strings.Join(cls, ","), kind)
}

// checkVector replays one vector; returns nil or a disagreement.
var crashOnly bool
var compareCount bool

func checkVector(base *psBase, v *psVector, line int) *disagreement {
	mk := func(kind, what, exp, obs string) *disagreement {
		return &disagreement{Sig: opSig(v, kind), What: what, Stimulus: stimulusText(v), Expected: exp, Observed: obs, Line: line}
	}
	b, err := psbind.New(base.Heap)
	if err != nil {
		return mk("harness", "harness error: "+err.Error(), "", "")
	}
	if err := b.SeedFixed(); err != nil {
		return mk("harness", "harness error: "+err.Error(), "", "")
	}
	for i, id := range v.Dst0 {
		if i < 2 {
			continue
		}
		o, err := b.Object(model.Value{T: "dict", ID: id})
		if err != nil {
			return mk("harness", "harness error: "+err.Error(), "", "")
		}
		b.Intp.DictStack = append(b.Intp.DictStack, o.(ps.Dict))
	}
	for _, x := range v.Init {
		o, err := b.Object(x)
		if err != nil {
			return mk("harness", "harness error: "+err.Error(), "", "")
		}
		b.Intp.Stack = append(b.Intp.Stack, o)
	}
	var calls []string
	if v.Text != nil {
		calls = []string{*v.Text}
	} else if v.Op != "" && len(v.Prog) == 0 {
		calls = []string{v.Op}
	} else {
		calls, err = psbind.Calls(v.Prog)
		if err != nil {
			return mk("harness", "harness error: "+err.Error(), "", "")
		}
	}
	// the specification only emits behaviours that terminate within its own step
	// bound; a safety budget keeps a diverging library from hanging the replay
	maxops := v.MaxOps
	if maxops == 0 {
		maxops = safetyBudget
	}
	out := b.Run(calls, maxops)
	if crashOnly {
		// C01: any normal return (result or error value) is fine, a panic is not
		if out.Panic != nil {
			return mk("panic", fmt.Sprintf("the library panicked: %v", out.Panic), "no panic", fmt.Sprint(out.Panic))
		}
		return nil
	}
	if v.MaxOps == 0 && psbind.ErrName(out.Err) == "budget" {
		return mk("diverges", fmt.Sprintf("the library is still running after %d operations where the reference terminates", safetyBudget), v.Status+" "+strings.Join(v.Errs, "|"), "no termination within the safety budget")
	}
	if out.Panic != nil {
		return mk("panic", fmt.Sprintf("the library panicked: %v", out.Panic), "no panic", fmt.Sprint(out.Panic))
	}
	switch v.Status {
	case "done":
		if out.Err != nil {
			return mk("unexpected-error:"+psbind.ErrName(out.Err), "the reference prescribes a result, the library fails", "success", out.Err.Error())
		}
		if err := b.Compare(&v.Final); err != nil {
			return mk("state", "final state differs from the reference", "", err.Error())
		}
		// the number of operations is compared only where the property speaks about it (C11, -count):
		// what counts as one operation is the interpreter's business
		if compareCount && v.NOps != nil && *v.NOps != out.NumOps {
			return mk("numops", "operation count differs from the reference", fmt.Sprintf("NumOps=%d", *v.NOps), fmt.Sprintf("NumOps=%d", out.NumOps))
		}
	case "error":
		if out.Err == nil {
			return mk("missing-error:"+strings.Join(v.Errs, "|"), "the reference prescribes an error, the library succeeds", "error "+strings.Join(v.Errs, "|"), "success")
		}
		name := psbind.ErrName(out.Err)
		ok := false
		for _, e := range v.Errs {
			if e == name {
				ok = true
			}
		}
		if !ok {
			return mk("error-name:"+name+"!="+strings.Join(v.Errs, "|"), "wrong error name", "error "+strings.Join(v.Errs, "|"), out.Err.Error())
		}
		if len(v.Errs) == 1 && v.Errs[0] == "budget" && out.NumOps != v.MaxOps+1 {
			return mk(fmt.Sprintf("budget-count overshoot=%d", out.NumOps-v.MaxOps-1), "the budget error must surface with NumOps = MaxOps+1", fmt.Sprintf("NumOps=%d", v.MaxOps+1), fmt.Sprintf("NumOps=%d", out.NumOps))
		}
	default:
		return mk("harness", "vector with status "+v.Status, "", "")
	}
	return nil
}

const safetyBudget = 20000

func replayPS(args []string) error {
	fs := flag.NewFlagSet("replay-ps", flag.ContinueOnError)
	basePath := fs.String("base", "psbase.json", "base heap written by the specification")
	maxReport := fs.Int("max-report", 400, "maximum number of disagreements reported in detail")
	fs.BoolVar(&crashOnly, "crash-only", false, "only panics count (C01)")
	fs.BoolVar(&compareCount, "count", false, "also compare Interpreter.NumOps with the reference (C11)")
	isolate := fs.Bool("isolate", false, "replay in child processes: fatal runtime errors and hangs are observed (C01)")
	if err := fs.Parse(args); err != nil {
		return err
	}
	if *isolate {
		sub := []string{"replay-ps", "-base", *basePath}
		if crashOnly {
			sub = append(sub, "-crash-only")
		}
		if compareCount {
			sub = append(sub, "-count")
		}
		return runIsolated(sub, fs.Arg(0), 30000, 300*time.Second, "psop", func(raw []byte) string {
			var v psVector
			if json.Unmarshal(raw, &v) != nil {
				return string(raw[:min(len(raw), 300)])
			}
			return stimulusText(&v)
		})
	}
	if os.Getenv("VH_CHILD") != "" {
		childLimits()
	}
	base, err := loadBase(*basePath)
	if err != nil {
		return err
	}
	type job struct {
		line int
		raw  []byte
	}
	jobs := make(chan job, 1024)
	var mu sync.Mutex
	sum := replaySummary{PerOp: map[string]int{}, PerOpOK: map[string]int{}, BySig: map[string]int{}}
	distinct := map[string]bool{}
	var wg sync.WaitGroup
	var firstErr error
	hangs := 0
	for w := 0; w < runtime.NumCPU(); w++ {
		wg.Add(1)
		go func() {
			defer wg.Done()
			for j := range jobs {
				var v psVector
				if err := json.Unmarshal(j.raw, &v); err != nil {
					mu.Lock()
					if firstErr == nil {
						firstErr = fmt.Errorf("line %d: %v", j.line, err)
					}
					mu.Unlock()
					continue
				}
				// an operator that does not return is reported as a hang and its goroutine
				// abandoned; after a few of them the rest is left unexamined
				mu.Lock()
				giveUp := hangs >= 6
				mu.Unlock()
				if giveUp {
					continue
				}
				var d *disagreement
				done := make(chan *disagreement, 1)
				go func() { done <- checkVector(base, &v, j.line) }()
				hung := false
				select {
				case d = <-done:
				case <-time.After(30 * time.Second):
					hung = true
					d = &disagreement{Sig: opSig(&v, "hang"), What: "the call did not return within 30 s", Stimulus: stimulusText(&v), Expected: "a result or an error value", Observed: "still running", Line: j.line}
					mu.Lock()
					hangs++
					mu.Unlock()
				}
				unrep := false
				if d != nil && !hung {
					// a disagreement counts only if the stimulus alone reproduces it
					if d2 := checkVector(base, &v, j.line); d2 == nil || d2.Sig != d.Sig {
						unrep = true
					}
				}
				stim := stimulusText(&v)
				mu.Lock()
				sum.Vectors++
				key := v.Op
				if key == "" {
					key = "prog"
				}
				sum.PerOp[key]++
				distinct[stim] = true
				if unrep {
					sum.Unreproduced++
					d = nil
				}
				if v.Status == "done" {
					sum.ExpectOK++
					sum.PerOpOK[key]++
				} else {
					sum.ExpectError++
				}
				if len(sum.Samples) < 5 && j.line%9973 == 1 {
					sum.Samples = append(sum.Samples, stim+" => "+v.Status+" "+strings.Join(v.Errs, "|"))
				}
				if d == nil {
					sum.Agreed++
				} else {
					sum.NDisagree++
					sum.BySig[d.Sig]++
					if sum.BySig[d.Sig] <= 2 && len(sum.Disagreements) < *maxReport {
						sum.Disagreements = append(sum.Disagreements, *d)
					}
				}
				mu.Unlock()
			}
		}()
	}
	for _, path := range fs.Args() {
		err := model.ReadVectors(path, func(line int, raw []byte) error {
			cp := make([]byte, len(raw))
			copy(cp, raw)
			jobs <- job{line, cp}
			return nil
		})
		if err != nil {
			close(jobs)
			return err
		}
	}
	close(jobs)
	wg.Wait()
	if firstErr != nil {
		return firstErr
	}
	sum.Distinct = len(distinct)
	sort.Slice(sum.Disagreements, func(i, j int) bool { return sum.Disagreements[i].Sig < sum.Disagreements[j].Sig })
	return emit(sum)
}
