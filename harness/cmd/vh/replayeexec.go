package main

import (
	"encoding/json"
	"flag"
	"fmt"
	"math/rand"
	"strings"

	"vharness/indep"
	"vharness/model"
	"vharness/psbind"
)

func init() {
	register("replay-eexec", replayEexec)
	register("selftest-eexec", selftestEexec)
}

type eexecVec struct {
	Pre     []model.Value `json:"pre"`
	Plain   []model.Value `json:"plain"`
	Trailer string        `json:"trailer"`
	Form    string        `json:"form"`
	Lead    []string      `json:"lead"`
	Ws      string        `json:"ws"`
	Blank   string        `json:"blank"`
	EndWs   string        `json:"endws"`
	P       int           `json:"p"`
	psVector
}

func classMember(cls string, rng *rand.Rand) byte {
	switch cls {
	case "digit":
		return byte('0' + rng.Intn(10))
	case "af":
		return byte('a' + rng.Intn(6))
	case "AF":
		return byte('A' + rng.Intn(6))
	case "blank":
		return []byte{' ', '\t', '\r', '\n'}[rng.Intn(4)]
	case "lowctl":
		return []byte{0, 1, 0x0c, 0x1f, 0x0b, '%', '(', '<', '/', '{'}[rng.Intn(10)]
	}
	for {
		b := byte(rng.Intn(256))
		if !(b >= '0' && b <= '9' || b >= 'a' && b <= 'f' || b >= 'A' && b <= 'F' || b == ' ' || b == '\t' || b == '\r' || b == '\n') {
			return b
		}
	}
}

func hexNibble(c byte) byte {
	switch {
	case c >= '0' && c <= '9':
		return c - '0'
	case c >= 'a' && c <= 'f':
		return c - 'a' + 10
	}
	return c - 'A' + 10
}

// renderPlain renders the section's tokens; raw data follows its readstring
// after exactly one separator byte.
func renderPlain(toks []model.Value, endws string) ([]byte, error) {
	var out []byte
	for i, t := range toks {
		if t.T == "raw" {
			out = append(out, toB(t.Bytes)...)
			if i+1 < len(toks) {
				out = append(out, ' ')
			}
			continue
		}
		var sb strings.Builder
		if err := psbind.RenderToken(&sb, t); err != nil {
			return nil, err
		}
		out = append(out, sb.String()...)
		if i+1 < len(toks) {
			out = append(out, ' ')
		} else {
			switch endws {
			case "cr":
				out = append(out, '\r')
			case "crlf":
				out = append(out, '\r', '\n')
			default:
				out = append(out, '\n')
			}
		}
	}
	return out, nil
}

// renderEexec builds the complete input text of a vector.
func renderEexec(v *eexecVec, rng *rand.Rand) ([]byte, error) {
	var sb strings.Builder
	for i, t := range v.Pre {
		if i > 0 {
			sb.WriteByte(' ')
		}
		if err := psbind.RenderToken(&sb, t); err != nil {
			return nil, err
		}
	}
	switch v.Blank {
	case "sp":
		sb.WriteString(" ")
	case "lf":
		sb.WriteString("\n")
	case "crlf":
		sb.WriteString("\r\n")
	default:
		sb.WriteString("\t \n")
	}
	out := []byte(sb.String())
	plain, err := renderPlain(v.Plain, v.EndWs)
	if err != nil {
		return nil, err
	}
	// encSection lays out one encrypted section (lead bytes, cipher text in the vector's form)
	encSection := func(plain []byte) {
		// the four lead bytes: cipher bytes are chosen, the plaintext lead follows from them
		var lead []byte // cipher bytes
		var leadChars []byte
		if v.Form == "bin" {
			for _, c := range v.Lead {
				lead = append(lead, classMember(c, rng))
			}
		} else {
			for _, c := range v.Lead {
				leadChars = append(leadChars, classMember(c, rng))
			}
			lead = []byte{hexNibble(leadChars[0])<<4 | hexNibble(leadChars[1]), hexNibble(leadChars[2])<<4 | hexNibble(leadChars[3]),
				byte(rng.Intn(256)), byte(rng.Intn(256))}
		}
		ciph := indep.Cipher{R: indep.R0Eexec}
		for _, c := range lead {
			ciph.Dec(c) // advances the key by the chosen cipher bytes
		}
		cipher := append([]byte{}, lead...)
		for _, p := range plain {
			cipher = append(cipher, ciph.Enc(p))
		}
		if v.Form == "bin" {
			out = append(out, cipher...)
		} else {
			digits := make([]byte, 0, 2*len(cipher))
			for i, c := range cipher {
				for k, nib := range []byte{c >> 4, c & 15} {
					idx := 2*i + k
					if idx < 4 {
						digits = append(digits, leadChars[idx])
						continue
					}
					upper := v.Form == "hexupper" || v.Form == "hexmixed" && rng.Intn(2) == 0
					if upper {
						digits = append(digits, "0123456789ABCDEF"[nib])
					} else {
						digits = append(digits, "0123456789abcdef"[nib])
					}
				}
			}
			for i, d := range digits {
				// white space only after the first four digits
				if i >= 4 {
					switch v.Ws {
					case "every2":
						if i%2 == 0 {
							out = append(out, ' ')
						}
					case "lines64":
						if i%64 == 0 {
							out = append(out, '\n')
						}
					case "crlf7":
						if i%7 == 0 {
							out = append(out, '\r', '\n')
						}
					case "tabs3":
						if i%3 == 0 {
							out = append(out, '\t', ' ')
						}
					case "wide3":
						if i%2 == 0 {
							out = append(out, ' ', '\t', '\n')
						}
					case "at4", "at5", "at6", "at7", "at9":
						var k int
						fmt.Sscanf(v.Ws, "at%d", &k)
						if i == k {
							out = append(out, ' ')
						}
					}
				}
				out = append(out, d)
			}
		}
	}
	// position of the section: for most vectors a leading comment moves the first cipher byte - or, for
	// a third of them, the last one - to the offsets around the scanner's refill boundary (the four
	// peeked lead bytes, or the look-ahead behind the closing line end, then straddle a refill)
	prefix := out
	out = nil
	encSection(plain)
	sec := out
	out = prefix
	if tgt := []int{0, 509, 510, 511, 512, 513, 1021, 1023}[rng.Intn(8)]; tgt > 0 {
		ref := len(out)
		if rng.Intn(3) == 0 {
			ref = len(out) + len(sec) - 1
		}
		pad := ((tgt-ref)%512 + 512) % 512
		if pad < 2 {
			pad += 512
		}
		out = append([]byte("%"+strings.Repeat("x", pad-2)+"\n"), out...)
	}
	out = append(out, sec...)
	switch v.Trailer {
	case "zeros":
		out = append(out, '\n')
		for i := 0; i < 8; i++ {
			out = append(out, strings.Repeat("0", 64)...)
			out = append(out, '\n')
		}
		out = append(out, "cleartomark\n"...)
	case "tokens":
		out = append(out, "\n/after 2 def\n"...)
	case "second":
		// a second encrypted section in the same stream (two fonts in one file): its
		// decryption starts from the initial key again
		out = append(out, "\n/mid 2 def currentfile eexec"...)
		switch v.Blank {
		case "sp":
			out = append(out, ' ')
		case "lf":
			out = append(out, '\n')
		case "crlf":
			out = append(out, '\r', '\n')
		default:
			out = append(out, '\t', ' ', '\n')
		}
		encSection([]byte("/c 3 def 5 string currentfile exch readstring \x00\xff\x80ab pop /d exch def mark currentfile closefile\n"))
		out = append(out, "\n/after2 4 def\n"...)
	}
	return out, nil
}

func replayEexec(args []string) error {
	fs := flag.NewFlagSet("replay-eexec", flag.ContinueOnError)
	basePath := fs.String("base", "", "base heap")
	seed := fs.Int64("seed", 1, "seed")
	fs.BoolVar(&compareCount, "count", false, "also compare Interpreter.NumOps with the reference (C11)")
	if err := fs.Parse(args); err != nil {
		return err
	}
	base, err := loadBase(*basePath)
	if err != nil {
		return err
	}
	sum := replaySummary{PerOp: map[string]int{}, PerOpOK: map[string]int{}, BySig: map[string]int{}}
	for _, path := range fs.Args() {
		err := model.ReadVectors(path, func(line int, raw []byte) error {
			var v eexecVec
			if err := json.Unmarshal(raw, &v); err != nil {
				return err
			}
			rng := rand.New(rand.NewSource(*seed*7919 + int64(line)))
			text, err := renderEexec(&v, rng)
			if err != nil {
				return err
			}
			s := string(text)
			v.psVector.Text = &s
			v.psVector.Label = fmt.Sprintf("eexec plaintext#%d form=%s ws=%s blank=%s trailer=%s lead=%v", v.P, v.Form, v.Ws, v.Blank, v.Trailer, v.Lead)
			d := checkVector(base, &v.psVector, line)
			sum.Vectors++
			sum.PerOp[v.Form]++
			if v.Status == "done" {
				sum.ExpectOK++
			} else {
				sum.ExpectError++
			}
			if len(sum.Samples) < 3 && line%211 == 1 {
				sum.Samples = append(sum.Samples, fmt.Sprintf("%s: %q", v.psVector.Label, truncate(s, 300)))
			}
			if d == nil {
				sum.Agreed++
			} else {
				tag := "eexec"
				if v.MaxOps > 0 {
					tag = "eexec[budget]"
				}
				d.Sig = fmt.Sprintf("%s form=%s ws=%s trailer=%s plaintext#%d %s", tag, v.Form, v.Ws, v.Trailer, v.P, d.Sig[strings.LastIndex(d.Sig, "] ")+2:])
				d.Stimulus = v.psVector.Label + ": " + fmt.Sprintf("%q", truncate(s, 600))
				sum.NDisagree++
				sum.BySig[d.Sig]++
				if sum.BySig[d.Sig] <= 2 && len(sum.Disagreements) < 300 {
					sum.Disagreements = append(sum.Disagreements, *d)
				}
			}
			return nil
		})
		if err != nil {
			return err
		}
	}
	sum.Distinct = sum.Vectors
	return emit(sum)
}

func truncate(s string, n int) string {
	if len(s) > n {
		return s[:n] + "..."
	}
	return s
}

// selftestEexec compares the independent cipher with vectors computed by Eexec.tla.
func selftestEexec(args []string) error {
	type vec struct {
		R0     int   `json:"r0"`
		Plain  []int `json:"plain"`
		Cipher []int `json:"cipher"`
		Back   []int `json:"back"`
		RAfter int   `json:"rafter"`
	}
	n, bad := 0, 0
	err := model.ReadVectors(args[0], func(line int, raw []byte) error {
		var v vec
		if err := json.Unmarshal(raw, &v); err != nil {
			return err
		}
		n++
		c := indep.Encrypt(uint16(v.R0), toB(v.Plain))
		if string(c) != string(toB(v.Cipher)) || string(toB(v.Back)) != string(toB(v.Plain)) ||
			string(indep.Decrypt(uint16(v.R0), c)) != string(toB(v.Plain)) {
			bad++
		}
		ci := indep.Cipher{R: uint16(v.R0)}
		for _, x := range c {
			ci.Dec(x)
		}
		if int(ci.R) != v.RAfter {
			bad++
		}
		return nil
	})
	if err != nil {
		return err
	}
	if err := emit(map[string]int{"vectors": n, "mismatches": bad}); err != nil {
		return err
	}
	if bad > 0 || n == 0 {
		return fmt.Errorf("independent cipher disagrees with Eexec.tla on %d of %d vectors", bad, n)
	}
	return nil
}
