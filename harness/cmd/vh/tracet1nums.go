package main

import (
	"bufio"
	"bytes"
	"encoding/json"
	"fmt"
	"math"
	"math/rand"
	"os"
	"sort"

	"seehuhn.de/go/geom/matrix"
	"seehuhn.de/go/postscript/funit"
	"seehuhn.de/go/postscript/type1"

	"vharness/fontgen"
	"vharness/indep"
	"vharness/model"
)

func init() { register("trace-t1nums", traceT1Nums) }

func emptyFont() *type1.Font {
	return &type1.Font{
		FontInfo: &type1.FontInfo{FontName: "Nums", Version: "1", FullName: "Nums", FamilyName: "Nums", Weight: "R",
			FontMatrix: matrix.Matrix{0.001, 0, 0, 0.001, 0, 0}},
		Private: &type1.PrivateDict{BlueValues: []funit.Int16{0, 0}, BlueScale: 0.039625, BlueShift: 7, BlueFuzz: 1},
		Glyphs:  map[string]*type1.Glyph{".notdef": {WidthX: 0}},
	}
}

// positions of a decoded charstring, computed with float64 like any decoder would
func runCharstring(items []indep.CSItem) (pts [][2]float64, width float64, hints []float64, err error) {
	var st []float64
	x, y := 0.0, 0.0
	sbx, sby := 0.0, 0.0
	for _, it := range items {
		if it.Num {
			st = append(st, float64(it.V))
			continue
		}
		need := func(n int) bool { return len(st) >= n }
		switch it.Cmd {
		case "div":
			if !need(2) {
				return nil, 0, nil, fmt.Errorf("div underflow")
			}
			st = append(st[:len(st)-2], st[len(st)-2]/st[len(st)-1])
			continue
		case "hsbw":
			x, y, width = st[0], 0, st[1]
			sbx, sby = x, y
		case "sbw":
			x, y, width = st[0], st[1], st[2]
			sbx, sby = x, y
		case "hstem":
			hints = append(hints, sby+st[0], sby+st[0]+st[1]) // relative to the side bearing point
		case "vstem":
			hints = append(hints, sbx+st[0], sbx+st[0]+st[1])
		case "rmoveto":
			x, y = x+st[0], y+st[1]
			pts = append(pts, [2]float64{x, y})
		case "hmoveto":
			x += st[0]
			pts = append(pts, [2]float64{x, y})
		case "vmoveto":
			y += st[0]
			pts = append(pts, [2]float64{x, y})
		case "rlineto":
			x, y = x+st[0], y+st[1]
			pts = append(pts, [2]float64{x, y})
		case "hlineto":
			x += st[0]
			pts = append(pts, [2]float64{x, y})
		case "vlineto":
			y += st[0]
			pts = append(pts, [2]float64{x, y})
		case "rrcurveto":
			x1, y1 := x+st[0], y+st[1]
			x2, y2 := x1+st[2], y1+st[3]
			x, y = x2+st[4], y2+st[5]
			pts = append(pts, [2]float64{x1, y1}, [2]float64{x2, y2}, [2]float64{x, y})
		case "hvcurveto":
			x1, y1 := x+st[0], y
			x2, y2 := x1+st[1], y1+st[2]
			x, y = x2, y2+st[3]
			pts = append(pts, [2]float64{x1, y1}, [2]float64{x2, y2}, [2]float64{x, y})
		case "vhcurveto":
			x1, y1 := x, y+st[0]
			x2, y2 := x1+st[1], y1+st[2]
			x, y = x2+st[3], y2
			pts = append(pts, [2]float64{x1, y1}, [2]float64{x2, y2}, [2]float64{x, y})
		case "closepath", "endchar":
		default:
			return nil, 0, nil, fmt.Errorf("unexpected command %s", it.Cmd)
		}
		st = st[:0]
	}
	return
}

func pointsOf(g *type1.Glyph) [][2]float64 {
	var pts [][2]float64
	for _, c := range g.Cmds {
		for i := 0; i+1 < len(c.Args); i += 2 {
			pts = append(pts, [2]float64{c.Args[i], c.Args[i+1]})
		}
	}
	return pts
}

// traceT1Nums <out.ndjson> <tier> <seed>
func traceT1Nums(args []string) error {
	tier := args[1]
	var seed int64
	fmt.Sscan(args[2], &seed)
	rng := rand.New(rand.NewSource(seed))
	out, err := os.Create(args[0])
	if err != nil {
		return err
	}
	defer out.Close()
	w := bufio.NewWriterSize(out, 1<<20)
	defer w.Flush()
	enc := json.NewEncoder(w)
	type fail struct{ Sig, What, Stim string }
	var fails []fail
	events := 0

	// ---- (a) integers as coordinate deltas
	set := map[int64]bool{}
	lim := int64(7000)
	if tier == "thorough" {
		lim = 70000
	}
	for x := -lim; x <= lim; x++ {
		set[x] = true
	}
	for _, b := range []int64{107, 108, 1131, 1132, 32767, 32768, 65535, 65536} {
		for d := int64(-3); d <= 3; d++ {
			set[b+d] = true
			set[-b+d] = true
		}
	}
	for k := uint(0); k <= 31; k++ {
		for d := int64(-3); d <= 3; d++ {
			v := int64(1)<<k + d
			if v <= math.MaxInt32 {
				set[v] = true
			}
			if -v >= math.MinInt32 {
				set[-v] = true
			}
		}
	}
	nr := 2000
	if tier == "thorough" {
		nr = 1000000
	}
	for i := 0; i < nr; i++ {
		set[int64(int32(rng.Uint32()))] = true
	}
	var vals []int64
	for v := range set {
		vals = append(vals, v)
	}
	sort.Slice(vals, func(i, j int) bool { return vals[i] < vals[j] })
	const perGlyph = 1000
	f := emptyFont()
	var glyphVals [][]int64
	for i := 0; i < len(vals); i += perGlyph {
		chunk := vals[i:min(i+perGlyph, len(vals))]
		g := &type1.Glyph{WidthX: 500}
		g.MoveTo(0, 0)
		x := 0.0
		var deltas []int64
		for _, v := range chunk {
			// out and back, so that positions stay bounded
			if v == math.MinInt32 {
				// -2^31 has no positive counterpart in 32 bits: reach it from the far right
				g.LineTo(x+2147483647, 0)
				g.LineTo(x+2147483647-2147483648, 0)
				g.LineTo(x, 0)
				deltas = append(deltas, 2147483647, -2147483648, 1)
				continue
			}
			g.LineTo(x+float64(v), 0)
			g.LineTo(x, 0)
			deltas = append(deltas, v, -v)
		}
		g.ClosePath()
		name := fmt.Sprintf("g%d", len(glyphVals))
		f.Glyphs[name] = g
		glyphVals = append(glyphVals, deltas)
	}
	// widths and hints at the boundaries
	bnd := []int64{0, 107, 108, -107, -108, 1131, 1132, -1131, -1132, 32767, -32768, 70000, 2147483647}
	for i, v := range bnd {
		g := &type1.Glyph{WidthX: float64(v)}
		if v >= -32768 && v <= 32767 {
			g.HStem = []funit.Int16{funit.Int16(v), funit.Int16(v)}
		}
		f.Glyphs[fmt.Sprintf("w%d", i)] = g
	}
	// stem hints of glyphs whose outline starts away from the origin (hint values are relative to the
	// side bearing point the charstring declares, whatever that is)
	lefts := []float64{0, 50, -30, 1131.5, 20000}
	for i, left := range lefts {
		g := &type1.Glyph{WidthX: 600}
		g.MoveTo(left, 10)
		g.LineTo(left+200, 10)
		g.LineTo(left+100, 700)
		g.ClosePath()
		g.HStem = []funit.Int16{10, 30, 680, 700}
		g.VStem = []funit.Int16{funit.Int16(int(left) % 30000), funit.Int16(int(left)%30000 + 80)}
		if i%2 == 1 {
			// edge ("ghost") stems: the second value lies below the first one (widths -21 and -20)
			g.HStem = []funit.Int16{700, 679, 0, 20}
			g.VStem = append(g.VStem, 20, 0)
		}
		f.Glyphs[fmt.Sprintf("hinted%d", i)] = g
	}
	var buf bytes.Buffer
	if err := f.Write(&buf, &type1.WriterOptions{Format: type1.FormatBinary}); err != nil {
		return err
	}
	ap, err := indep.TakeApart(buf.Bytes())
	if err != nil {
		return fmt.Errorf("taking the written font apart: %v", err)
	}
	back, err := type1.Read(bytes.NewReader(buf.Bytes()))
	if err != nil {
		return fmt.Errorf("reading the written font: %v", err)
	}
	ints := func(b []byte) []int {
		o := make([]int, len(b))
		for i, c := range b {
			o[i] = int(c)
		}
		return o
	}
	for gi, deltas := range glyphVals {
		name := fmt.Sprintf("g%d", gi)
		items, err := indep.DecodeCharstring(ap.Glyphs[name])
		if err != nil {
			fails = append(fails, fail{"nums: written charstring not decodable", err.Error(), name})
			continue
		}
		// numbers that are operands of hlineto
		var written []indep.CSItem
		for i, it := range items {
			if !it.Num && it.Cmd == "hlineto" && i > 0 && items[i-1].Num {
				written = append(written, items[i-1])
			}
		}
		rg := back.Glyphs[name]
		var readDeltas []float64
		if rg != nil {
			prev := 0.0
			for _, c := range rg.Cmds {
				if c.Op == type1.OpLineTo {
					readDeltas = append(readDeltas, c.Args[0]-prev)
					prev = c.Args[0]
				} else if c.Op == type1.OpMoveTo {
					prev = c.Args[0]
				}
			}
		}
		if len(written) != len(deltas) || len(readDeltas) != len(deltas) {
			fails = append(fails, fail{"nums: segment count differs", fmt.Sprintf("%d deltas requested, %d written, %d read", len(deltas), len(written), len(readDeltas)), name})
			continue
		}
		for i, v := range deltas {
			events++
			rd := readDeltas[i]
			rdi := int64(rd)
			if float64(rdi) != rd {
				rdi = math.MinInt64 / 2 // never equal
			}
			enc.Encode(map[string]any{"ev": "num", "ctx": "delta", "want": v, "bytes": ints(written[i].Bytes), "read": rdi})
		}
	}
	for i, v := range bnd {
		name := fmt.Sprintf("w%d", i)
		items, err := indep.DecodeCharstring(ap.Glyphs[name])
		if err != nil || len(items) < 3 {
			fails = append(fails, fail{"nums: written charstring not decodable", fmt.Sprint(err), name})
			continue
		}
		// 0 wx hsbw [y dy hstem]
		events++
		enc.Encode(map[string]any{"ev": "num", "ctx": "width", "want": v, "bytes": ints(items[1].Bytes), "read": int64(back.Glyphs[name].WidthX)})
		if v >= -32768 && v <= 32767 && len(items) >= 6 {
			events++
			rh := int64(math.MinInt64 / 2)
			if len(back.Glyphs[name].HStem) == 2 {
				rh = int64(back.Glyphs[name].HStem[0])
			}
			enc.Encode(map[string]any{"ev": "num", "ctx": "hint", "want": v, "bytes": ints(items[3].Bytes), "read": rh})
		}
	}

	for i := range lefts {
		name := fmt.Sprintf("hinted%d", i)
		g := f.Glyphs[name]
		items, err := indep.DecodeCharstring(ap.Glyphs[name])
		if err != nil {
			fails = append(fails, fail{"nums: written charstring not decodable", err.Error(), name})
			continue
		}
		// hstem operands first, then vstem ones; runCharstring places them relative to the side bearing point
		_, _, hints, err := runCharstring(items)
		wantH := append(append([]funit.Int16{}, g.HStem...), g.VStem...)
		rb := back.Glyphs[name]
		if err != nil || len(hints) != len(wantH) || rb == nil || len(rb.HStem)+len(rb.VStem) != len(wantH) {
			fails = append(fails, fail{"nums: hint count differs", fmt.Sprintf("%v: %d hints decoded, %d wanted", err, len(hints), len(wantH)), name})
			continue
		}
		readH := append(append([]funit.Int16{}, rb.HStem...), rb.VStem...)
		for k, wv := range wantH {
			events++
			if hints[k] != float64(wv) {
				fails = append(fails, fail{"nums: hint value decodes to another position", fmt.Sprintf("hint %d of %s: %v decoded by the independent decoder, %d in the font", k, name, hints[k], wv),
					fmt.Sprintf("glyph with stem hints whose outline starts at x=%v", lefts[i])})
				break
			}
			if readH[k] != wv {
				fails = append(fails, fail{"nums: hint value read back differs", fmt.Sprintf("hint %d of %s: %d read, %d in the font", k, name, readH[k], wv),
					fmt.Sprintf("glyph with stem hints whose outline starts at x=%v", lefts[i])})
				break
			}
		}
	}

	// ---- (b) fractional deltas: one per glyph, so that the requested delta is the value itself
	nf := 2000
	if tier == "thorough" {
		nf = 200000
	}
	var fr []float64
	for q := 1; q <= 107; q++ {
		k := rng.Intn(4*q) - 2*q
		base := float64(k) / float64(q)
		fr = append(fr, base+1e-7, base-1e-7, base+1.0/214.0, base+1.0/(2.0*107.0*108.0))
	}
	for len(fr) < nf {
		switch rng.Intn(3) {
		case 0:
			fr = append(fr, (rng.Float64()*2-1)*1e6)
		case 1:
			fr = append(fr, (rng.Float64()*2-1)*50)
		default:
			fr = append(fr, float64(rng.Intn(2000)-1000)+float64(rng.Intn(213)+1)/214.0)
		}
	}
	ff := emptyFont()
	for i, x := range fr {
		g := &type1.Glyph{WidthX: 100}
		g.MoveTo(0, 0)
		g.LineTo(x, 0)
		g.ClosePath()
		ff.Glyphs[fmt.Sprintf("f%d", i)] = g
	}
	buf.Reset()
	if err := ff.Write(&buf, &type1.WriterOptions{Format: type1.FormatNoEExec}); err != nil {
		return err
	}
	ap, err = indep.TakeApart(buf.Bytes())
	if err != nil {
		return fmt.Errorf("taking the written font apart: %v", err)
	}
	for i, x := range fr {
		if x == math.Trunc(x) {
			continue
		}
		items, err := indep.DecodeCharstring(ap.Glyphs[fmt.Sprintf("f%d", i)])
		if err != nil {
			fails = append(fails, fail{"nums: written charstring not decodable", err.Error(), fmt.Sprint(x)})
			continue
		}
		// ... 0 hmoveto p q div hlineto closepath endchar
		k := -1
		for j, it := range items {
			if !it.Num && it.Cmd == "div" {
				k = j
			}
		}
		if k < 2 || !items[k-1].Num || !items[k-2].Num {
			fails = append(fails, fail{"nums: fractional delta not written as p q div", fmt.Sprintf("%v", items), fmt.Sprint(x)})
			continue
		}
		d, _ := model.DyadicFromFloat(x)
		events++
		enc.Encode(map[string]any{"ev": "frac", "x": x, "s": d.N.S, "m": d.N.M, "e": d.E, "p": items[k-2].V, "q": items[k-1].V})
	}

	// ---- (c) long paths: no accumulation of the rounding error
	maxDev := 0.0
	paths := []int{1, 10, 100, 1000}
	if tier == "thorough" {
		// the library's reader limits strings (and so charstrings) to 65535 bytes: random
		// paths are cut when their estimated encoding reaches 55000 bytes
		paths = append(paths, 10000, 10000, 3000, 300)
	}
	pf := emptyFont()
	shapes := map[string]int{}
	for pi, n := range paths {
		g := &type1.Glyph{WidthX: 100}
		// a third of the coordinates are integers: the h/v forms are only chosen where the
		// position the decoder reconstructs coincides with the requested one
		cx := func() float64 {
			if rng.Intn(3) == 0 {
				return float64(rng.Intn(2000) - 1000)
			}
			return float64(rng.Intn(2000)-1000) + rng.Float64()
		}
		px, py := cx(), cx()
		g.MoveTo(px, py)
		est := 0
		for s := 0; s < n && est < 55000; s++ {
			k := rng.Intn(7)
			switch {
			case k == 0:
				est += 18
			case k <= 4:
				est += 17
			default:
				est += 49
			}
			switch k {
			case 0:
				g.ClosePath()
				// the next contour often starts exactly beside or above the current point (hmoveto / vmoveto)
				switch rng.Intn(3) {
				case 0:
					px = cx()
				case 1:
					py = cx()
				default:
					px, py = cx(), cx()
				}
				g.MoveTo(px, py)
			case 1, 2:
				px, py = cx(), cx()
				g.LineTo(px, py)
			case 3:
				px = cx()
				g.LineTo(px, py) // horizontal
			case 4:
				py = cx()
				g.LineTo(px, py) // vertical
			default:
				// the three curve forms: the writer picks hvcurveto / vhcurveto by coincidences
				x1, y1, x2, y2, x3, y3 := cx(), cx(), cx(), cx(), cx(), cx()
				switch rng.Intn(6) {
				case 0:
					y1, x3 = py, x2 // hvcurveto
				case 1:
					x1, y3 = px, y2 // vhcurveto
				case 2:
					y1, y3 = py, y2 // leaves and arrives horizontally (an S): general form
				case 3:
					x1, x3 = px, x2 // leaves and arrives vertically: general form
				}
				g.CurveTo(x1, y1, x2, y2, x3, y3)
				px, py = x3, y3
			}
		}
		g.ClosePath()
		pf.Glyphs[fmt.Sprintf("p%d", pi)] = g
	}
	// staircases: one command form per glyph, every step 10 + 1/300, so that the
	// rounding errors all have the same sign and add up unless the writer compensates
	stairs := []string{"rlineto", "hlineto", "vlineto", "rrcurveto", "hvcurveto", "vhcurveto", "mixed", "moves", "hcreep", "vcreep"}
	// steps per staircase: as many as fit into a charstring of 65535 bytes (the property
	// speaks of paths of up to 10,000 segments: the h and v line forms reach that)
	nstOf := func(form string) int {
		if form == "hcreep" || form == "vcreep" {
			return 6000 // the creep passes 1/214 after about 5200 steps
		}
		if tier != "thorough" {
			return 60
		}
		switch form {
		case "hlineto", "vlineto":
			return 10000
		case "rlineto":
			return 5000
		case "mixed":
			return 3000
		}
		return 1500
	}
	const st = 10 + 1.0/300
	for si, form := range stairs {
		g := &type1.Glyph{WidthX: 100}
		px, py := 0.0, 0.0
		g.MoveTo(px, py)
		nst := nstOf(form)
		for s := 0; s < nst; s++ {
			fm := form
			if fm == "mixed" {
				fm = []string{"hlineto", "rrcurveto", "vlineto", "rlineto"}[s%4]
			}
			switch fm {
			case "hcreep":
				// whole steps along x while y creeps by less than the writer's alignment tolerance per
				// step, always upwards: what is never written must not be counted as written either
				px, py = px+10, py+9e-7
				g.LineTo(px, py)
			case "vcreep":
				px, py = px+9e-7, py+10
				g.LineTo(px, py)
			case "moves":
				// whole units: a diagonal line, then a new contour exactly beside (hmoveto) or above
				// (vmoveto) the current point, alternately
				px, py = px+3, py+4
				g.LineTo(px, py)
				g.ClosePath()
				if s%2 == 0 {
					px += 10
				} else {
					py += 10
				}
				g.MoveTo(px, py)
			case "rlineto":
				px, py = px+st, py+st
				g.LineTo(px, py)
			case "hlineto":
				px += st
				g.LineTo(px, py)
			case "vlineto":
				py += st
				g.LineTo(px, py)
			case "rrcurveto":
				g.CurveTo(px+st, py+st, px+2*st, py+2*st, px+3*st, py+3*st)
				px, py = px+3*st, py+3*st
			case "hvcurveto": // y in whole units (the form needs an exactly reconstructed y), x fractional
				g.CurveTo(px+st, py, px+2*st, py+10, px+2*st, py+20)
				px, py = px+2*st, py+20
			case "vhcurveto": // x in whole units, y fractional
				g.CurveTo(px, py+st, px+10, py+2*st, px+20, py+2*st)
				px, py = px+20, py+2*st
			}
		}
		g.ClosePath()
		pf.Glyphs[fmt.Sprintf("p%d", len(paths)+si)] = g
	}
	for _, form := range stairs {
		paths = append(paths, nstOf(form))
	}
	fontgen.SegmentShapes(pf, shapes)
	buf.Reset()
	if err := pf.Write(&buf, &type1.WriterOptions{Format: type1.FormatPFA}); err != nil {
		return err
	}
	ap, err = indep.TakeApart(buf.Bytes())
	if err != nil {
		return fmt.Errorf("taking the written font apart: %v", err)
	}
	back, err = type1.Read(bytes.NewReader(buf.Bytes()))
	if err != nil {
		return fmt.Errorf("reading the written font: %v", err)
	}
	const bound = 1.0/214.0 + 1e-9
	pathPoints := 0
	forms := map[string]int{}
	for pi, n := range paths {
		name := fmt.Sprintf("p%d", pi)
		want := pointsOf(pf.Glyphs[name])
		items, err := indep.DecodeCharstring(ap.Glyphs[name])
		if err != nil {
			fails = append(fails, fail{"nums: written charstring not decodable", err.Error(), name})
			continue
		}
		for _, it := range items {
			if !it.Num {
				forms[it.Cmd]++
			}
		}
		got, _, _, err := runCharstring(items)
		if err != nil {
			fails = append(fails, fail{"nums: written charstring not decodable", err.Error(), name})
			continue
		}
		rd := pointsOf(back.Glyphs[name])
		if len(got) != len(want) || len(rd) != len(want) {
			fails = append(fails, fail{"nums: point count differs on a long path", fmt.Sprintf("%d want, %d independent decoder, %d reader", len(want), len(got), len(rd)), fmt.Sprintf("path of %d segments", n)})
			continue
		}
		pathPoints += len(want)
		for i := range want {
			for k := 0; k < 2; k++ {
				d1 := math.Abs(got[i][k] - want[i][k])
				d2 := math.Abs(rd[i][k] - want[i][k])
				maxDev = math.Max(maxDev, math.Max(d1, d2))
				if d1 > bound || d2 > bound {
					fails = append(fails, fail{"nums: point farther than 1/214 from the original on a long path",
						fmt.Sprintf("point %d of %d: want %v, independent decoder %v, reader %v", i, len(want), want[i], got[i], rd[i]), fmt.Sprintf("path of %d segments, seed %d", n, seed)})
					i = len(want)
					break
				}
			}
		}
	}
	return emit(map[string]any{"events": events, "failures": fails, "integers": len(vals), "fractions": len(fr),
		"path_points": pathPoints, "max_deviation": maxDev, "bound": 1.0 / 214.0, "shapes": shapes, "forms_written": forms,
		"axes": []string{fmt.Sprintf("%d integers as deltas, %d widths/hints, %d fractional deltas, paths %v", len(vals), len(bnd), len(fr), paths)}})
}
