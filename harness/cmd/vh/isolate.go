package main

import (
	"bufio"
	"bytes"
	"encoding/json"
	"fmt"
	"math/rand"
	"os"
	"os/exec"
	"reflect"
	"sort"
	"strings"
	"sync"

	ps "seehuhn.de/go/postscript"
	"seehuhn.de/go/postscript/afm"
	"seehuhn.de/go/postscript/type1"
	"seehuhn.de/go/postscript/type1/names"

	"vharness/corpus"
	"vharness/fontgen"
	"vharness/indep"
	"vharness/model"
)

func init() {
	register("isolate", isolateCmd)
	register("probe", probeCmd)
	register("racestress", raceStress)
}

var hostilePrograms = map[string]string{
	"redefine-operator":               "systemdict begin /add {pop pop 42} def /def {pop pop} def end",
	"overwrite-operator-with-garbage": "systemdict /add 7 put systemdict /dict (x) put systemdict /begin null put",
	"put-encoding-slot":               "StandardEncoding 65 /hacked put StandardEncoding 97 42 put 0 1 255 {StandardEncoding exch /gone put} for",
	"alter-cidinit":                   "/CIDInit /ProcSet findresource dup /begincmap {1 pop} put dup /endcidrange 5 put /endcmap {} put",
	"alter-errordict":                 "errordict /typecheck {pop 99} put errordict /undefined {} put 1 (x) add zzz",
	"fail-halfway":                    "/a 1 def 5 dict begin /b 2 def 1 (x) add",
	"define-font-and-resource":        "/F 5 dict dup /FontType 1 put definefont pop /X 3 dict /Font defineresource pop /Y 1 /CIDFont defineresource pop",
	"copy-userdict-into-systemdict":   "/q 1 def userdict systemdict copy pop FontDirectory /zz 1 put",
	"rebind-true-false":               "systemdict /true false put systemdict /false true put systemdict /StandardEncoding 3 put",
	"grow-stacks-and-fail":            "{ currentdict begin 1 } loop",
	"exceed-budget":                   "{ } loop",
}

func init() {
	// a program that fails inside an eexec section (the section is never closed)
	cipher := indep.Encrypt(55665, append([]byte{'X', 'y', 0x80, 'z'}, []byte("/inside 1 def 1 (x) add /never 2 def\n")...))
	hostilePrograms["fail-inside-eexec"] = "currentfile eexec\n" + fmt.Sprintf("%x", cipher) + "\n"
}

// probe: a workload whose digest must not depend on anything that ran before
func probeDigest() string {
	var parts []string
	intp := ps.NewInterpreter()
	intp.MaxOps = 100000
	err := intp.ExecuteString("1 2 add StandardEncoding 65 get StandardEncoding 97 get true false /x 3 def x 1 dict begin /y 4 def y end count " +
		"/CIDInit /ProcSet findresource length errordict length systemdict /add known FontDirectory length")
	var ss []string
	for _, o := range intp.Stack {
		ss = append(ss, fmt.Sprint(o))
	}
	parts = append(parts, fmt.Sprint("prog:", err, ss, len(intp.SystemDict), len(intp.ErrorDict), len(intp.UserDict)))
	intp2 := ps.NewInterpreter()
	e2 := intp2.ExecuteString("1 (x) add")
	parts = append(parts, fmt.Sprint("err:", e2))
	// the texts of the errors a fresh instance reports (the budget error is a package-level value)
	intp3 := ps.NewInterpreter()
	intp3.MaxOps = 40
	e3 := intp3.ExecuteString("{ } loop")
	intp4 := ps.NewInterpreter()
	intp4.CheckStart = true
	e4 := intp4.ExecuteString("not postscript")
	parts = append(parts, fmt.Sprint("errs:", e3, "|", e4, "|", ps.ErrExecutionLimitExceeded, "|", ps.ErrNoPostScript))
	for _, in := range corpus.All(1) {
		r := corpus.Run(in.Entry, bytes.NewReader(in.Data))
		parts = append(parts, in.Name+":"+sha([]byte(r.Digest+"|"+r.Err+"|"+r.Panic)))
		if in.Entry == "type1" {
			if f, err := type1.Read(bytes.NewReader(in.Data)); err == nil {
				var buf bytes.Buffer
				f.Write(&buf, nil)
				parts = append(parts, in.Name+"-rewrite:"+sha(buf.Bytes()))
			}
		}
		if in.Entry == "afm" {
			if m, err := afm.Read(bytes.NewReader(in.Data)); err == nil {
				var buf bytes.Buffer
				m.Write(&buf)
				parts = append(parts, in.Name+"-rewrite:"+sha(buf.Bytes()))
			}
		}
	}
	parts = append(parts, "reachable:"+sha([]byte(reachableDigest())))
	parts = append(parts, fmt.Sprint("names:", names.FromUnicode('A'), names.FromUnicode(0x1F600), string(names.ToUnicode("Aacute_f_i.alt", false)),
		string(names.ToUnicode("a1", true)), names.IsValid("x.y")))
	return sha([]byte(strings.Join(parts, "\n")))
}

func probeCmd(args []string) error { return emit(map[string]string{"digest": probeDigest()}) }

// isolateCmd <histories.ndjson>: every hostile history on one instance, then the probe.
func isolateCmd(args []string) error {
	self, _ := os.Executable()
	out, err := exec.Command(self, "probe").Output()
	if err != nil {
		return fmt.Errorf("baseline process: %v", err)
	}
	var base struct{ Digest string }
	if err := json.Unmarshal(out, &base); err != nil {
		return err
	}
	sum := replaySummary{PerOp: map[string]int{}, PerOpOK: map[string]int{}, BySig: map[string]int{}}
	for _, path := range args {
		err := model.ReadVectors(path, func(line int, raw []byte) error {
			var v struct {
				Hist []string `json:"hist"`
			}
			if err := json.Unmarshal(raw, &v); err != nil {
				return err
			}
			a := ps.NewInterpreter()
			a.MaxOps = 100000
			for _, h := range v.Hist {
				if h == "mutate-all-reachable" {
					mutateAllReachable(a)
					sum.PerOp[h]++
					continue
				}
				if h == "library-calls" {
					libraryCalls()
					sum.PerOp[h]++
					continue
				}
				prog, ok := hostilePrograms[h]
				if !ok {
					return fmt.Errorf("unknown hostile action %q", h)
				}
				func() {
					defer func() { recover() }()
					a.ExecuteString(prog)
				}()
				sum.PerOp[h]++
			}
			sum.Vectors++
			got := probeDigest()
			if got == base.Digest {
				sum.Agreed++
			} else {
				sig := "isolation: probe differs after " + v.Hist[len(v.Hist)-1]
				sum.NDisagree++
				sum.BySig[sig]++
				if sum.BySig[sig] <= 2 {
					sum.Disagreements = append(sum.Disagreements, disagreement{Sig: sig, What: "a fresh instance / later library calls behave differently after a hostile program ran in another instance",
						Stimulus: strings.Join(v.Hist, " ; "), Expected: "probe digest " + base.Digest, Observed: "probe digest " + got})
				}
				return nil
			}
			if len(sum.Samples) < 3 && line%17 == 1 {
				sum.Samples = append(sum.Samples, strings.Join(v.Hist, " ; "))
			}
			return nil
		})
		if err != nil {
			return err
		}
	}
	sum.Distinct = sum.Vectors
	return emit(sum)
}

// raceStress <trace.ndjson> <goroutines> <rounds>: first-use races on the name tables and
// concurrent use of every entry point; meant to run in the -race build.  Records the
// name-table hook events (taken under the table mutex) and compares every result with
// the sequential one.
func raceStress(args []string) error {
	var ng, rounds int
	fmt.Sscan(args[1], &ng)
	fmt.Sscan(args[2], &rounds)
	f, err := os.Create(args[0])
	if err != nil {
		return err
	}
	defer f.Close()
	bw := bufio.NewWriter(f)
	defer bw.Flush()
	enc := json.NewEncoder(bw)
	enc.Encode(map[string]string{"ev": "reset", "table": ""})
	nEvents := 0
	names.Hook = func(ev, table string) { // called under the table mutex
		nEvents++
		if nEvents < 60000 {
			enc.Encode(map[string]string{"ev": ev, "table": table})
		}
	}
	inputs := corpus.All(1)
	// fonts with different glyph sets and encodings, written by all goroutines at the same time: every
	// output must be the one a single goroutine gets (taken before the others start)
	var wfonts []*type1.Font
	wrng := rand.New(rand.NewSource(11))
	for _, e := range []string{"holes", "std-subset", "custom", "none", "std-plus"} {
		wfonts = append(wfonts, fontgen.Generate(wrng, fontgen.Opts{NGlyphs: 3 + len(wfonts)*2, Encoding: e, Zone: "utc"}))
	}
	// two fonts that differ in one StandardEncoding glyph only: one owns "A" but leaves its code unassigned, the other lacks it
	{
		a := fontgen.Generate(wrng, fontgen.Opts{NGlyphs: 4, Encoding: "std-subset", Zone: "utc"})
		if len(a.Encoding) == 256 {
			a.Encoding[65] = ".notdef"
		}
		b := fontgen.Generate(wrng, fontgen.Opts{NGlyphs: 4, Encoding: "std-subset", Zone: "utc"})
		delete(b.Glyphs, "A")
		if len(b.Encoding) == 256 {
			b.Encoding[65] = ".notdef"
		}
		wfonts = append(wfonts, a, b)
	}
	type res struct{ k, v string }
	var mu sync.Mutex
	got := map[string]map[string]bool{}
	rec := func(k, v string) {
		mu.Lock()
		if got[k] == nil {
			got[k] = map[string]bool{}
		}
		got[k][v] = true
		mu.Unlock()
	}
	writeAll := func(k int) {
		for _, ft := range t1Formats {
			var buf bytes.Buffer
			wfonts[k].Write(&buf, &type1.WriterOptions{Format: ft.f})
			rec(fmt.Sprintf("write:font%d/%s", k, ft.name), sha(buf.Bytes()))
		}
	}
	for k := range wfonts {
		writeAll(k) // the sequential reference
	}
	start := make(chan struct{})
	var wg sync.WaitGroup
	for g := 0; g < ng; g++ {
		g := g
		wg.Add(1)
		go func() {
			defer wg.Done()
			<-start // all goroutines hit the uninitialised tables together
			for r := 0; r < rounds; r++ {
				rec(fmt.Sprintf("FromUnicode:%d", r%26), names.FromUnicode(rune('A'+(r%26)))+names.FromUnicode(0x20AC))
				rec("ToUnicode", string(names.ToUnicode("Aacute_f_i.alt", false))+string(names.ToUnicode("a1", true)))
				in := inputs[(g+r)%len(inputs)]
				x := corpus.Run(in.Entry, bytes.NewReader(in.Data))
				rec("run:"+in.Name, sha([]byte(x.Digest+x.Err+x.Panic)))
				intp := ps.NewInterpreter()
				intp.MaxOps = 10000
				intp.ExecuteString(hostilePrograms[[]string{"redefine-operator", "put-encoding-slot", "alter-cidinit", "alter-errordict"}[(g+r)%4]])
				// a workout of the data operators on values of this goroutine's own: whatever an
				// operator keeps outside its instance (a scratch buffer, a shared result) shows as a race
				// or as another goroutine's values
				k := (g + r) % 7
				w := ps.NewInterpreter()
				w.MaxOps = 200000
				werr := w.ExecuteString(fmt.Sprintf(workout, k))
				var ws []string
				for _, o := range w.Stack {
					ws = append(ws, corpus.ObjDigest(o))
				}
				rec(fmt.Sprintf("workout:%d", k), fmt.Sprint(werr, ws))
				writeAll((g + r) % len(wfonts))
				writeAll((g*3 + r + 1) % len(wfonts))
				if in.Entry == "type1" && r%3 == 0 {
					if ft, err := type1.Read(bytes.NewReader(in.Data)); err == nil {
						var buf bytes.Buffer
						ft.Write(&buf, &type1.WriterOptions{Format: type1.FormatPFB})
						rec("rewrite:"+in.Name, sha(buf.Bytes()))
					}
				}
			}
		}()
	}
	close(start)
	wg.Wait()
	names.Hook = nil
	var unstable []string
	for k, vs := range got {
		if len(vs) != 1 {
			unstable = append(unstable, k)
		}
	}
	sort.Strings(unstable)
	return emit(map[string]any{"events": nEvents, "goroutines": ng, "rounds": rounds, "keys": len(got), "unstable": unstable})
}

// operatorNames lists the names that systemdict (and the CIDInit procedure set) bind
// to operators in a fresh instance.
func operatorNames() []string {
	intp := ps.NewInterpreter()
	var out []string
	for k, v := range intp.SystemDict {
		switch v.(type) {
		case ps.Dict, ps.Array, ps.Procedure, ps.String, ps.Integer, ps.Real, ps.Boolean, ps.Name:
		default:
			out = append(out, string(k))
		}
	}
	sort.Strings(out)
	return out
}

func roots(intp *ps.Interpreter) []ps.Object {
	return []ps.Object{intp.SystemDict, intp.InternalDict, intp.UserDict, intp.ErrorDict, intp.Resources, intp.FontDirectory}
}

// mutateDeep overwrites every array element, string byte and dictionary entry
// reachable from o (children first).
func mutateDeep(o ps.Object, seen map[uintptr]bool, depth int) {
	if depth > 12 {
		return
	}
	visit := func(p uintptr) bool {
		if p == 0 || seen[p] {
			return false
		}
		seen[p] = true
		return true
	}
	switch x := o.(type) {
	case ps.Dict:
		if !visit(reflect.ValueOf(x).Pointer()) {
			return
		}
		for k, v := range x {
			mutateDeep(v, seen, depth+1)
			x[k] = ps.Name("hacked")
		}
		x["hacked-key"] = ps.Integer(-1)
	case ps.Array:
		if len(x) == 0 || !visit(reflect.ValueOf(x).Pointer()) {
			return
		}
		for i, v := range x {
			mutateDeep(v, seen, depth+1)
			x[i] = ps.Name("hacked")
		}
	case ps.Procedure:
		if len(x) == 0 || !visit(reflect.ValueOf(x).Pointer()) {
			return
		}
		for i, v := range x {
			mutateDeep(v, seen, depth+1)
			x[i] = ps.Name("hacked")
		}
	case ps.String:
		for i := range x {
			x[i] = 'X'
		}
	}
}

// mutateAllReachable is the most hostile program there is: it overwrites everything an
// instance can reach - the values every operator hands out on an empty stack (matrix,
// currentdict, ...), and every container reachable from the instance's dictionaries.
func mutateAllReachable(a *ps.Interpreter) {
	seen := map[uintptr]bool{}
	for _, name := range operatorNames() {
		func() {
			defer func() { recover() }()
			a.Stack = a.Stack[:0]
			a.MaxOps = a.NumOps + 1000
			a.ExecuteString(name)
			for _, o := range a.Stack {
				mutateDeep(o, seen, 0)
			}
			a.Stack = a.Stack[:0]
		}()
	}
	for _, r := range roots(a) {
		mutateDeep(r, seen, 0)
	}
}

// reachableDigest renders what a fresh instance can reach: its dictionaries, and what
// each operator leaves on an empty stack (each on an instance of its own).
func reachableDigest() string {
	var sb strings.Builder
	b := ps.NewInterpreter()
	for _, r := range roots(b) {
		sb.WriteString(corpus.ObjDigest(r))
		sb.WriteByte('\n')
	}
	for _, name := range operatorNames() {
		func() {
			defer func() {
				if r := recover(); r != nil {
					fmt.Fprintf(&sb, "%s: panic %v\n", name, r)
				}
			}()
			c := ps.NewInterpreter()
			c.MaxOps = 1000
			err := c.ExecuteString(name)
			fmt.Fprintf(&sb, "%s: %v [", name, err)
			for _, o := range c.Stack {
				sb.WriteString(corpus.ObjDigest(o) + " ")
			}
			sb.WriteString("]\n")
		}()
	}
	return sb.String()
}

// workout exercises the data operators; %d is the goroutine's own parameter k.
const workout = `/k %d def
k 1 add k 2 add k 3 add k 4 add k 5 add k 6 add k 7 add k 8 add k 9 add k 10 add k 11 add k 12 add
k 13 add k 14 add k 15 add k 16 add k 17 add k 18 add k 19 add k 20 add k 21 add k 22 add k 23 add k 24 add
200 { 24 7 roll 24 -5 roll 5 k 1 add roll 3 1 roll } repeat
24 copy 24 { pop } repeat 23 index exch pop
matrix dup 0 k put matrix 0 get
10 array dup 3 k put dup 3 get exch 2 4 getinterval length
(abcdefgh) dup 2 k 65 add put dup 1 3 getinterval exch 4 (xy) putinterval
5 dict dup /a k put dup /a get exch /b known
/p { k 2 mul } bind def p /p load length /p where { pop 1 } if
0 1 k 3 add { add } for
[ k k 1 add k 2 add ] { 3 mul } forall
k 3 eq { (big) } { (small) } ifelse
{ k 100 add exit } loop
StandardEncoding 65 get StandardEncoding k get
k 2 eq k 3 ne and k 5 ne or not
k 7 sub abs k 3 mul k 2 sub
count
`

// libraryCalls uses every reader and writer of the library once, in the ways a program
// would (explicit and default options, fonts with and without an encoding, the PDF
// embedding form): none of it may leave a trace in package-level state.
func libraryCalls() {
	defer func() { recover() }()
	rng := rand.New(rand.NewSource(7))
	for _, enc := range []string{"none", "std-subset", "custom", "holes"} {
		f := fontgen.Generate(rng, fontgen.Opts{NGlyphs: 4, Encoding: enc, Zone: "utc"})
		var buf bytes.Buffer
		f.WritePDF(&buf)
		for _, ft := range t1Formats {
			buf.Reset()
			f.Write(&buf, &type1.WriterOptions{Format: ft.f})
			if g, err := type1.Read(bytes.NewReader(buf.Bytes())); err == nil {
				var b2 bytes.Buffer
				g.Write(&b2, nil)
				g.GlyphList()
				g.FontBBoxPDF()
			}
		}
	}
	for _, in := range corpus.All(3) {
		corpus.Run(in.Entry, bytes.NewReader(in.Data))
	}
	names.ToUnicode("Aacute_f_i.alt", false)
	names.ToUnicode("a7", true)
	names.FromUnicode(0x1F600)
}
