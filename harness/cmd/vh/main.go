// Command vh is the Go side of the conformance bindings between the TLA+
// specifications under /verif/spec and the library in /repo.
package main

import (
	"encoding/json"
	"fmt"
	"os"
	"sort"
)

type subcmd func(args []string) error

var cmds = map[string]subcmd{}

func register(name string, f subcmd) { cmds[name] = f }

func main() {
	if len(os.Args) < 2 {
		usage()
	}
	f, ok := cmds[os.Args[1]]
	if !ok {
		usage()
	}
	if err := f(os.Args[2:]); err != nil {
		fmt.Fprintf(os.Stderr, "vh %s: %v\n", os.Args[1], err)
		os.Exit(3)
	}
}

func usage() {
	var names []string
	for n := range cmds {
		names = append(names, n)
	}
	sort.Strings(names)
	fmt.Fprintf(os.Stderr, "usage: vh <command> [args]\ncommands: %v\n", names)
	os.Exit(3)
}

func emit(v any) error {
	enc := json.NewEncoder(os.Stdout)
	return enc.Encode(v)
}
