package main

import (
	"bufio"
	"bytes"
	"encoding/json"
	"fmt"
	"os"
	"strings"

	"seehuhn.de/go/postscript/type1/names"

	"vharness/model"
)

func init() { register("replay-agl", replayAGL) }

// aglVector is one case emitted by MC_AGL: a glyph name (bytes) with the text
// AGL!ToText prescribes (k = "totext") or with AGL!Valid (k = "valid").
type aglVector struct {
	K     string `json:"k"`
	Fam   string `json:"fam"`
	Name  []int  `json:"name"`
	Ding  bool   `json:"ding"`
	Text  []int  `json:"text"`
	Valid bool   `json:"valid"`
	Parts []struct {
		C    []int  `json:"c"`
		Cls  string `json:"cls"`
		Text []int  `json:"text"`
	} `json:"parts"`
}

func uplus(t []int) string {
	if len(t) == 0 {
		return "(empty)"
	}
	var s []string
	for _, x := range t {
		s = append(s, fmt.Sprintf("U+%04X", x))
	}
	return strings.Join(s, " ")
}

func sameInts(a, b []int) bool {
	if len(a) != len(b) {
		return false
	}
	for i := range a {
		if a[i] != b[i] {
			return false
		}
	}
	return true
}

const sigShared = "toUnicode result shares memory with the table"

func callToUnicode(name string, ding bool) (out []int, pan any) {
	defer func() { pan = recover() }()
	r := names.ToUnicode(name, ding)
	for _, c := range r {
		out = append(out, int(c))
	}
	// the caller owns the result: overwrite it (and its spare capacity), then ask again
	r = r[:cap(r)]
	for i := range r {
		r[i] = 0x2603
	}
	again := names.ToUnicode(name, ding)
	same := len(again) == len(out)
	for i := 0; same && i < len(out); i++ {
		same = int(again[i]) == out[i]
	}
	if !same {
		return out, fmt.Sprintf("the answer for %q changed after the caller overwrote the slice returned before: %q", name, string(again))
	}
	return out, nil
}

func callIsValid(name string) (ok bool, pan any) {
	defer func() { pan = recover() }()
	return names.IsValid(name), nil
}

// variantOf is the expected text of v with the known deviations applied to its components.
func variantOf(v *aglVector, multi, remap bool) []int {
	var t []int
	for _, p := range v.Parts {
		c := b2s(p.C)
		switch {
		case multi && p.Cls == "glN":
			t = append(t, 0)
		case remap && p.Cls == "gl1" && c == "Tcommaaccent":
			t = append(t, 0x021A)
		case remap && p.Cls == "gl1" && c == "tcommaaccent":
			t = append(t, 0x021B)
		default:
			t = append(t, p.Text...)
		}
	}
	return t
}

// The signature of a ToUnicode disagreement.  It is coarse, and it names one
// of the two classes of deviation known from the design round ONLY when the
// observed text is exactly what that deviation alone explains: expected text
// with every several-character glyph-list component replaced by U+0000, and/or
// [Tt]commaaccent mapped to U+021A/U+021B.  Anything else keeps a generic
// signature, so a further defect in the same name is not hidden.
func aglToTextSig(v *aglVector, got []int) string {
	variant := func(multi, remap bool) []int { return variantOf(v, multi, remap) }
	m, r := sameInts(got, variant(true, false)), sameInts(got, variant(false, true))
	switch {
	case m:
		return "toUnicode multi-scalar glyphlist entry"
	case r:
		return "toUnicode Tcommaaccent remap"
	case sameInts(got, variant(true, true)):
		return "toUnicode multi-scalar glyphlist entry + toUnicode Tcommaaccent remap"
	}
	// Generic signature: the rule class of the first component that, looked up on its own, is not
	// mapped as prescribed (known deviations apart); "composition" when every component alone is
	// right, i.e. suffix removal, splitting or concatenation went wrong.  (Classification only.)
	for i, p := range v.Parts {
		alone, _ := callToUnicode(b2s(p.C), v.Ding)
		one := aglVector{Parts: v.Parts[i : i+1]}
		if !sameInts(alone, variantOf(&one, false, false)) && !sameInts(alone, variantOf(&one, true, true)) {
			return "toUnicode mismatch [" + p.Cls + " component]"
		}
	}
	return "toUnicode mismatch [composition]"
}

func aglWhat(sig string) string {
	switch sig {
	case "toUnicode multi-scalar glyphlist entry":
		return "a glyph-list entry that denotes several characters is mapped to U+0000 instead of the listed text"
	case "toUnicode Tcommaaccent remap":
		return "Tcommaaccent/tcommaaccent are mapped to U+021A/U+021B although glyphlist.txt lists 0162/0163"
	case "isValid accepts a name the specification rejects", "isValid rejects a name the specification allows":
		return "names.IsValid differs from AGL!Valid"
	}
	return "names.ToUnicode differs from the text the AGL specification gives for the name"
}

func checkAGL(v *aglVector) *disagreement {
	name := b2s(v.Name)
	switch v.K {
	case "totext":
		stim := fmt.Sprintf("ToUnicode(%q, %v)", name, v.Ding)
		got, pan := callToUnicode(name, v.Ding)
		if s, ok := pan.(string); ok && strings.HasPrefix(s, "the answer for") {
			return &disagreement{Sig: sigShared, What: "the slice returned by names.ToUnicode shares memory with the library's tables: overwriting it changes later answers",
				Stimulus: stim + ", the result overwritten by the caller, " + stim + " again", Expected: uplus(v.Text) + " both times", Observed: "changed"}
		}
		if pan != nil {
			return &disagreement{Sig: "toUnicode panic", What: fmt.Sprintf("names.ToUnicode panicked: %v", pan),
				Stimulus: stim, Expected: uplus(v.Text), Observed: fmt.Sprint(pan)}
		}
		if sameInts(got, v.Text) {
			return nil
		}
		sig := aglToTextSig(v, got)
		return &disagreement{Sig: sig, What: aglWhat(sig), Stimulus: stim, Expected: uplus(v.Text), Observed: uplus(got)}
	case "valid":
		stim := fmt.Sprintf("IsValid(%q)", name)
		got, pan := callIsValid(name)
		if pan != nil {
			return &disagreement{Sig: "isValid panic", What: fmt.Sprintf("names.IsValid panicked: %v", pan),
				Stimulus: stim, Expected: fmt.Sprint(v.Valid), Observed: fmt.Sprint(pan)}
		}
		if got == v.Valid {
			return nil
		}
		sig := "isValid accepts a name the specification rejects"
		if v.Valid {
			sig = "isValid rejects a name the specification allows"
		}
		return &disagreement{Sig: sig, What: "names.IsValid differs from AGL!Valid", Stimulus: stim,
			Expected: fmt.Sprint(v.Valid), Observed: fmt.Sprint(got)}
	}
	return &disagreement{Sig: "bad vector", What: "unknown vector kind " + v.K}
}

// replayAGL [-passed out.ndjson] <vectors.ndjson>...
//
// With -passed, up to 60 vectors per input file on which the library AGREED are
// copied to out.ndjson: the material of the negative control (a corrupted copy
// of an agreeing vector must be rejected whatever the library's defects are).
func replayAGL(args []string) error {
	sum := replaySummary{PerOp: map[string]int{}, PerOpOK: map[string]int{}, BySig: map[string]int{}}
	var passed *bufio.Writer
	if len(args) >= 2 && args[0] == "-passed" {
		f, err := os.Create(args[1])
		if err != nil {
			return err
		}
		defer f.Close()
		passed = bufio.NewWriter(f)
		defer passed.Flush()
		args = args[2:]
	}
	seen := map[string]bool{}
	sampled := map[string]bool{}
	for _, path := range args {
		nPassed := 0
		err := model.ReadVectors(path, func(line int, raw []byte) error {
			var v aglVector
			if err := json.Unmarshal(raw, &v); err != nil {
				return fmt.Errorf("%s:%d: %v", path, line, err)
			}
			if v.K != "totext" && v.K != "valid" {
				return fmt.Errorf("%s:%d: unknown vector kind %q", path, line, v.K)
			}
			sum.Vectors++
			key := fmt.Sprintf("%s/%v/%s", v.K, v.Ding, b2s(v.Name))
			if !seen[key] {
				seen[key] = true
				sum.Distinct++
			}
			cls := v.Fam + ":" + v.K
			if v.K == "totext" {
				if len(v.Text) == 0 {
					cls += ":empty"
				} else {
					cls += ":text"
				}
			} else {
				cls += fmt.Sprintf(":%v", v.Valid)
			}
			sum.PerOp[cls]++
			if len(sum.Samples) < 4 && !sampled[v.Fam] && line%97 == 5 {
				sampled[v.Fam] = true
				if v.K == "totext" {
					sum.Samples = append(sum.Samples, fmt.Sprintf("ToUnicode(%q, %v) = %s", b2s(v.Name), v.Ding, uplus(v.Text)))
				} else {
					sum.Samples = append(sum.Samples, fmt.Sprintf("IsValid(%q) = %v", b2s(v.Name), v.Valid))
				}
			}
			d := checkAGL(&v)
			if d == nil {
				sum.Agreed++
				sum.PerOpOK[cls]++
				if passed != nil && nPassed < 60 && line%7 == 1 {
					nPassed++
					passed.Write(bytes.TrimSpace(raw))
					passed.WriteByte('\n')
				}
				return nil
			}
			// reproduce alone (the functions are pure: a second, separate call)
			d2 := checkAGL(&v)
			if d.Sig == sigShared {
				// the damage is done to shared state: it cannot be observed a second time in this process
				d2 = d
			}
			if d2 == nil || d2.Sig != d.Sig || d2.Observed != d.Observed {
				sum.Unreproduced++
				return nil
			}
			d.Line = line
			sum.NDisagree++
			// a composite that shows both known deviations counts once for each class
			for _, sig := range strings.Split(d.Sig, " + ") {
				e := *d
				if sig != d.Sig {
					e.Sig = sig
					e.What = aglWhat(sig)
				}
				sum.BySig[sig]++
				if sum.BySig[sig] <= 3 && len(sum.Disagreements) < 200 {
					sum.Disagreements = append(sum.Disagreements, e)
				}
			}
			return nil
		})
		if err != nil {
			return err
		}
	}
	sum.ExpectOK = sum.Vectors
	return emit(sum)
}
