package main

import (
	"bufio"
	"bytes"
	"crypto/sha256"
	"encoding/hex"
	"encoding/json"
	"fmt"
	"math/rand"
	"os"
	"os/exec"
	"strings"

	ps "seehuhn.de/go/postscript"
	"seehuhn.de/go/postscript/afm"
	"seehuhn.de/go/postscript/psenc"
	"seehuhn.de/go/postscript/type1"

	"vharness/corpus"
	"vharness/fontgen"
	"vharness/indep"
)

func init() {
	register("determ", determCmd)
	register("determ-child", determChild)
}

func sha(b []byte) string { h := sha256.Sum256(b); return hex.EncodeToString(h[:8]) }

// observations of one process: call, input -> digests of `reps` repetitions
func observe(seed int64, nInputs, reps int) []map[string]any {
	var out []map[string]any
	rng := rand.New(rand.NewSource(seed))
	rec := func(call, input, digest string, run int) {
		out = append(out, map[string]any{"call": call, "input": input, "run": run, "digest": digest})
	}
	for i := 0; i < nInputs; i++ {
		// fonts with many map entries
		f := fontgen.Generate(rng, fontgen.Opts{NGlyphs: []int{3, 40, 300}[i%3], Encoding: []string{"custom", "std-subset", "none"}[i%3], NonDefault: i%2 == 0, Zone: "utc"})
		in := fmt.Sprintf("font%d", i)
		for r := 0; r < reps; r++ {
			for _, ft := range t1Formats {
				var buf bytes.Buffer
				f.Write(&buf, &type1.WriterOptions{Format: ft.f})
				rec("Font.Write/"+ft.name, in, sha(buf.Bytes()), r)
				if r < 3 {
					g, err := type1.Read(bytes.NewReader(buf.Bytes()))
					if err == nil {
						b, _ := json.Marshal(fontgen.Project(g))
						rec("type1.Read/"+ft.name, in, sha(b), r)
					}
				}
			}
			// default options before and after the PDF form (options are the caller's, not the package's)
			var nb bytes.Buffer
			f.Write(&nb, nil)
			rec("Font.Write/default-options", in, sha(nb.Bytes()), 2*r)
			var buf bytes.Buffer
			l1, l2, _ := f.WritePDF(&buf)
			rec("Font.WritePDF", in, sha(buf.Bytes())+fmt.Sprint(l1, l2), r)
			nb.Reset()
			f.Write(&nb, nil)
			rec("Font.Write/default-options", in, sha(nb.Bytes()), 2*r+1)
		}
		// query methods whose answer is a list: glyph names that differ only in case, most of them unencoded
		{
			cf := fontgen.Generate(rng, fontgen.Opts{NGlyphs: 2, Encoding: "std-subset", Zone: "utc"})
			for _, nm := range []string{"Aacute", "aacute", "Agrave", "agrave", "AE", "ae", "Zcaron", "zcaron", "Eth", "eth", "ETH", "Ae"} {
				cf.Glyphs[nm] = &type1.Glyph{WidthX: 500}
			}
			// glyph names longer than the 127 bytes a PostScript name may have, equal in their first 127 bytes
			long := strings.Repeat("uni0041", 18) + "u"
			for k, sfx := range []string{"0042", "0043", "0044"} {
				g := &type1.Glyph{WidthX: float64(300 + 10*k)}
				g.MoveTo(0, 0)
				g.LineTo(float64(100+k), float64(50*k))
				g.ClosePath()
				cf.Glyphs[long+sfx] = g
			}
			for r := 0; r < reps; r++ {
				rec("Font.GlyphList", in, sha([]byte(strings.Join(cf.GlyphList(), " "))), r)
				var buf bytes.Buffer
				cf.Write(&buf, &type1.WriterOptions{Format: type1.FormatNoEExec})
				rec("Font.Write/long-names", in, sha(buf.Bytes()), r)
				if g, err := type1.Read(bytes.NewReader(buf.Bytes())); err == nil {
					rec("Read+GlyphList", in, sha([]byte(strings.Join(g.GlyphList(), " "))), r)
				}
			}
		}
		// metrics with several ligatures per glyph
		m := &afm.Metrics{Glyphs: map[string]*afm.GlyphInfo{}, FontName: "D", FullName: "D Regular", Encoding: make([]string, 256)}
		for k := range m.Encoding {
			m.Encoding[k] = ".notdef"
		}
		ng := []int{4, 30, 200}[i%3]
		for g := 0; g < ng; g++ {
			name := fmt.Sprintf("g%d", g)
			gi := &afm.GlyphInfo{WidthX: float64(500 + g)}
			if g%3 == 0 {
				gi.Ligatures = map[string]string{}
				for k := 0; k < 4; k++ {
					gi.Ligatures[fmt.Sprintf("g%d", (g+k+1)%ng)] = fmt.Sprintf("g%d", (g+k+2)%ng)
				}
				if ng >= 30 {
					// several successors leading to the same ligature (f i -> fi, f dotlessi -> fi)
					for k := 10; k < 16; k++ {
						gi.Ligatures[fmt.Sprintf("g%d", (g+k)%ng)] = fmt.Sprintf("g%d", (g+2)%ng)
					}
				}
			}
			m.Glyphs[name] = gi
			if g < 200 {
				m.Encoding[32+g] = name
			}
		}
		inm := fmt.Sprintf("metrics%d", i)
		for r := 0; r < reps; r++ {
			var buf bytes.Buffer
			m.Write(&buf)
			rec("Metrics.Write", inm, sha(buf.Bytes()), r)
		}
	}
	// writing is independent of what was written before: a font that uses the package's
	// StandardEncoding table itself as its encoding (and lacks glyphs the table names), a font with
	// its own copy of the table, and a custom one, each written before and after the others
	{
		mk := func(name string, glyphs []string, enc []string) *type1.Font {
			f := fontgen.Generate(rand.New(rand.NewSource(seed+77)), fontgen.Opts{NGlyphs: 1, Encoding: "none", Zone: "utc"})
			f.FontName = name
			for k, g := range glyphs {
				gl := &type1.Glyph{WidthX: float64(400 + 50*k)}
				gl.MoveTo(0, 0)
				gl.LineTo(float64(100+10*k), 0)
				gl.LineTo(50, float64(300+k))
				gl.ClosePath()
				f.Glyphs[g] = gl
			}
			f.Encoding = enc
			return f
		}
		own := append([]string{}, psenc.StandardEncoding[:]...)
		custom := make([]string, 256)
		for k := range custom {
			custom[k] = ".notdef"
		}
		custom[65], custom[66] = "B", "A"
		fonts := []*type1.Font{
			mk("OwnCopy", []string{"A", "B", "space", "exclam"}, own),
			mk("SharesTheTable", []string{"A", "space"}, psenc.StandardEncoding[:]),
			mk("Custom", []string{"A", "B"}, custom),
		}
		before := strings.Join(psenc.StandardEncoding[:], " ")
		for r := 0; r < 2; r++ {
			for _, f := range fonts {
				for _, ft := range t1Formats {
					var buf bytes.Buffer
					f.Write(&buf, &type1.WriterOptions{Format: ft.f})
					rec("Font.Write/order/"+ft.name, f.FontName, sha(buf.Bytes()), r)
				}
				var buf bytes.Buffer
				f.WritePDF(&buf)
				rec("Font.WritePDF/order", f.FontName, sha(buf.Bytes()), r)
			}
		}
		// the table itself is the same afterwards (the first digest is taken before any writing)
		rec("psenc.StandardEncoding", "table", sha([]byte(before)), 0)
		rec("psenc.StandardEncoding", "table", sha([]byte(strings.Join(psenc.StandardEncoding[:], " "))), 1)
	}
	// reads of fixed inputs, and a file defining several CMaps
	var multi strings.Builder
	multi.WriteString("/CIDInit /ProcSet findresource begin\n")
	for _, n := range []string{"Zeta-H", "Alpha-H", "Mid-V", "Beta-H", "Omega-V"} {
		fmt.Fprintf(&multi, "12 dict begin begincmap /CMapName /%s def /CMapType 1 def 1 begincodespacerange <00> <FF> endcodespacerange\n1 begincidchar <20> %d endcidchar endcmap CMapName currentdict /CMap defineresource pop end\n", n, len(n))
	}
	multi.WriteString("end\n")
	inputs := append(corpus.All(1), corpus.Input{Name: "cmap-five-in-one-file", Entry: "readcmap", Data: []byte(multi.String())})
	if data, err := nestedSeacFont(); err == nil {
		inputs = append(inputs, corpus.Input{Name: "font-nested-seac", Entry: "type1", Data: data})
	}
	// a file that defines two fonts, and a sloppy font that patches the StandardEncoding array
	// of its interpreter in place (no "256 array copy"): reading it must not change what any
	// other read returns, before or after
	if a, err := nestedSeacFontNamed("Alpha", "clear"); err == nil {
		if b, err := nestedSeacFontNamed("Beta", "clear"); err == nil {
			inputs = append(inputs, corpus.Input{Name: "two-fonts-in-one-file", Entry: "type1", Data: append(append([]byte{}, a...), b...)})
		}
		patched := bytes.Replace(a, []byte("/Encoding StandardEncoding def\n"), []byte("/Encoding StandardEncoding def\nEncoding 79 /U put Encoding 65 /B put\n"), 1)
		if !bytes.Equal(patched, a) {
			inputs = append(inputs, corpus.Input{Name: "font-patching-StandardEncoding-in-place", Entry: "type1", Data: patched})
		}
	}
	// one CMap dictionary without a /CMapName registered under two resource names
	inputs = append(inputs, corpus.Input{Name: "cmap-one-dict-two-names", Entry: "readcmap", Data: []byte(
		"/CIDInit /ProcSet findresource begin\n12 dict begin\nbegincmap\n/CMapType 1 def\n1 begincodespacerange <00> <FF> endcodespacerange\n" +
			"1 begincidchar <20> 7 endcidchar\nendcmap\n/Demo-V currentdict /CMap defineresource pop\n/Demo-H currentdict /CMap defineresource pop\n" +
			"/Demo-A currentdict /CMap defineresource pop\nend\nend\n")})
	// metrics files the reader accepts although a glyph box is not a number: what is written from them is
	// the same every time all the same
	inputs = append(inputs, corpus.Input{Name: "afm-nan-box", Entry: "afm", Data: []byte("StartFontMetrics 4.1\nFontName NaNBox\n" +
		"StartCharMetrics 4\nC 65 ; WX 500 ; N A ; B NaN 0 100 200 ;\nC 66 ; WX 500 ; N B ; B 10 -20 300 400 ;\n" +
		"C 67 ; WX 500 ; N C ; B -50 5 20 900 ;\nC 68 ; WX 500 ; N D ; B 0 0 NaN NaN ;\nEndCharMetrics\nEndFontMetrics\n")})
	for _, in := range inputs {
		if in.Entry != "afm" {
			continue
		}
		if m, err := afm.Read(bytes.NewReader(in.Data)); err == nil {
			for r := 0; r < 4*reps; r++ {
				var buf bytes.Buffer
				m.Write(&buf)
				rec("afm.Read+Metrics.Write", in.Name, sha(buf.Bytes()), r)
				bb := m.FontBBoxPDF()
				rec("afm.Read+FontBBoxPDF", in.Name, fmt.Sprint(bb), r)
			}
		}
	}
	// two passes over all inputs: every input is read before and after every other one
	nrep := min(reps, 6)
	for pass := 0; pass < 2; pass++ {
		for _, in := range inputs {
			for r := pass * nrep / 2; r < (pass+1)*nrep/2 || (pass == 1 && r < nrep); r++ {
				res := corpus.Run(in.Entry, bytes.NewReader(in.Data))
				rec(in.Entry, in.Name, sha([]byte(res.Digest+"|"+res.Err)), r)
			}
		}
	}
	// the package's table once more, after every reader and writer has run
	rec("psenc.StandardEncoding", "table", sha([]byte(strings.Join(psenc.StandardEncoding[:], " "))), 2)
	_ = ps.NewInterpreter
	return out
}

func determChild(args []string) error {
	var seed int64
	var n, reps int
	fmt.Sscan(args[0], &seed)
	fmt.Sscan(args[1], &n)
	fmt.Sscan(args[2], &reps)
	return emit(observe(seed, n, reps))
}

// determCmd <out.ndjson> <ninputs> <reps> <procs> <seed>
func determCmd(args []string) error {
	var n, reps, procs int
	var seed int64
	fmt.Sscan(args[1], &n)
	fmt.Sscan(args[2], &reps)
	fmt.Sscan(args[3], &procs)
	fmt.Sscan(args[4], &seed)
	out, err := os.Create(args[0])
	if err != nil {
		return err
	}
	defer out.Close()
	bw := bufio.NewWriterSize(out, 1<<20)
	defer bw.Flush()
	enc := json.NewEncoder(bw)
	self, _ := os.Executable()
	ref := map[string]string{}
	events := 0
	groups := map[string]bool{}
	for p := 0; p < procs; p++ {
		cmd := exec.Command(self, "determ-child", fmt.Sprint(seed), fmt.Sprint(n), fmt.Sprint(reps))
		data, err := cmd.Output()
		if err != nil {
			return fmt.Errorf("child process: %v", err)
		}
		var obs []map[string]any
		if err := json.Unmarshal(data, &obs); err != nil {
			return err
		}
		for _, o := range obs {
			key := fmt.Sprint(o["call"], "|", o["input"])
			if _, ok := ref[key]; !ok {
				ref[key] = o["digest"].(string)
			}
			groups[key] = true
			o["proc"] = p
			o["ref"] = ref[key]
			o["fmt"] = o["call"]
			o["id"] = o["input"]
			events++
			enc.Encode(o)
		}
	}
	return emit(map[string]any{"events": events, "groups": len(groups), "failures": []any{},
		"axes": []string{fmt.Sprintf("%d inputs x %d repetitions x %d processes; %d (call, input) groups", n, reps, procs, len(groups))}})
}

// nestedSeacFont: composites whose accent is itself a composite (hungarumlaut built
// from two acutes, used by Ohungarumlaut, ...), so that the order in which a reader
// resolves composites is observable in the result.
func nestedSeacFont() ([]byte, error) { return nestedSeacFontNamed("Nested", "pfa") }

func nestedSeacFontNamed(fontName, cont string) ([]byte, error) {
	num := func(v int64) indep.Tok { return indep.Tok{T: "n", V: v} }
	cmd := func(c string) indep.Tok { return indep.Tok{T: "c", C: c} }
	outline := func(sb, w, dx int64) []indep.Tok {
		return []indep.Tok{num(sb), num(w), cmd("hsbw"), num(20 + dx), num(0), cmd("rmoveto"), num(100), cmd("hlineto"), num(200 + dx), cmd("vlineto"), cmd("closepath"), cmd("endchar")}
	}
	seac := func(sb, adx, ady, b, a int64) []indep.Tok {
		return []indep.Tok{num(sb), num(600), cmd("hsbw"), num(sb), num(adx), num(ady), num(b), num(a), cmd("seac")}
	}
	spec := &indep.FontSpec{FontName: fontName, Toks: map[string][]indep.Tok{}, Subrs: [][]indep.Tok{{cmd("return")}, {cmd("return")}, {cmd("return")}, {cmd("return")}},
		Info:    []string{"/version (1) readonly def", "/FullName (Nested) readonly def", "/FamilyName (N) readonly def", "/Weight (R) readonly def", "/ItalicAngle 0 def", "/isFixedPitch false def", "/UnderlinePosition -100 def", "/UnderlineThickness 50 def"},
		Private: []string{"/BlueValues [-10 0 700 710] def"}}
	addg := func(name string, t []indep.Tok) {
		spec.Glyphs = append(spec.Glyphs, name)
		spec.Toks[name] = t
	}
	addg(".notdef", []indep.Tok{num(0), num(250), cmd("hsbw"), cmd("endchar")})
	// StandardEncoding codes: acute 194, hungarumlaut 205, ogonek 206, grave 193, O 79, U 85, o 111, u 117, A 65, a 97
	addg("acute", outline(10, 300, 0))
	addg("grave", outline(12, 300, 7))
	addg("O", outline(30, 700, 1))
	addg("U", outline(31, 700, 2))
	addg("o", outline(32, 500, 3))
	addg("u", outline(33, 500, 4))
	addg("A", outline(34, 650, 5))
	addg("a", outline(35, 450, 6))
	addg("hungarumlaut", seac(10, 120, 0, 194, 194))
	addg("ogonek", seac(12, 30, -200, 193, 194))
	addg("Ohungarumlaut", seac(30, 150, 180, 79, 205))
	addg("Uhungarumlaut", seac(31, 150, 180, 85, 205))
	addg("ohungarumlaut", seac(32, 100, 0, 111, 205))
	addg("uhungarumlaut", seac(33, 100, 0, 117, 205))
	addg("Aogonek", seac(34, 300, 0, 65, 206))
	addg("aogonek", seac(35, 200, 0, 97, 206))
	return indep.WriteFont(spec, indep.Layout{Cont: cont, LenIV: 4, Names: "RD", Enc: "std"})
}
