package main

import (
	"bufio"
	"bytes"
	"encoding/json"
	"fmt"
	"math"
	"math/rand"
	"os"
	"sort"
	"strings"

	"seehuhn.de/go/postscript/type1"

	"vharness/fontgen"
	"vharness/indep"
)

func init() { register("trace-t1write", traceT1Write) }

type dictEntry struct {
	kind string // str | num | bool | name | array | other
	s    string
	f    float64
	arr  []float64
}

// scanDefs collects "/key value [readonly|executeonly|noaccess] def" entries of the
// token stream (the form every Type 1 font program uses for its dictionaries).
func scanDefs(toks []indep.PTok) map[string]dictEntry {
	out := map[string]dictEntry{}
	for i := 0; i+2 < len(toks); i++ {
		if toks[i].K != "name" {
			continue
		}
		j := i + 1
		var e dictEntry
		switch t := toks[j]; {
		case t.K == "str":
			e = dictEntry{kind: "str", s: string(t.Raw)}
			j++
		case t.K == "int":
			e = dictEntry{kind: "num", f: float64(t.I)}
			j++
		case t.K == "real":
			e = dictEntry{kind: "num", f: t.F}
			j++
		case t.K == "name":
			e = dictEntry{kind: "name", s: t.S}
			j++
		case t.K == "xname" && (t.S == "true" || t.S == "false"):
			e = dictEntry{kind: "bool", s: t.S}
			j++
		case t.K == "xname" && t.S == "StandardEncoding":
			e = dictEntry{kind: "name", s: "StandardEncoding"}
			j++
		case t.K == "xname" && t.S == "[":
			e = dictEntry{kind: "array"}
			j++
			for j < len(toks) && !(toks[j].K == "xname" && toks[j].S == "]") {
				switch toks[j].K {
				case "int":
					e.arr = append(e.arr, float64(toks[j].I))
				case "real":
					e.arr = append(e.arr, toks[j].F)
				default:
					e.kind = "other"
				}
				j++
			}
			j++
		default:
			continue
		}
		for j < len(toks) && toks[j].K == "xname" && (toks[j].S == "readonly" || toks[j].S == "executeonly" || toks[j].S == "noaccess") {
			j++
		}
		if j < len(toks) && toks[j].K == "xname" && (toks[j].S == "def" || toks[j].S == "ND" || toks[j].S == "|-") {
			out[toks[i].S] = e
		}
	}
	return out
}

// encodingOf reconstructs the encoding the program builds: StandardEncoding, or an
// array filled with .notdef and "dup code /name put" entries; nil if none.
func encodingOf(toks []indep.PTok, defs map[string]dictEntry) []string {
	if e, ok := defs["Encoding"]; ok && e.kind == "name" && e.s == "StandardEncoding" {
		return append([]string{}, stdEncodingNames()...)
	}
	start := -1
	for i := 0; i+2 < len(toks); i++ {
		if toks[i].K == "name" && toks[i].S == "Encoding" && toks[i+1].K == "int" && toks[i+1].I == 256 && toks[i+2].S == "array" {
			start = i + 3
		}
	}
	if start < 0 {
		return nil
	}
	enc := make([]string, 256)
	for i := range enc {
		enc[i] = ".notdef"
	}
	for i := start; i+3 < len(toks); i++ {
		if toks[i].K == "xname" && toks[i].S == "def" {
			break
		}
		if toks[i].K == "xname" && toks[i].S == "dup" && toks[i+1].K == "int" && toks[i+2].K == "name" && toks[i+3].S == "put" {
			if c := toks[i+1].I; c >= 0 && c < 256 {
				enc[c] = toks[i+2].S
			}
		}
	}
	return enc
}

func traceT1Write(args []string) error {
	var n int
	var seed int64
	fmt.Sscan(args[1], &n)
	fmt.Sscan(args[2], &seed)
	out, err := os.Create(args[0])
	if err != nil {
		return err
	}
	defer out.Close()
	w := bufio.NewWriterSize(out, 1<<20)
	defer w.Flush()
	enc := json.NewEncoder(w)
	rng := rand.New(rand.NewSource(seed))
	type fail struct{ Sig, What, Stim string }
	var fails []fail
	events, glyphEvents := 0, 0
	shapes := map[string]int{}
	encs := []string{"none", "std-subset", "custom", "holes", "std-plus"}
	ints := func(b []byte) []int {
		o := make([]int, len(b))
		for i, c := range b {
			o[i] = int(c)
		}
		return o
	}
	for i := 0; i < n; i++ {
		o := fontgen.Opts{NGlyphs: []int{2, 5, 12, 40}[i%4], Fractional: i%5 == 3, Encoding: encs[i%5], HardString: i%2 == 1,
			Zone: []string{"none", "utc", "unnamed"}[i%3], NonDefault: i%3 == 1, LongPaths: i%9 == 4, BigFrac: i%5 == 3 && i%2 == 1}
		if i == n-1 && n >= 30 {
			o.NGlyphs = 300
		}
		if i == n-2 && n >= 20 {
			o.NGlyphs, o.Huge, o.Fractional = 40, true, false
		}
		f := fontgen.Generate(rng, o)
		fontgen.SegmentShapes(f, shapes)
		stim := fmt.Sprintf("font #%d seed %d %+v", i, seed, o)
		var refGlyphs map[string][]byte
		for fi, form := range []string{"pfa", "pfb", "binary", "noeexec", "pdf"} {
			var buf bytes.Buffer
			var l1, l2 int
			var werr error
			func() {
				defer func() {
					if r := recover(); r != nil {
						werr = fmt.Errorf("panic: %v", r)
					}
				}()
				if form == "pdf" {
					l1, l2, werr = f.WritePDF(&buf)
				} else {
					werr = f.Write(&buf, &type1.WriterOptions{Format: t1Formats[fi].f})
				}
			}()
			if werr != nil {
				fails = append(fails, fail{"t1write: write fails", werr.Error(), stim + " form " + form})
				continue
			}
			data := buf.Bytes()
			ap, err := indep.TakeApart(data)
			if err != nil {
				fails = append(fails, fail{"t1write: output cannot be taken apart by an independent decoder (" + form + ")", err.Error(), stim + " form " + form})
				continue
			}
			trailer := "other"
			tr := strings.TrimSpace(string(ap.Trailer))
			if strings.HasSuffix(tr, "cleartomark") && strings.Count(tr, "0") >= 512 && strings.Trim(strings.TrimSuffix(tr, "cleartomark"), "0 \n\r") == "" {
				trailer = "zeros"
			} else if tr == "" {
				trailer = "none"
			}
			lead := []int{0, 0, 0, 0}
			if ap.Encrypted {
				lead = ints(ap.Lead)
			}
			segs := []map[string]int{}
			for _, s := range ap.Segs {
				segs = append(segs, map[string]int{"type": s.Type, "declared": s.Declared, "payload": s.Payload})
			}
			clearLen := len(ap.Clear)
			events++
			enc.Encode(map[string]any{"ev": "file", "id": i, "fmt": form, "opts": fmt.Sprintf("%+v", o), "f": map[string]any{
				"fmt": form, "segs": segs, "endmark": ap.EndMarker, "afterend": ap.AfterEnd, "lead": lead,
				"clear": clearLen, "cipher": ap.CipherLen, "total": len(data), "l1": l1, "l2": l2, "trailer": trailer}})
			// the same charstrings in every form
			if refGlyphs == nil {
				refGlyphs = ap.Glyphs
			} else {
				same := len(ap.Glyphs) == len(refGlyphs)
				for k, v := range refGlyphs {
					same = same && bytes.Equal(ap.Glyphs[k], v)
				}
				if !same {
					fails = append(fails, fail{"t1write: charstrings differ between forms", form + " vs pfa", stim})
				}
			}
			if ap.LenIV != 4 {
				fails = append(fails, fail{"t1write: lenIV", fmt.Sprintf("lenIV %d used without declaring it", ap.LenIV), stim})
			}
			// dictionaries, through the independent tokenizer
			defs := scanDefs(ap.Tokens)
			want := map[string]string{"version": f.Version, "Notice": f.Notice, "Copyright": f.Copyright, "FullName": f.FullName,
				"FamilyName": f.FamilyName, "Weight": f.Weight}
			for k, v := range want {
				got, ok := defs[k]
				if v == "" && !ok && k != "version" && k != "FullName" && k != "FamilyName" && k != "Weight" {
					continue // optional entries may be omitted when empty
				}
				if !ok || got.kind != "str" || got.s != v {
					fails = append(fails, fail{"t1write: FontInfo string /" + k + " not written byte for byte", fmt.Sprintf("font has %q, file says %q", v, got.s), stim + " form " + form})
				}
			}
			if e := defs["FontName"]; e.kind != "name" || e.s != f.FontName {
				fails = append(fails, fail{"t1write: FontName", fmt.Sprintf("font has %q, file says %q", f.FontName, e.s), stim})
			}
			numw := map[string]float64{"ItalicAngle": f.ItalicAngle, "UnderlinePosition": float64(f.UnderlinePosition),
				"UnderlineThickness": float64(f.UnderlineThickness), "FontType": 1}
			if math.Abs(f.Private.BlueScale-0.039625) > 1e-6 {
				numw["BlueScale"] = f.Private.BlueScale
			}
			if f.Private.BlueShift != 7 {
				numw["BlueShift"] = float64(f.Private.BlueShift)
			}
			if f.Private.BlueFuzz != 1 {
				numw["BlueFuzz"] = float64(f.Private.BlueFuzz)
			}
			for k, v := range numw {
				if e, ok := defs[k]; !ok || e.kind != "num" || e.f != v {
					fails = append(fails, fail{"t1write: number /" + k + " differs", fmt.Sprintf("font has %v, file says %v (%v)", v, e.f, ok), stim + " form " + form})
				}
			}
			arrw := map[string][]float64{"FontMatrix": f.FontMatrix[:]}
			for _, x := range f.Private.BlueValues {
				arrw["BlueValues"] = append(arrw["BlueValues"], float64(x))
			}
			for _, x := range f.Private.OtherBlues {
				arrw["OtherBlues"] = append(arrw["OtherBlues"], float64(x))
			}
			if f.Private.StdHW != 0 {
				arrw["StdHW"] = []float64{f.Private.StdHW}
			}
			if f.Private.StdVW != 0 {
				arrw["StdVW"] = []float64{f.Private.StdVW}
			}
			for k, v := range arrw {
				if e, ok := defs[k]; !ok || e.kind != "array" || fmt.Sprint(e.arr) != fmt.Sprint(v) {
					fails = append(fails, fail{"t1write: array /" + k + " differs", fmt.Sprintf("font has %v, file says %v", v, e.arr), stim + " form " + form})
				}
			}
			if e := defs["ForceBold"]; e.kind != "bool" || (e.s == "true") != f.Private.ForceBold {
				fails = append(fails, fail{"t1write: ForceBold differs", e.s, stim})
			}
			if e := defs["isFixedPitch"]; e.kind != "bool" || (e.s == "true") != f.IsFixedPitch {
				fails = append(fails, fail{"t1write: isFixedPitch differs", e.s, stim})
			}
			// encoding: what the file says, with codes of absent glyphs read as .notdef
			genc := encodingOf(ap.Tokens, defs)
			if (genc == nil) != (len(f.Encoding) == 0) {
				fails = append(fails, fail{"t1write: encoding presence differs", "", stim})
			} else if genc != nil {
				for c := 0; c < 256; c++ {
					g := genc[c]
					if _, ok := f.Glyphs[g]; !ok {
						g = ".notdef"
					}
					if g != f.Encoding[c] {
						fails = append(fails, fail{"t1write: encoding differs", fmt.Sprintf("code %d: font has %q, file says %q", c, f.Encoding[c], genc[c]), stim + " form " + form})
						break
					}
				}
			}
			if len(ap.Glyphs) != len(f.Glyphs) {
				fails = append(fails, fail{"t1write: glyph set differs", fmt.Sprintf("%d written, %d in the font", len(ap.Glyphs), len(f.Glyphs)), stim})
			}
			if form != "pfa" {
				continue
			}
			// glyph events (once per font)
			var names []string
			for k := range f.Glyphs {
				names = append(names, k)
			}
			sort.Strings(names)
			for _, name := range names {
				g := f.Glyphs[name]
				items, err := indep.DecodeCharstring(ap.Glyphs[name])
				if err != nil {
					fails = append(fails, fail{"t1write: charstring not decodable", err.Error(), stim + " glyph " + name})
					continue
				}
				pg := fontgen.Project(&type1.Font{FontInfo: f.FontInfo, Private: f.Private, Glyphs: map[string]*type1.Glyph{name: g}}).Glyphs[0]
				exact := pg.I && len(g.Cmds) <= 60
				toks := []map[string]any{}
				nums := []map[string]any{}
				for _, it := range items {
					if it.Num {
						toks = append(toks, map[string]any{"t": "n", "v": it.V})
						nums = append(nums, map[string]any{"v": it.V, "bytes": ints(it.Bytes)})
					} else {
						toks = append(toks, map[string]any{"t": "c", "c": it.Cmd})
					}
				}
				if !exact {
					// fractional or very long: positions are judged here in float64 (bound 1/214)
					got, wx, _, err := runCharstring(items)
					wantPts := pointsOf(g)
					if err != nil || len(got) != len(wantPts) || wx != math.Round(g.WidthX) {
						fails = append(fails, fail{"t1write: fractional glyph decodes to a different outline", fmt.Sprint(err, len(got), len(wantPts)), stim + " glyph " + name})
					} else {
						for k := range got {
							if math.Abs(got[k][0]-wantPts[k][0]) > 1.0/214+1e-9 || math.Abs(got[k][1]-wantPts[k][1]) > 1.0/214+1e-9 {
								fails = append(fails, fail{"t1write: fractional glyph point farther than 1/214", fmt.Sprintf("point %d: %v vs %v", k, got[k], wantPts[k]), stim + " glyph " + name})
								break
							}
						}
					}
					if len(items) > 400 {
						continue // numbers of long paths are covered by C20
					}
				}
				cmds := []map[string]any{}
				if exact {
					for _, c := range pg.Cmds {
						a := []int64{}
						for _, x := range c.A {
							a = append(a, x/10000)
						}
						cmds = append(cmds, map[string]any{"op": c.Op, "a": a})
					}
				}
				events++
				glyphEvents++
				enc.Encode(map[string]any{"ev": "glyph", "id": i, "fmt": form, "opts": name, "toks": toks, "nums": nums, "exact": exact,
					"want": map[string]any{"cmds": cmds, "wx": int64(math.Round(g.WidthX)), "wy": int64(math.Round(g.WidthY)), "h": pg.H, "v": pg.V}})
			}
		}
	}
	return emit(map[string]any{"events": events, "glyph_events": glyphEvents, "fonts": n, "failures": fails,
		"axes":   []string{fmt.Sprintf("%d fonts x {pfa, pfb, binary, noeexec, pdf}", n)},
		"shapes": shapes, "shapes_missing": missingShapes(shapes)})
}
