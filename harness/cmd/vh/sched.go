package main

import (
	"bytes"
	"encoding/json"
	"fmt"
	"io"
	"runtime"
	"sync"

	"vharness/corpus"
	"vharness/model"
)

func init() { register("sched", schedCmd) }

// schedReader delivers data in the chunk sizes of a cyclic schedule; EOF comes
// together with the last bytes or alone; optionally it also implements Seek.
type schedReader struct {
	data        []byte
	off         int
	chunks      []int
	k           int
	eofWithData bool
}

func (r *schedReader) Read(p []byte) (int, error) {
	if r.off >= len(r.data) {
		return 0, io.EOF
	}
	n := r.chunks[r.k%len(r.chunks)]
	r.k++
	if n > len(p) {
		n = len(p)
	}
	if n > len(r.data)-r.off {
		n = len(r.data) - r.off
	}
	copy(p, r.data[r.off:r.off+n])
	r.off += n
	if r.off >= len(r.data) && r.eofWithData {
		return n, io.EOF
	}
	return n, nil
}

type seekSched struct{ schedReader }

func (r *seekSched) Seek(offset int64, whence int) (int64, error) {
	var abs int64
	switch whence {
	case io.SeekStart:
		abs = offset
	case io.SeekCurrent:
		abs = int64(r.off) + offset
	case io.SeekEnd:
		abs = int64(len(r.data)) + offset
	}
	if abs < 0 {
		return 0, fmt.Errorf("negative position")
	}
	r.off = int(abs)
	return abs, nil
}

func newSched(data []byte, chunks []int, eofWithData, seekable bool) io.Reader {
	s := schedReader{data: data, chunks: chunks, eofWithData: eofWithData}
	if seekable {
		return &seekSched{s}
	}
	return &s
}

// newSchedAt is newSched over pre bytes of unrelated data followed by data, with the
// current position just after the unrelated bytes.
func newSchedAt(data []byte, chunks []int, eofWithData, seekable bool, pre int) io.Reader {
	if pre == 0 {
		return newSched(data, chunks, eofWithData, seekable)
	}
	all := append(bytes.Repeat([]byte("%!junk before the font\n"), pre/23+1)[:pre:pre], data...)
	s := schedReader{data: all, off: pre, chunks: chunks, eofWithData: eofWithData}
	if seekable {
		return &seekSched{s}
	}
	return &s
}

// schedCmd <schedules.ndjson> <seed> <tier>: every input of the corpus under
// every schedule, compared with the all-at-once run.
func schedCmd(args []string) error {
	var seed int64
	fmt.Sscan(args[1], &seed)
	tier := args[2]
	var scheds [][]int
	err := model.ReadVectors(args[0], func(line int, raw []byte) error {
		var v struct {
			Chunks []int `json:"chunks"`
		}
		if err := json.Unmarshal(raw, &v); err != nil {
			return err
		}
		scheds = append(scheds, v.Chunks)
		return nil
	})
	if err != nil {
		return err
	}
	sum := replaySummary{PerOp: map[string]int{}, PerOpOK: map[string]int{}, BySig: map[string]int{}}
	var mu sync.Mutex
	type job struct {
		in     corpus.Input
		base   corpus.Result
		family string
		chunks []int
		ewd    bool
		seek   bool
		pre    int // bytes of unrelated data before the current position of the source
	}
	jobs := make(chan job, 256)
	var wg sync.WaitGroup
	for w := 0; w < runtime.NumCPU(); w++ {
		wg.Add(1)
		go func() {
			defer wg.Done()
			for j := range jobs {
				res := corpus.Run(j.in.Entry, newSchedAt(j.in.Data, j.chunks, j.ewd, j.seek, j.pre))
				mu.Lock()
				sum.Vectors++
				sum.PerOp[j.in.Entry+"/"+j.family]++
				if res == j.base {
					sum.Agreed++
				} else {
					kind := "result differs"
					if res.Panic != "" {
						kind = "panic"
					} else if res.Err != j.base.Err {
						kind = "error differs"
					}
					sig := fmt.Sprintf("delivery: %s %s under %s (eofWithData=%v seekable=%v)", j.in.Entry, kind, j.family, j.ewd, j.seek)
					sum.NDisagree++
					sum.BySig[sig]++
					if sum.BySig[sig] <= 2 {
						obs := res.Err + res.Panic
						if obs == "" {
							obs = "a different result"
						}
						sum.Disagreements = append(sum.Disagreements, disagreement{Sig: sig, What: "the result depends on how the input is delivered",
							Stimulus: fmt.Sprintf("input %s (%d bytes), chunk sizes %v cyclic", j.in.Name, len(j.in.Data), j.chunks),
							Expected: "as all-at-once: err=" + j.base.Err, Observed: obs})
					}
				}
				mu.Unlock()
			}
		}()
	}
	inputs := corpus.All(seed)
	nAccepted := len(inputs)
	inputs = append(inputs, corpus.Erroneous(seed)...)
	for ii, in := range inputs {
		base := corpus.Run(in.Entry, bytes.NewReader(in.Data))
		if base.Panic != "" || (base.Err != "" && ii < nAccepted && !corpus.Rejected[in.Name]) {
			close(jobs)
			return fmt.Errorf("corpus input %s is not accepted all-at-once: %s%s", in.Name, base.Err, base.Panic)
		}
		if ii >= nAccepted {
			sum.PerOpOK["erroneous-inputs"]++
		}
		if len(sum.Samples) < 4 {
			sum.Samples = append(sum.Samples, fmt.Sprintf("%s via %s, %d bytes", in.Name, in.Entry, len(in.Data)))
		}
		for _, ewd := range []bool{false, true} {
			for _, seek := range []bool{false, true} {
				// every two-chunk split (quick: a stride, plus all positions around the 512-byte boundaries)
				step := 1
				if tier == "quick" && len(in.Data) > 1500 {
					step = 7
				}
				for k := 0; k <= len(in.Data); k += step {
					jobs <- job{in, base, "two-chunk split", []int{max(k, 1), len(in.Data) + 1}, ewd, seek, 0}
				}
				for _, k := range []int{510, 511, 512, 513, 514, 1023, 1024, 1025} {
					if k < len(in.Data) {
						jobs <- job{in, base, "two-chunk split", []int{k, len(in.Data) + 1}, ewd, seek, 0}
					}
				}
				jobs <- job{in, base, "one-byte reads", []int{1}, ewd, seek, 0}
				// a source handed over at a non-zero position (a font embedded in a container
				// after the caller has read a header): seekable or not, reading starts there
				for _, pre := range []int{1, 700} {
					jobs <- job{in, base, fmt.Sprintf("source positioned at offset %d", pre), []int{len(in.Data) + pre + 1}, ewd, seek, pre}
					jobs <- job{in, base, fmt.Sprintf("source positioned at offset %d", pre), []int{3, 509, 64}, ewd, seek, pre}
				}
				for _, c := range scheds {
					jobs <- job{in, base, "schedule from ScanBuf.tla", c, ewd, seek, 0}
				}
			}
		}
	}
	close(jobs)
	wg.Wait()
	// a program text fed to one interpreter in two or three Execute calls, split at line ends (where a
	// token also ends; never in front of a %%+ continuation line, which belongs to the line before)
	for _, in := range inputs[:nAccepted] {
		if in.Entry != "execute" || bytes.Contains(in.Data, []byte("eexec")) {
			continue
		}
		base := corpus.Run(in.Entry, bytes.NewReader(in.Data))
		var cuts []int
		for i, c := range in.Data {
			if c == '\n' && i+1 < len(in.Data) && !bytes.HasPrefix(in.Data[i+1:], []byte("%%+")) {
				cuts = append(cuts, i+1)
			}
		}
		try := func(parts [][]byte, desc string) {
			res := corpus.RunExecuteCalls(parts)
			sum.Vectors++
			sum.PerOp["execute/calls split at line ends"]++
			if res == base {
				sum.Agreed++
				return
			}
			sig := "delivery: execute result differs when the text is fed in several calls split at line ends"
			sum.NDisagree++
			sum.BySig[sig]++
			if sum.BySig[sig] <= 2 {
				sum.Disagreements = append(sum.Disagreements, disagreement{Sig: sig, What: "feeding a program in consecutive Execute calls differs from feeding the concatenation",
					Stimulus: fmt.Sprintf("input %s, calls end at byte offsets %s", in.Name, desc), Expected: base.Digest[:min(300, len(base.Digest))] + " err=" + base.Err,
					Observed: res.Digest[:min(300, len(res.Digest))] + " err=" + res.Err + res.Panic})
			}
		}
		for i, a := range cuts {
			try([][]byte{in.Data[:a], in.Data[a:]}, fmt.Sprint(a))
			if i+2 < len(cuts) {
				b := cuts[i+2]
				try([][]byte{in.Data[:a], in.Data[a:b], in.Data[b:]}, fmt.Sprint(a, " ", b))
			}
		}
	}
	sum.Distinct = sum.Vectors
	return emit(sum)
}
