package main

import (
	"bufio"
	"bytes"
	"encoding/json"
	"fmt"
	"math/rand"
	"os"
	"path/filepath"
	"strconv"
	"strings"

	"seehuhn.de/go/postscript/type1"

	"vharness/fontgen"
	"vharness/indep"
	"vharness/model"
)

func init() { register("closure-t1", closureT1) }

// unusual but legal font descriptions for the independent writer
func unusualSpecs(rng *rand.Rand, n int) []struct {
	spec *indep.FontSpec
	lay  indep.Layout
	desc string
} {
	num := func(v int64) indep.Tok { return indep.Tok{T: "n", V: v} }
	cmd := func(c string) indep.Tok { return indep.Tok{T: "c", C: c} }
	std := [][]indep.Tok{
		{num(3), num(0), cmd("callothersubr"), cmd("pop"), cmd("pop"), cmd("setcurrentpoint"), cmd("return")},
		{num(0), num(1), cmd("callothersubr"), cmd("return")},
		{num(0), num(2), cmd("callothersubr"), cmd("return")},
		{cmd("return")},
	}
	var out []struct {
		spec *indep.FontSpec
		lay  indep.Layout
		desc string
	}
	dates := []string{"%%CreationDate: 1991-09-13 11:15:12 +0000 UTC", "%%CreationDate: Fri Sep 13 11:15:12 1991",
		"%%CreationDate: Fri, 13 Sep 1991 11:15:12", "%%CreationDate: Fri Sep 13 1991", "%%CreationDate: yesterday", ""}
	strs := []string{"()", "(a)", "(two\\nlines)", "(tab\\there)", "(paren \\( open)", "(\\251 1990)", "<00ff>", "(multi\nline literal)",
		"(1.0\\rbeta 2)", "(a\\r%%CreationDate: 2001-01-01 00:00:00 +0000 UTC)", "(x\\ry\\nz)", "(\\r)"}
	names := []string{"A", "B.alt", "f_i", "u1F600", "$odd*name!", "@", "~", "a-b+c", "x;y", "zero.sups", "B", "C", "space"}
	stdPos := map[string]int{"A": 65, "B": 66, "C": 67, "space": 32}
	for i := 0; i < n; i++ {
		f := &indep.FontSpec{FontName: "Unusual" + strconv.Itoa(i), Toks: map[string][]indep.Tok{}, Subrs: std, Encoding: map[int]string{}}
		// font matrices: the usual one, turned by a quarter (zero diagonal), 2048 units per em, slanted
		f.Matrix = []string{"", "0 0.001 -0.001 0 0 0", "0.00048828125 0 0 0.00048828125 0 0", "0.001 0 0.000176 0.001 0 0", ""}[i%5]
		desc := []string{}
		withNotdef := rng.Intn(3) != 0
		if withNotdef {
			f.Glyphs = append(f.Glyphs, ".notdef")
			f.Toks[".notdef"] = []indep.Tok{num(0), num(250), cmd("hsbw"), cmd("endchar")}
		} else {
			desc = append(desc, "no-.notdef")
		}
		ng := 1 + rng.Intn(4)
		for g := 0; g < ng; g++ {
			name := names[(i+g*3)%len(names)]
			if _, dup := f.Toks[name]; dup {
				continue
			}
			var t []indep.Tok
			switch rng.Intn(5) {
			case 0: // fractional width and side bearing through div
				t = append(t, num(int64(rng.Intn(90))), num(7), cmd("div"), num(1001+int64(rng.Intn(50))), num(2), cmd("div"), cmd("hsbw"))
				desc = append(desc, "fractional-width")
			case 1:
				t = append(t, num(int64(rng.Intn(60))), num(int64(rng.Intn(30)-15)), num(500), num(int64(rng.Intn(9))), cmd("sbw"))
				desc = append(desc, "sbw")
			case 2: // negative and fractional negative advances (right-to-left, vertical writing)
				switch rng.Intn(3) {
				case 0:
					t = append(t, num(int64(rng.Intn(80))), num(-int64(1+rng.Intn(1000))), cmd("hsbw"))
				case 1:
					t = append(t, num(0), num(0), num(0), num(-int64(1+rng.Intn(1000))), cmd("sbw"))
				default:
					t = append(t, num(int64(rng.Intn(80))), num(-1201), num(4), cmd("div"), cmd("hsbw")) // -300.25
				}
				desc = append(desc, "negative-width")
			default:
				t = append(t, num(int64(rng.Intn(80))), num(int64(rng.Intn(1000))), cmd("hsbw"))
			}
			if rng.Intn(2) == 0 {
				t = append(t, num(int64(rng.Intn(300))), num(int64(rng.Intn(80))), cmd("hstem"))
			}
			if rng.Intn(3) == 0 {
				t = append(t, num(10), num(20), cmd("vstem"), num(100), num(20), cmd("vstem"), num(300), num(21), cmd("vstem"))
			}
			if rng.Intn(5) != 0 {
				t = append(t, num(int64(rng.Intn(200))), num(int64(rng.Intn(200))), cmd("rmoveto"))
				// a number operand: an integer, or a quotient through div whose value is in
				// general not representable as p/q with q <= 107 (the writer's quantisation)
				dens := []int64{3, 7, 250, 300, 1000, 211}
				fracMode := rng.Intn(3) // 0: integers only, 1: mixed, 2: every operand fractional, errors of one sign
				arg := func() []indep.Tok {
					v := int64(rng.Intn(300) - 150)
					if fracMode == 0 || (fracMode == 1 && rng.Intn(2) == 0) {
						return []indep.Tok{num(v)}
					}
					d := dens[rng.Intn(len(dens))]
					if fracMode == 2 {
						d = []int64{250, 300, 1000}[rng.Intn(3)]
						return []indep.Tok{num(10*d + 1), num(d), cmd("div")} // 10 + 1/d each time: errors add up if not compensated
					}
					return []indep.Tok{num(v*d + int64(rng.Intn(int(d)))), num(d), cmd("div")}
				}
				args := func(k int) []indep.Tok {
					var o []indep.Tok
					for j := 0; j < k; j++ {
						o = append(o, arg()...)
					}
					return o
				}
				nseg := 1 + rng.Intn(4)
				if rng.Intn(4) == 0 {
					nseg = 8 + rng.Intn(12)
				}
				if fracMode != 0 {
					desc = append(desc, fmt.Sprintf("fractional-path-%d", nseg))
				}
				for s := 0; s < nseg; s++ {
					switch rng.Intn(8) {
					case 6:
						// leaves vertically and ends level with its first control point (y3 = y1 != y2):
						// one coincidence short of the vhcurveto form
						dy2 := int64(rng.Intn(90) + 10)
						t = append(t, num(0), num(int64(rng.Intn(100)+1)), num(int64(rng.Intn(80)+5)), num(dy2), num(int64(rng.Intn(80)+5)), num(-dy2), cmd("rrcurveto"))
					case 7:
						// leaves horizontally and ends exactly above its first control point (x3 = x1 != x2)
						dx2 := int64(rng.Intn(90) + 10)
						t = append(t, num(int64(rng.Intn(100)+1)), num(0), num(dx2), num(int64(rng.Intn(80)+5)), num(-dx2), num(int64(rng.Intn(80)+5)), cmd("rrcurveto"))
					case 0:
						t = append(t, append(args(2), cmd("rlineto"))...)
					case 1:
						t = append(t, append(args(1), cmd("hlineto"))...)
					case 2:
						t = append(t, append(args(1), cmd("vlineto"))...)
					case 3:
						t = append(t, append(args(4), cmd("hvcurveto"))...)
					case 4:
						t = append(t, append(args(4), cmd("vhcurveto"))...)
					default:
						t = append(t, append(args(6), cmd("rrcurveto"))...)
					}
				}
				t = append(t, cmd("closepath"))
			}
			t = append(t, cmd("endchar"))
			f.Glyphs = append(f.Glyphs, name)
			f.Toks[name] = t
			f.Encoding[40+g*9] = name
		}
		if rng.Intn(3) == 0 {
			// every assigned code at its StandardEncoding position, the code of one existing
			// standard-named glyph left unassigned: a proper subset of StandardEncoding
			f.Encoding = map[int]string{}
			skipped := false
			for _, gname := range f.Glyphs {
				if c, ok := stdPos[gname]; ok {
					if !skipped {
						skipped = true
						continue
					}
					f.Encoding[c] = gname
				}
			}
			if skipped {
				desc = append(desc, "std-subset-with-hole")
			}
		} else {
			f.Encoding[250] = "nosuchglyph" // an encoding naming an absent glyph
		}
		s := func() string { return strs[rng.Intn(len(strs))] }
		f.Info = []string{"/version " + s() + " readonly def", "/Notice " + s() + " readonly def", "/FullName " + s() + " readonly def",
			"/FamilyName " + s() + " readonly def", "/Weight " + s() + " readonly def",
			"/ItalicAngle " + []string{"0", "-12", "-12.5", "1e1", "-12.0", "7."}[rng.Intn(6)] + " def", "/isFixedPitch " + []string{"true", "false"}[rng.Intn(2)] + " def",
			"/UnderlinePosition " + []string{"-100", "-100.5"}[rng.Intn(2)] + " def", "/UnderlineThickness 50 def"}
		f.Private = []string{"/BlueValues [-10 0 700 710] def"}
		switch rng.Intn(6) {
		case 0:
			f.Private = append(f.Private, "/BlueScale .0396251 def") // within 1e-6 of the default: snapped by the writer
			desc = append(desc, "bluescale-near-default")
		case 2:
			// just outside the 1e-6 window: must survive
			f.Private = append(f.Private, "/BlueScale "+[]string{".039627", ".039621", ".03963", ".03962", ".039623", ".039628"}[rng.Intn(6)]+" def")
			desc = append(desc, "bluescale-just-outside-window")
		case 1:
			f.Private = append(f.Private, "/BlueScale 0.05 def", "/BlueShift 3 def", "/ForceBold true def", "/StdHW [33.3] def")
		case 3:
			f.Private = append(f.Private, "/StdVW [85] def") // a vertical standard stem width without a horizontal one
		case 4:
			f.Private = append(f.Private, "/StdHW [40] def /StdVW [85.5] def /BlueFuzz 0 def")
		}
		if h := dates[rng.Intn(len(dates))]; h != "" {
			f.Header = []string{h}
		}
		lay := indep.Layout{Cont: []string{"pfa", "bin", "pfb", "clear"}[rng.Intn(4)], LenIV: []int{4, 0, 1}[rng.Intn(3)],
			Names: []string{"RD", "bar"}[rng.Intn(2)], LongNum: rng.Intn(4) == 0, Enc: []string{"custom", "std", "none"}[rng.Intn(3)]}
		out = append(out, struct {
			spec *indep.FontSpec
			lay  indep.Layout
			desc string
		}{f, lay, strings.Join(desc, ",")})
	}
	return out
}

func fuzzCorpus(dir string) [][]byte {
	var out [][]byte
	files, _ := filepath.Glob(filepath.Join(dir, "*"))
	for _, p := range files {
		data, err := os.ReadFile(p)
		if err != nil {
			continue
		}
		lines := strings.SplitN(string(data), "\n", 3)
		if len(lines) < 2 || !strings.HasPrefix(lines[1], "[]byte(") {
			continue
		}
		q := strings.TrimSuffix(strings.TrimPrefix(lines[1], "[]byte("), ")")
		s, err := strconv.Unquote(q)
		if err == nil {
			out = append(out, []byte(s))
		}
	}
	return out
}

// closureT1 <out.ndjson> <n> <seed> <repo> [vector files...]: C10 histories.
func closureT1(args []string) error {
	var n int
	var seed int64
	fmt.Sscan(args[1], &n)
	fmt.Sscan(args[2], &seed)
	repo := args[3]
	out, err := os.Create(args[0])
	if err != nil {
		return err
	}
	defer out.Close()
	w := bufio.NewWriterSize(out, 1<<20)
	defer w.Flush()
	enc := json.NewEncoder(w)
	rng := rand.New(rand.NewSource(seed))
	type fail struct{ Sig, What, Stim string }
	var fails []fail
	type input struct {
		data []byte
		desc string
	}
	var inputs []input
	for _, u := range unusualSpecs(rng, n) {
		data, err := indep.WriteFont(u.spec, u.lay)
		if err != nil {
			return err
		}
		inputs = append(inputs, input{data, fmt.Sprintf("independent writer: %s %+v", u.desc, u.lay)})
	}
	// a font of realistic size: the encrypted portion is well beyond 64 KiB (three-byte PFB lengths)
	{
		num := func(v int64) indep.Tok { return indep.Tok{T: "n", V: v} }
		cmd := func(c string) indep.Tok { return indep.Tok{T: "c", C: c} }
		big := &indep.FontSpec{FontName: "BigFont", Toks: map[string][]indep.Tok{}, Subrs: [][]indep.Tok{{cmd("return")}, {cmd("return")}, {cmd("return")}, {cmd("return")}},
			Info:    []string{"/version (1) readonly def", "/FullName (Big) readonly def", "/FamilyName (B) readonly def", "/Weight (R) readonly def", "/ItalicAngle 0 def", "/isFixedPitch false def", "/UnderlinePosition -100 def", "/UnderlineThickness 50 def"},
			Private: []string{"/BlueValues [-10 0 700 710] def"}, Encoding: map[int]string{}}
		big.Glyphs = append(big.Glyphs, ".notdef")
		big.Toks[".notdef"] = []indep.Tok{num(0), num(250), cmd("hsbw"), cmd("endchar")}
		for g := 0; g < 420; g++ {
			name := fmt.Sprintf("g%03d", g)
			t := []indep.Tok{num(int64(g % 50)), num(int64(400 + g)), cmd("hsbw"), num(10), num(10), cmd("rmoveto")}
			for s := 0; s < 44; s++ {
				t = append(t, num(int64(100+s*7+g)), num(int64(-90+s*5)), cmd("rlineto"))
			}
			t = append(t, cmd("closepath"), cmd("endchar"))
			big.Glyphs = append(big.Glyphs, name)
			big.Toks[name] = t
		}
		for _, cont := range []string{"pfb", "pfa"} {
			if data, err := indep.WriteFont(big, indep.Layout{Cont: cont, LenIV: 4, Names: "RD", Enc: "none"}); err == nil {
				inputs = append(inputs, input{data, fmt.Sprintf("independent writer: big font (%d bytes) %s", len(data), cont)})
			}
		}
	}
	for i, c := range fuzzCorpus(filepath.Join(repo, "type1/testdata/fuzz/FuzzFont")) {
		inputs = append(inputs, input{c, fmt.Sprintf("fuzz corpus entry %d", i)})
	}
	// model fonts generated by TLC (MC_T1Font vectors), in rotating layouts
	for _, path := range args[4:] {
		k := 0
		err := model.ReadAny(path, func(line int, raw []byte) error {
			k++
			if k%(1+2000/max(n, 1)) != 0 {
				return nil
			}
			var v t1Vec
			if err := json.Unmarshal(raw, &v); err != nil {
				return err
			}
			v.Lay = layoutRotation[line%len(layoutRotation)]
			data, err := indep.WriteFont(buildSpec(&v), v.Lay)
			if err != nil {
				return err
			}
			inputs = append(inputs, input{data, fmt.Sprintf("MC_T1Font vector %d", line)})
			return nil
		})
		if err != nil {
			return err
		}
	}
	events, accepted := 0, 0
	for i, in := range inputs {
		var f1 *type1.Font
		var rerr error
		func() {
			defer func() {
				if r := recover(); r != nil {
					rerr = fmt.Errorf("panic: %v", r)
					fails = append(fails, fail{"closure: reader panic", fmt.Sprint(r), in.desc})
				}
			}()
			f1, rerr = type1.Read(bytes.NewReader(in.data))
		}()
		if rerr != nil || f1 == nil {
			continue // not an accepted input
		}
		p1 := fontgen.Project(f1)
		if !p1.Finite {
			continue // the property excludes non-finite numbers
		}
		accepted++
		for _, ft := range t1Formats {
			f2, werr, rerr, pan := writeRead(f1, ft.f)
			stim := fmt.Sprintf("input #%d (%s) format %s", i, in.desc, ft.name)
			if pan != nil {
				fails = append(fails, fail{"closure: panic writing an accepted font", fmt.Sprintf("panic: %v", pan), stim})
				continue
			}
			if werr != nil {
				fails = append(fails, fail{"closure: error writing an accepted font", werr.Error(), stim})
				continue
			}
			if rerr != nil {
				fails = append(fails, fail{"closure: written font is rejected by the reader", rerr.Error(), stim})
				continue
			}
			f3, werr, rerr, pan := writeRead(f2, ft.f)
			if pan != nil || werr != nil || rerr != nil {
				fails = append(fails, fail{"closure: second cycle fails", fmt.Sprint(pan, werr, rerr), stim})
				continue
			}
			events++
			if err := enc.Encode(map[string]any{"ev": "closure", "fmt": ft.name, "id": i, "opts": in.desc,
				"f1": p1, "f2": fontgen.Project(f2), "f3": fontgen.Project(f3)}); err != nil {
				return err
			}
		}
	}
	return emit(map[string]any{"events": events, "inputs": len(inputs), "accepted": accepted, "failures": fails,
		"axes": []string{inputs[0].desc, inputs[len(inputs)/2].desc, inputs[len(inputs)-1].desc}})
}
