package main

import (
	"bytes"
	"fmt"
	"math/rand"

	ps "seehuhn.de/go/postscript"

	"vharness/indep"
)

func init() { register("eexec-coverage", eexecCoverage) }

// eexecCoverage <nbytes> <seed>: encrypts random data with the independent
// cipher, lets the library decrypt it (binary eexec + readstring in chunks)
// and compares.  Reports how many (state, byte) pairs the library decrypted.
func eexecCoverage(args []string) error {
	var n int
	var seed int64
	fmt.Sscan(args[0], &n)
	fmt.Sscan(args[1], &seed)
	rng := rand.New(rand.NewSource(seed))
	const chunk = 60000
	var plain bytes.Buffer
	var want [][]byte
	// lead: four plaintext bytes; make sure the cipher lead is a legal binary lead
	var lead []byte
	for {
		lead = []byte{byte(rng.Intn(256)), byte(rng.Intn(256)), byte(rng.Intn(256)), byte(rng.Intn(256))}
		c := indep.Encrypt(indep.R0Eexec, lead)
		hex := true
		for _, b := range c {
			if !(b >= '0' && b <= '9' || b >= 'a' && b <= 'f' || b >= 'A' && b <= 'F') {
				hex = false
			}
		}
		if !hex && c[0] != ' ' && c[0] != '\t' && c[0] != '\r' && c[0] != '\n' {
			break
		}
	}
	plain.Write(lead)
	for done := 0; done < n; done += chunk {
		k := chunk
		if n-done < k {
			k = n - done
		}
		data := make([]byte, k)
		rng.Read(data)
		want = append(want, data)
		fmt.Fprintf(&plain, "%d string currentfile exch readstring ", k)
		plain.Write(data)
		plain.WriteString(" pop\n")
	}
	plain.WriteString("mark currentfile closefile\n")
	cipher := indep.Encrypt(indep.R0Eexec, plain.Bytes())
	states := map[uint16]bool{}
	c := indep.Cipher{R: indep.R0Eexec}
	for _, x := range cipher {
		states[c.R] = true
		c.Dec(x)
	}
	input := append([]byte("currentfile eexec\n"), cipher...)
	input = append(input, "\ncleartomark\n"...)
	intp := ps.NewInterpreter()
	intp.MaxOps = 10000000
	err := intp.Execute(bytes.NewReader(input))
	res := map[string]any{"pairs": len(cipher), "states": len(states), "mismatch": false, "first": ""}
	if err != nil {
		res["mismatch"] = true
		res["first"] = "error: " + err.Error()
		return emit(res)
	}
	if len(intp.Stack) != len(want) {
		res["mismatch"] = true
		res["first"] = fmt.Sprintf("%d strings on the stack, want %d", len(intp.Stack), len(want))
		return emit(res)
	}
	for i, w := range want {
		g, ok := intp.Stack[i].(ps.String)
		if !ok || !bytes.Equal(g, w) {
			res["mismatch"] = true
			j := 0
			for j < len(w) && ok && j < len(g) && g[j] == w[j] {
				j++
			}
			res["first"] = fmt.Sprintf("chunk %d differs at byte %d", i, j)
			break
		}
	}
	return emit(res)
}
