package main

import (
	"fmt"

	ps "seehuhn.de/go/postscript"

	"vharness/psbind"
)

func init() { register("probe-limits", probeLimits) }

// probeLimits measures the resource limits of the interpreter under test: they are
// parameters of the specification (CONSTANTS MaxOpStack, MaxDictStack, MaxExecDepth,
// ImplLimit), not facts that the properties fix.  A limit that cannot be found below
// the search bound is reported as 0 ("no limit found"): that is C11's subject.
func probeLimits(args []string) error {
	run := func(prog string, maxops int) (*ps.Interpreter, string) {
		intp := ps.NewInterpreter()
		intp.MaxOps = maxops
		var name string
		func() {
			defer func() {
				if r := recover(); r != nil {
					name = "panic"
				}
			}()
			name = psbind.ErrName(intp.ExecuteString(prog))
		}()
		return intp, name
	}
	res := map[string]int{}
	// operand stack: the check is made before an object is dispatched
	if intp, e := run("{1} loop", 3000000); e == "stackoverflow" {
		res["opstack"] = len(intp.Stack) - 1
	}
	// dictionary stack
	if intp, e := run("{currentdict begin} loop", 3000000); e == "dictstackoverflow" {
		res["dictstack"] = len(intp.DictStack)
	}
	// execution nesting: number of nested non-tail calls that succeed
	if intp, e := run("/n 0 def /f {/n n 1 add def f 1} def f", 30000000); e == "execstackoverflow" {
		if n, ok := intp.UserDict["n"].(ps.Integer); ok {
			res["execdepth"] = int(n)
		}
	}
	// largest array / string / dict that can be requested
	for _, op := range []string{"array", "string", "dict"} {
		lo, hi := 0, 1<<28 // lo succeeds, hi is assumed to fail
		if _, e := run(fmt.Sprintf("%d %s pop", hi, op), 100); e == "" {
			continue // no limit below 2^28: reported as 0
		}
		for hi-lo > 1 {
			mid := (lo + hi) / 2
			if _, e := run(fmt.Sprintf("%d %s pop", mid, op), 100); e == "" {
				lo = mid
			} else {
				hi = mid
			}
		}
		res["max"+op] = lo
	}
	return emit(res)
}
