package main

import (
	"encoding/json"
	"flag"
	"fmt"
	"math/rand"
	"runtime"
	"strings"
	"sync"

	ps "seehuhn.de/go/postscript"

	"vharness/model"
	"vharness/psbind"
)

func init() { register("replay-cmap", replayCMap) }

type cmapVec struct {
	Prog   []model.Value `json:"prog"`
	Status string        `json:"status"`
	Errs   []string      `json:"errs"`
	Faulty bool          `json:"faulty"`
	CMap   model.Value   `json:"cmap"`
	Name   string        `json:"name"`
	Heap   model.Heap    `json:"heap"`
	Blocks []struct {
		Kind  string `json:"kind"`
		N     int    `json:"n"`
		V     int    `json:"v"`
		Fault string `json:"fault"`
	} `json:"blocks"`
	Opts struct {
		WMode   int  `json:"wmode"`
		Use     bool `json:"use"`
		Two     bool `json:"two"`
		NoBegin bool `json:"nobegin"`
	} `json:"opts"`
}

// renderCMap lays the token sequence out as a CMap file; the layout (white
// space, line ends, comments, hex case, string flavour) is drawn from rng.
func renderCMap(toks []model.Value, rng *rand.Rand) string {
	var sb strings.Builder
	sb.WriteString("%!PS-Adobe-3.0 Resource-CMap\n%%BeginResource: CMap (Test)\n")
	// structured comments without a value at the start of a line, as the standard CMap
	// files have them (%%EndComments, %%BeginData ...): what follows the line is code
	seps := []string{" ", "\n", "\r\n", "  ", "\t", " % comment\n", "%a comment right behind the token\n", "\n\n", "\n%%EndComments\n", "\n%%Page:\n\n", "\n%%BeginData\n"}
	for i, t := range toks {
		if i > 0 {
			switch {
			case t.T == "xname" && strings.HasPrefix(t.S, "end") || t.T == "xname" && t.S == "def":
				sb.WriteString([]string{" ", "\n"}[rng.Intn(2)])
			default:
				sb.WriteString(seps[rng.Intn(len(seps))])
			}
		}
		switch t.T {
		case "strlit":
			printable := len(t.Bytes) > 0
			for _, c := range t.Bytes {
				if c < 'A' || c > 'z' || c == '\\' {
					printable = false
				}
			}
			if printable && rng.Intn(2) == 0 {
				sb.WriteString("(" + string(toB(t.Bytes)) + ")")
			} else {
				sb.WriteString("<")
				for j, c := range t.Bytes {
					if rng.Intn(2) == 0 {
						fmt.Fprintf(&sb, "%02x", c)
					} else {
						fmt.Fprintf(&sb, "%02X", c)
					}
					if rng.Intn(8) == 0 && j+1 < len(t.Bytes) {
						sb.WriteString(" ")
					}
				}
				sb.WriteString(">")
			}
		default:
			psbind.RenderToken(&sb, t)
		}
	}
	sb.WriteString("\n%%EndResource\n%%EOF\n")
	// one end-of-line convention per file: LF, CR LF or bare CR (all three are PostScript line ends)
	switch rng.Intn(4) {
	case 0:
		return strings.ReplaceAll(strings.ReplaceAll(sb.String(), "\r\n", "\n"), "\n", "\r")
	case 1:
		return strings.ReplaceAll(strings.ReplaceAll(sb.String(), "\r\n", "\n"), "\n", "\r\n")
	}
	return sb.String()
}

func cmapSig(v *cmapVec, kind string) string {
	kinds := map[string]bool{}
	fault := "none"
	for _, b := range v.Blocks {
		kinds[b.Kind] = true
		if b.Fault != "none" {
			fault = b.Fault + "@" + b.Kind
		}
	}
	var ks []string
	for _, k := range []string{"codespacerange", "cidchar", "cidrange", "bfchar", "bfrange", "notdefchar", "notdefrange"} {
		if kinds[k] {
			ks = append(ks, k)
		}
	}
	opt := ""
	if v.Opts.Use {
		opt += "+usecmap"
	}
	if v.Opts.Two {
		opt += "+two"
	}
	if v.Opts.NoBegin {
		opt += "+nobegincmap"
	}
	if kind == "missing-error" {
		return fmt.Sprintf("cmap fault=%s%s %s", fault, opt, kind)
	}
	return fmt.Sprintf("cmap{%s}%s %s", strings.Join(ks, ","), opt, kind)
}

func replayCMap(args []string) error {
	fs := flag.NewFlagSet("replay-cmap", flag.ContinueOnError)
	basePath := fs.String("base", "", "base heap")
	seed := fs.Int64("seed", 1, "layout seed")
	if err := fs.Parse(args); err != nil {
		return err
	}
	base, err := loadBase(*basePath)
	if err != nil {
		return err
	}
	type job struct {
		line int
		raw  []byte
	}
	jobs := make(chan job, 256)
	var mu sync.Mutex
	sum := replaySummary{PerOp: map[string]int{}, PerOpOK: map[string]int{}, BySig: map[string]int{}}
	var wg sync.WaitGroup
	var firstErr error
	for w := 0; w < runtime.NumCPU(); w++ {
		wg.Add(1)
		go func() {
			defer wg.Done()
			for j := range jobs {
				var v cmapVec
				if err := json.Unmarshal(j.raw, &v); err != nil {
					mu.Lock()
					if firstErr == nil {
						firstErr = fmt.Errorf("line %d: %v", j.line, err)
					}
					mu.Unlock()
					continue
				}
				rng := rand.New(rand.NewSource(*seed*1000003 + int64(j.line)))
				text := renderCMap(v.Prog, rng)
				var d *disagreement
				mk := func(kind, what, exp, obs string) *disagreement {
					t := text
					if len(t) > 1500 {
						t = t[:1500] + "..."
					}
					return &disagreement{Sig: cmapSig(&v, kind), What: what, Stimulus: t, Expected: exp, Observed: obs, Line: j.line}
				}
				var res ps.Dict
				var rerr error
				var pan any
				func() {
					defer func() { pan = recover() }()
					res, rerr = ps.ReadCMap(strings.NewReader(text))
				}()
				switch {
				case pan != nil:
					d = mk("panic", fmt.Sprintf("ReadCMap panicked: %v", pan), "", fmt.Sprint(pan))
				case v.Status == "error":
					if rerr == nil {
						d = mk("missing-error", "a faulty CMap file must be rejected with an error", "error "+strings.Join(v.Errs, "|"), "a result")
					}
				default:
					if rerr != nil {
						d = mk("unexpected-error", "a CMap file in the standard form is rejected", "the mappings", rerr.Error())
					} else if err := psbind.ContentCompare(base.Heap, v.Heap, v.CMap, res); err != nil {
						d = mk("content", "the returned CMap differs from the file", "", err.Error())
					}
				}
				mu.Lock()
				sum.Vectors++
				for _, b := range v.Blocks {
					sum.PerOp[b.Kind]++
				}
				if v.Status == "done" {
					sum.ExpectOK++
				} else {
					sum.ExpectError++
				}
				if len(sum.Samples) < 3 && j.line%997 == 5 {
					t := text
					if len(t) > 700 {
						t = t[:700] + "..."
					}
					sum.Samples = append(sum.Samples, t)
				}
				if d == nil {
					sum.Agreed++
				} else {
					sum.NDisagree++
					sum.BySig[d.Sig]++
					if sum.BySig[d.Sig] <= 2 && len(sum.Disagreements) < 300 {
						sum.Disagreements = append(sum.Disagreements, *d)
					}
				}
				mu.Unlock()
			}
		}()
	}
	for _, path := range fs.Args() {
		err := model.ReadAny(path, func(line int, raw []byte) error {
			cp := make([]byte, len(raw))
			copy(cp, raw)
			jobs <- job{line, cp}
			return nil
		})
		if err != nil {
			close(jobs)
			return err
		}
	}
	close(jobs)
	wg.Wait()
	if firstErr != nil {
		return firstErr
	}
	sum.Distinct = sum.Vectors
	return emit(sum)
}
