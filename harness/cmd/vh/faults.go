package main

import (
	"bufio"
	"bytes"
	"encoding/json"
	"errors"
	"fmt"
	"io"
	"math/rand"
	"os"
	"runtime"
	"strings"
	"sync"

	"seehuhn.de/go/postscript/afm"
	"seehuhn.de/go/postscript/type1"

	"vharness/corpus"
	"vharness/fontgen"
)

func init() {
	register("faults", faultsCmd)
	register("corrupt", corruptCmd)
}

// corruptCmd <tier> <seed>: structure-aware corruption of valid files (C01f): one byte of
// every corpus input replaced at every offset; the reader must return (result or error).
func corruptCmd(args []string) error {
	tier := args[0]
	var seed int64
	fmt.Sscan(args[1], &seed)
	sum := replaySummary{PerOp: map[string]int{}, PerOpOK: map[string]int{}, BySig: map[string]int{}}
	var mu sync.Mutex
	type job struct {
		in  corpus.Input
		at  int
		val byte
		cut bool // the file ends at offset `at` instead
	}
	jobs := make(chan job, 1024)
	var wg sync.WaitGroup
	for w := 0; w < runtime.NumCPU(); w++ {
		wg.Add(1)
		go func() {
			defer wg.Done()
			for j := range jobs {
				data := append([]byte{}, j.in.Data...)
				how := fmt.Sprintf("byte %d replaced by 0x%02x", j.at, j.val)
				if j.cut {
					data = data[:j.at]
					how = fmt.Sprintf("cut off after %d bytes", j.at)
				} else {
					data[j.at] = j.val
				}
				res := corpus.Run(j.in.Entry, bytes.NewReader(data))
				mu.Lock()
				sum.Vectors++
				sum.PerOp[j.in.Entry]++
				if res.Panic == "" {
					sum.Agreed++
					if res.Err == "" {
						sum.PerOpOK[j.in.Entry]++
					}
				} else {
					sig := "corrupt: " + j.in.Entry + " panics on a corrupted file"
					sum.NDisagree++
					sum.BySig[sig]++
					if sum.BySig[sig] <= 3 {
						sum.Disagreements = append(sum.Disagreements, disagreement{Sig: sig, What: "the reader panicked: " + res.Panic,
							Stimulus: fmt.Sprintf("input %s, %s", j.in.Name, how), Expected: "a result or an error", Observed: res.Panic})
					}
				}
				mu.Unlock()
			}
		}()
	}
	vals := []byte{0x00, 0xff, '(', '}', '%', '<', '0', 0x80, ' '}
	rng := rand.New(rand.NewSource(seed))
	for _, in := range corpus.All(seed) {
		step := 1
		if tier == "quick" && len(in.Data) > 2000 {
			step = 3
		}
		for at := 0; at < len(in.Data); at += step {
			jobs <- job{in: in, at: at, val: vals[rng.Intn(len(vals))]}
			if tier == "thorough" {
				jobs <- job{in: in, at: at, val: vals[rng.Intn(len(vals))]}
				jobs <- job{in: in, at: at, val: byte(rng.Intn(256))}
			}
		}
		// the file cut off at every offset (a reader must cope with any end of input)
		for at := 0; at < len(in.Data); at++ {
			jobs <- job{in: in, at: at, cut: true}
		}
	}
	close(jobs)
	wg.Wait()
	sum.Distinct = sum.Vectors
	return emit(sum)
}

var errInjected = errors.New("injected I/O fault")

// faultReader returns the bytes before offset `at`, then the injected error.
//
// mode "alone": the error comes in a call of its own (0, err) and is repeated.
// mode "withdata-eof": the call that delivers the last bytes before `at` returns them
// together with the error (n > 0, err), as io.Reader allows; afterwards the source
// reports io.EOF (a connection that died).  mode "withdata-resume": as before, but
// the fault is transient and the source then delivers the remaining bytes.
type faultReader struct {
	data      []byte
	off, at   int
	delivered bool
	calls     int
	chunk     int
	mode      string
	fired     bool
}

func (r *faultReader) Read(p []byte) (int, error) {
	r.calls++
	if r.mode == "" || r.mode == "alone" {
		if r.off >= r.at {
			r.delivered = true
			return 0, errInjected
		}
	} else if r.fired {
		if r.mode == "withdata-eof" || r.off >= len(r.data) {
			return 0, io.EOF
		}
		n := min(len(p), len(r.data)-r.off)
		copy(p, r.data[r.off:r.off+n])
		r.off += n
		return n, nil
	} else if r.off >= r.at {
		r.delivered, r.fired = true, true
		return 0, errInjected
	}
	n := len(p)
	if r.chunk > 0 && n > r.chunk {
		n = r.chunk
	}
	if n > r.at-r.off {
		n = r.at - r.off
	}
	copy(p, r.data[r.off:r.off+n])
	r.off += n
	if r.mode != "" && r.mode != "alone" && r.off >= r.at {
		r.delivered, r.fired = true, true
		return n, errInjected
	}
	return n, nil
}

// faultWriter fails at write call number `at` (0-based); with short >= 0 it
// instead accepts only `short` bytes in total and then fails.
type faultWriter struct {
	buf       bytes.Buffer
	at, calls int
	short     int
	delivered bool
}

func (w *faultWriter) Write(p []byte) (int, error) {
	k := w.calls
	w.calls++
	if w.short >= 0 {
		room := w.short - w.buf.Len()
		if room < len(p) {
			w.delivered = true
			if room < 0 {
				room = 0
			}
			w.buf.Write(p[:room])
			return room, errInjected
		}
		w.buf.Write(p)
		return len(p), nil
	}
	if k == w.at {
		w.delivered = true
		return 0, errInjected
	}
	w.buf.Write(p)
	return len(p), nil
}

// faultsCmd <out.ndjson> <tier> <seed>
func faultsCmd(args []string) error {
	tier := args[1]
	var seed int64
	fmt.Sscan(args[2], &seed)
	out, err := os.Create(args[0])
	if err != nil {
		return err
	}
	defer out.Close()
	bw := bufio.NewWriterSize(out, 1<<20)
	defer bw.Flush()
	enc := json.NewEncoder(bw)
	var mu sync.Mutex
	events := 0
	perKind := map[string]int{}
	emitEv := func(ev map[string]any) {
		if _, ok := ev["baseok"]; !ok {
			ev["baseok"] = true
		}
		mu.Lock()
		events++
		perKind[fmt.Sprint(ev["kind"], "/", ev["entry"])]++
		enc.Encode(ev)
		mu.Unlock()
	}
	type job func()
	jobs := make(chan job, 256)
	var wg sync.WaitGroup
	for w := 0; w < runtime.NumCPU(); w++ {
		wg.Add(1)
		go func() {
			defer wg.Done()
			for j := range jobs {
				j()
			}
		}()
	}
	outcome := func(r corpus.Result) string {
		switch {
		case r.Panic != "":
			return "panic"
		case r.Err != "":
			return "error"
		}
		return "ok"
	}
	// ---- readers
	for _, in := range corpus.All(seed) {
		in := in
		base := corpus.Run(in.Entry, bytes.NewReader(in.Data))
		if (base.Err != "" && !corpus.Rejected[in.Name]) || base.Panic != "" {
			close(jobs)
			return fmt.Errorf("corpus input %s not accepted: %s%s", in.Name, base.Err, base.Panic)
		}
		step := 1
		if tier == "quick" && len(in.Data) > 3000 {
			step = 5
		}
		for at := 0; at <= len(in.Data); at += step {
			at := at
			jobs <- func() {
				for _, mode := range []string{"alone", "withdata-eof", "withdata-resume"} {
					fr := &faultReader{data: in.Data, at: at, chunk: 0, mode: mode}
					res := corpus.Run(in.Entry, fr)
					emitEv(map[string]any{"kind": "readfault", "mode": mode, "entry": in.Entry, "input": in.Name, "at": at, "delivered": fr.delivered,
						"calls": fr.calls, "outcome": outcome(res), "equal": res == base, "complete": false, "detail": res.Err + res.Panic, "baseok": base.Err == ""})
				}
				if corpus.Rejected[in.Name] {
					return // truncation is judged against the complete result: there is none
				}
				tr := corpus.Run(in.Entry, bytes.NewReader(in.Data[:at]))
				emitEv(map[string]any{"kind": "truncate", "entry": in.Entry, "input": in.Name, "at": at, "delivered": true,
					"calls": 0, "outcome": outcome(tr), "equal": tr == base, "complete": at == len(in.Data), "detail": tr.Err + tr.Panic})
			}
		}
	}
	// ---- writers
	rng := rand.New(rand.NewSource(seed))
	fonts := []*type1.Font{
		fontgen.Generate(rng, fontgen.Opts{NGlyphs: 3, Encoding: "custom", Zone: "utc", NonDefault: true}),
		fontgen.Generate(rng, fontgen.Opts{NGlyphs: 8, Encoding: "std-subset", HardString: true}),
		fontgen.Generate(rng, fontgen.Opts{NGlyphs: 2, Encoding: "none", Fractional: true}),
	}
	type wcase struct {
		name string
		run  func(w io.Writer) error
	}
	var wcases []wcase
	for fi, f := range fonts {
		f := f
		for _, ft := range t1Formats {
			ft := ft
			wcases = append(wcases, wcase{fmt.Sprintf("Font.Write font%d %s", fi, ft.name), func(w io.Writer) error {
				return f.Write(w, &type1.WriterOptions{Format: ft.f})
			}})
		}
		wcases = append(wcases, wcase{fmt.Sprintf("Font.WritePDF font%d", fi), func(w io.Writer) error {
			_, _, err := f.WritePDF(w)
			return err
		}})
	}
	// a sweep over the length of the encrypted portion (the hexadecimal armour of the PFA form flushes
	// its 78-column lines at positions that depend on it): one extra glyph with a name of 1..39 letters
	{
		base := fontgen.Generate(rng, fontgen.Opts{NGlyphs: 2, Encoding: "none", Zone: "none"})
		for l := 1; l <= 39; l++ {
			f := *base
			f.Glyphs = map[string]*type1.Glyph{}
			for k, g := range base.Glyphs {
				f.Glyphs[k] = g
			}
			f.Glyphs[strings.Repeat("g", l)] = &type1.Glyph{WidthX: 500}
			ff := f
			wcases = append(wcases, wcase{fmt.Sprintf("Font.Write sweep name-length %d pfa", l), func(w io.Writer) error {
				return ff.Write(w, &type1.WriterOptions{Format: type1.FormatPFA})
			}})
		}
	}
	for _, in := range corpus.All(seed) {
		if in.Entry != "afm" {
			continue
		}
		m, err := afm.Read(bytes.NewReader(in.Data))
		if err != nil {
			continue
		}
		name := in.Name
		wcases = append(wcases, wcase{"Metrics.Write " + name, func(w io.Writer) error { return m.Write(w) }})
	}
	for _, wc := range wcases {
		wc := wc
		ok := &faultWriter{at: -1, short: -1}
		if err := wc.run(ok); err != nil {
			close(jobs)
			return fmt.Errorf("%s fails without a fault: %v", wc.name, err)
		}
		total, ncalls := ok.buf.Len(), ok.calls
		baseBytes := append([]byte{}, ok.buf.Bytes()...)
		run := func(kind string, at, short int) {
			fw := &faultWriter{at: at, short: short}
			var werr error
			pan := ""
			func() {
				defer func() {
					if r := recover(); r != nil {
						pan = fmt.Sprint(r)
					}
				}()
				werr = wc.run(fw)
			}()
			oc := "ok"
			if pan != "" {
				oc = "panic"
			} else if werr != nil {
				oc = "error"
			}
			emitEv(map[string]any{"kind": kind, "entry": wc.name, "input": wc.name, "at": max(at, short), "delivered": fw.delivered,
				"calls": fw.calls, "outcome": oc, "equal": bytes.Equal(fw.buf.Bytes(), baseBytes), "complete": false, "detail": fmt.Sprint(werr) + pan})
		}
		for at := 0; at < ncalls; at++ {
			at := at
			jobs <- func() { run("writefault", at, -1) }
		}
		nshort := 40
		if tier == "thorough" {
			nshort = 400
		}
		for k := 0; k < nshort; k++ {
			off := rng.Intn(total)
			jobs <- func() { run("shortwrite", -1, off) }
		}
	}
	close(jobs)
	wg.Wait()
	return emit(map[string]any{"events": events, "per_kind": perKind, "failures": []any{},
		"axes": []string{fmt.Sprintf("%d writer cases, read faults and truncation at every offset of the corpus", len(wcases))}})
}
