// Package fontgen generates *type1.Font values inside the writer's domain
// (seeded), and projects fonts to the abstract records that the TLA+
// relations of RoundTrip.tla talk about.
package fontgen

import (
	"fmt"
	"math"
	"math/rand"
	"sort"
	"time"

	"seehuhn.de/go/geom/matrix"
	"seehuhn.de/go/postscript/funit"
	"seehuhn.de/go/postscript/type1"
)

// Opts selects the axes the properties name explicitly.
type Opts struct {
	NGlyphs    int
	Fractional bool   // fractional coordinates
	Encoding   string // none | std-subset | custom | holes (codes of existing glyphs left unassigned)
	HardString bool   // info strings over all byte values incl. parentheses, backslash, CR, LF, NUL
	Zone       string // none | utc | named | unnamed
	NonDefault bool   // non-default private values
	LongPaths  bool
	Huge       bool // an encrypted portion well beyond 64 KiB (three-byte PFB segment lengths)
	BigFrac    bool // one glyph with fractional coordinates whose magnitude exceeds 2^31/107 (exact with a small denominator only)
}

var stdNames = []string{"space", "exclam", "A", "B", "C", "a", "b", "c", "zero", "one", "period", "comma", "hyphen", "grave", "acute"}
var stdCode = map[string]int{"space": 32, "exclam": 33, "A": 65, "B": 66, "C": 67, "a": 97, "b": 98, "c": 99, "zero": 48, "one": 49,
	"period": 46, "comma": 44, "hyphen": 45, "grave": 193, "acute": 194}

// craftedStrings: control bytes followed by octal digits, form feed (ends a comment), escapes at the
// end, unbalanced and nested parentheses, a percent sign, DEL - each of them a case a writer of
// string literals or of comment lines must get right, none of them likely in a random draw.
var craftedStrings = []string{"\f", "a\fb 1 pop", "\n2019", "\t7", "\x000", "x\r\n1", "\x7f5", "\b0\f1", "(", ")(", "((a)", "a\\", "\\1", "\\(", "%!PS", "% 100%",
	"\x01\x02\x1f", "1\n2\r3\t4", "\f\f", " lead and trail "}

func hardString(rng *rand.Rand) string {
	if rng.Intn(2) == 0 {
		return craftedStrings[rng.Intn(len(craftedStrings))]
	}
	special := []byte{'(', ')', '\\', '\r', '\n', 0, '%', 200, 255, ' ', 'a', '/', '{', '<', '\f', '\t', 'x', 127}
	n := rng.Intn(12)
	b := make([]byte, n)
	for i := range b {
		if rng.Intn(3) == 0 {
			b[i] = byte(rng.Intn(256))
		} else {
			b[i] = special[rng.Intn(len(special))]
		}
	}
	return string(b)
}

func coord(rng *rand.Rand, frac bool) float64 {
	x := float64(rng.Intn(2001) - 1000)
	if frac && rng.Intn(2) == 0 {
		switch rng.Intn(3) {
		case 0:
			x += float64(rng.Intn(9)+1) / 10
		case 1:
			x += float64(rng.Intn(106)+1) / 107
		default:
			x += rng.Float64()
		}
	}
	return x
}

// Generate returns a font in the writable domain: integer advance widths,
// regular-character glyph names, well-formed contours, finite numbers.
func Generate(rng *rand.Rand, o Opts) *type1.Font {
	f := &type1.Font{
		FontInfo: &type1.FontInfo{
			FontName:           "Verif" + fmt.Sprint(rng.Intn(1000)),
			Version:            "001.00" + fmt.Sprint(rng.Intn(10)),
			Notice:             "Notice text",
			Copyright:          "Copyright (c) test",
			FullName:           "Verif Font",
			FamilyName:         "Verif",
			Weight:             "Regular",
			ItalicAngle:        float64(-rng.Intn(3) * 6),
			IsFixedPitch:       rng.Intn(2) == 0,
			UnderlinePosition:  funit.Float64(-100 - rng.Intn(50)),
			UnderlineThickness: funit.Float64(40 + rng.Intn(30)),
			FontMatrix:         matrix.Matrix{0.001, 0, 0, 0.001, 0, 0},
		},
		Private: &type1.PrivateDict{
			BlueValues: []funit.Int16{-10, 0, 700, 712},
			BlueScale:  0.039625,
			BlueShift:  7,
			BlueFuzz:   1,
		},
		Glyphs: map[string]*type1.Glyph{},
	}
	if o.HardString {
		f.Notice = hardString(rng)
		f.Copyright = hardString(rng)
		f.FullName = hardString(rng)
		f.FamilyName = hardString(rng)
		f.Weight = hardString(rng)
		f.Version = hardString(rng) // also appears in the %! header line of the written file
	}
	if o.NonDefault {
		f.Private.BlueScale = []float64{0.05, 0.0375, 0.1}[rng.Intn(3)]
		f.Private.BlueShift = int32(rng.Intn(10))
		f.Private.BlueFuzz = int32(rng.Intn(3))
		// every combination of present / absent standard stem widths
		switch rng.Intn(4) {
		case 0:
			f.Private.StdHW = float64(20 + rng.Intn(50))
			f.Private.StdVW = float64(60+rng.Intn(50)) + 0.5
		case 1:
			f.Private.StdVW = float64(60 + rng.Intn(50))
		case 2:
			f.Private.StdHW = float64(20+rng.Intn(50)) + 0.25
		}
		f.Private.ForceBold = true
		f.Private.OtherBlues = []funit.Int16{-250, -240}
		f.ItalicAngle = -12.5
		// slanted, turned by a quarter (zero diagonal), mirrored, 2048 units per em, shifted
		f.FontMatrix = []matrix.Matrix{{0.001, 0, 0.0002, 0.001, 0, 0}, {0, 0.001, -0.001, 0, 0, 0}, {-0.001, 0, 0, 0.001, 0, 0},
			{0.00048828125, 0, 0, 0.00048828125, 0, 0}, {0, -0.001, 0.001, 0, 0, 0}, {0.001, 0, 0, 0.001, 0.5, -0.25}}[rng.Intn(6)]
	}
	// glyph names: .notdef, standard names, then synthetic regular-character names
	names := []string{".notdef"}
	for i := 0; len(names) < o.NGlyphs; i++ {
		if i < len(stdNames) {
			names = append(names, stdNames[i])
		} else {
			names = append(names, fmt.Sprintf("g%03d.alt_%c", i, 'a'+byte(i%26)))
		}
	}
	for gi, name := range names {
		g := &type1.Glyph{WidthX: float64(rng.Intn(1200))}
		switch rng.Intn(12) {
		case 0:
			g.WidthY = float64(rng.Intn(50) + 1)
		case 1:
			g.WidthX = -float64(rng.Intn(1200) + 1) // right-to-left advance
		case 2:
			g.WidthX, g.WidthY = 0, -float64(rng.Intn(1000)+1) // vertical writing
		case 3:
			g.WidthX = []float64{-1, -107, -108, -1131, -1132, 1131, 1132, 107, 108}[rng.Intn(9)]
		}
		nc := rng.Intn(3)
		if gi == 0 {
			nc = 0
		}
		if o.LongPaths && gi == 1 {
			nc = 40
		}
		if o.Huge && gi > 0 {
			nc = 12
		}
		cxPrev, cyPrev := 0.0, 0.0
		for c := 0; c < nc; c++ {
			nx, ny := coord(rng, o.Fractional), coord(rng, o.Fractional)
			if c > 0 {
				// later contours often start exactly beside or above the point the previous one ended at
				switch rng.Intn(4) {
				case 0:
					ny = cyPrev
				case 1:
					nx = cxPrev
				}
			}
			cx, cy := nx, ny
			g.MoveTo(cx, cy)
			ns := 1 + rng.Intn(4)
			if o.LongPaths && gi == 1 {
				ns = 30
			}
			if o.Huge && gi > 0 {
				ns = 60
			}
			for s := 0; s < ns; s++ {
				// Segment shapes: the writer chooses between hlineto / vlineto / rlineto and
				// hvcurveto / vhcurveto / rrcurveto by coincidences between coordinates, so
				// every combination of coincidences is generated often (see SegmentShapes).
				if rng.Intn(2) == 0 {
					x, y := coord(rng, o.Fractional), coord(rng, o.Fractional)
					switch rng.Intn(6) {
					case 0:
						y = cy // horizontal
					case 1:
						x = cx // vertical
					case 2:
						x, y = cx, cy // zero length
					}
					g.LineTo(x, y)
					cx, cy = x, y
				} else {
					x1, y1 := coord(rng, o.Fractional), coord(rng, o.Fractional)
					x2, y2 := coord(rng, o.Fractional), coord(rng, o.Fractional)
					x3, y3 := coord(rng, o.Fractional), coord(rng, o.Fractional)
					if rng.Intn(3) == 0 {
						y1 = cy // leaves horizontally
					}
					if rng.Intn(3) == 0 {
						x1 = cx // leaves vertically
					}
					if rng.Intn(3) == 0 {
						x3 = x2 // arrives vertically
					}
					if rng.Intn(3) == 0 {
						y3 = y2 // arrives horizontally
					}
					// near misses of the two short curve forms: the end point is level with the first
					// control point (not with the second one), or exactly above / below it
					switch rng.Intn(8) {
					case 0:
						y3 = y1
					case 1:
						x3 = x1
					case 2:
						x3, y3 = x1, y1
					}
					g.CurveTo(x1, y1, x2, y2, x3, y3)
					cx, cy = x3, y3
				}
			}
			g.ClosePath()
			cxPrev, cyPrev = cx, cy
		}
		if rng.Intn(2) == 0 {
			a := funit.Int16(rng.Intn(300))
			g.HStem = []funit.Int16{a, a + funit.Int16(10+rng.Intn(80))}
		}
		if rng.Intn(3) == 0 {
			a := funit.Int16(rng.Intn(300))
			g.VStem = []funit.Int16{a, a + 40, a + 200, a + 260}
		}
		switch rng.Intn(10) {
		case 0: // ghost stems: the width is negative (Type 1 book, section 6.2: -20 and -21)
			g.HStem = []funit.Int16{21, 0, 700, 680}
			g.VStem = []funit.Int16{520, 500}
		case 1: // a stem wider than 32767 units: the width does not fit into 16 bits
			g.HStem = []funit.Int16{-20000, 20000}
			g.VStem = []funit.Int16{-32768, 32767, 100, 200}
		}
		f.Glyphs[name] = g
	}
	if o.BigFrac {
		// halves and quarters at magnitudes where only small denominators keep the numerator within 32 bits
		g := &type1.Glyph{WidthX: 600}
		g.MoveTo(25000000.5, 0)
		g.LineTo(25000000.5, 1000.25)
		g.LineTo(-30000000.25, 1000.25)
		g.CurveTo(-30000000.25, 500, -20000000.75, 250.5, 100.5, -40000000.5)
		g.LineTo(400000000.5, -7.75)
		g.ClosePath()
		f.Glyphs["bigfrac"] = g
	}
	switch o.Encoding {
	case "none":
	case "std-subset", "holes", "std-plus":
		enc := make([]string, 256)
		for i := range enc {
			enc[i] = ".notdef"
		}
		for _, n := range names {
			if c, ok := stdCode[n]; ok {
				enc[c] = n
			}
		}
		if o.Encoding == "std-plus" {
			// as StandardEncoding at every code it assigns, plus glyphs at codes it leaves unassigned
			extra := []int{1, 31, 127, 160, 176, 255}
			for i, c := range extra {
				if i+1 < len(names) {
					enc[c] = names[1+i%(len(names)-1)]
				}
			}
		}
		if o.Encoding == "holes" {
			// leave the code of an existing standard glyph unassigned
			for _, n := range []string{"A", "a", "space", "exclam"} {
				if _, ok := f.Glyphs[n]; ok && rng.Intn(2) == 0 {
					enc[stdCode[n]] = ".notdef"
				}
			}
			if _, ok := f.Glyphs["A"]; ok {
				enc[65] = ".notdef"
			}
		}
		f.Encoding = enc
	default: // custom
		enc := make([]string, 256)
		for i := range enc {
			enc[i] = ".notdef"
		}
		perm := rng.Perm(256)
		for i, n := range names {
			if i > 0 && i < 200 && rng.Intn(4) != 0 {
				enc[perm[i]] = n
			}
		}
		f.Encoding = enc
	}
	switch o.Zone {
	case "utc":
		f.CreationDate = time.Date(1990+rng.Intn(40), time.Month(1+rng.Intn(12)), 1+rng.Intn(28), rng.Intn(24), rng.Intn(60), rng.Intn(60), 0, time.UTC)
	case "named":
		loc := time.FixedZone("CET", 3600)
		f.CreationDate = time.Date(2001, 2, 3, 4, 5, 6, 0, loc)
	case "unnamed":
		loc := time.FixedZone("", (rng.Intn(25)-12)*3600+1800*rng.Intn(2))
		f.CreationDate = time.Date(2011, 12, 13, 14, 15, 16, 0, loc)
	}
	return f
}

// ---------------------------------------------------------------- projection

// PCmd is one outline command in fixed point (unit 1e-4).
type PCmd struct {
	Op string  `json:"op"`
	A  []int64 `json:"a"`
	I  bool    `json:"i"` // all coordinates integral
}

// PGlyph is the projection of a glyph.
type PGlyph struct {
	Name string `json:"name"`
	Cmds []PCmd `json:"cmds"`
	H    []int  `json:"h"`
	V    []int  `json:"v"`
	Wx   int64  `json:"wx"` // unit 1e-4
	Wy   int64  `json:"wy"`
	I    bool   `json:"i"` // every coordinate of the glyph is integral
}

// PFont is the projection of a font: what Equiv9 / Quant10 compare.
type PFont struct {
	Glyphs  []PGlyph `json:"glyphs"` // sorted by name
	Enc     []string `json:"enc"`    // 256 entries or empty
	Name    []int    `json:"name"`
	Strings [][]int  `json:"strings"` // version, notice, copyright, fullname, familyname, weight
	Nums    []int64  `json:"nums"`    // italic, underline pos, thickness, matrix[6], bluescale, stdhw, stdvw (unit 1e-6)
	Ints    []int    `json:"ints"`    // isFixedPitch, BlueShift, BlueFuzz, ForceBold
	Blues   []int    `json:"blues"`
	Other   []int    `json:"other"`
	Date    []int    `json:"date"` // empty, or UTC year..second
	Finite  bool     `json:"finite"`
}

func fx(x float64, unit float64) int64 { return int64(math.Round(x * unit)) }

func bytesOf(s string) []int {
	out := make([]int, len(s))
	for i := 0; i < len(s); i++ {
		out[i] = int(s[i])
	}
	return out
}

// Project maps a font to its abstract record.
func Project(f *type1.Font) *PFont {
	p := &PFont{Finite: true, Enc: []string{}, Blues: []int{}, Other: []int{}, Date: []int{}}
	chk := func(xs ...float64) {
		for _, x := range xs {
			if math.IsNaN(x) || math.IsInf(x, 0) || math.Abs(x) > 1e5 {
				p.Finite = false
			}
		}
	}
	var names []string
	for n := range f.Glyphs {
		names = append(names, n)
	}
	sort.Strings(names)
	for _, n := range names {
		g := f.Glyphs[n]
		pg := PGlyph{Name: n, Cmds: []PCmd{}, H: []int{}, V: []int{}, Wx: fx(g.WidthX, 1e4), Wy: fx(g.WidthY, 1e4), I: true}
		chk(g.WidthX, g.WidthY)
		for _, c := range g.Cmds {
			pc := PCmd{A: []int64{}, I: true}
			switch c.Op {
			case type1.OpMoveTo:
				pc.Op = "M"
			case type1.OpLineTo:
				pc.Op = "L"
			case type1.OpCurveTo:
				pc.Op = "C"
			default:
				pc.Op = "Z"
			}
			for _, a := range c.Args {
				chk(a)
				pc.A = append(pc.A, fx(a, 1e4))
				if a != math.Trunc(a) {
					pc.I = false
					pg.I = false
				}
			}
			pg.Cmds = append(pg.Cmds, pc)
		}
		for _, h := range g.HStem {
			pg.H = append(pg.H, int(h))
		}
		for _, v := range g.VStem {
			pg.V = append(pg.V, int(v))
		}
		p.Glyphs = append(p.Glyphs, pg)
	}
	if len(f.Encoding) == 256 {
		p.Enc = append([]string{}, f.Encoding...)
	}
	fi := f.FontInfo
	p.Name = bytesOf(fi.FontName)
	for _, s := range []string{fi.Version, fi.Notice, fi.Copyright, fi.FullName, fi.FamilyName, fi.Weight} {
		p.Strings = append(p.Strings, bytesOf(s))
	}
	pr := f.Private
	nums := []float64{fi.ItalicAngle, float64(fi.UnderlinePosition), float64(fi.UnderlineThickness)}
	for _, m := range fi.FontMatrix {
		nums = append(nums, m*1000)
	}
	nums = append(nums, pr.BlueScale, pr.StdHW, pr.StdVW)
	for _, x := range nums {
		if math.IsNaN(x) || math.IsInf(x, 0) || math.Abs(x) > 2000 {
			p.Finite = false
			p.Nums = append(p.Nums, 0)
			continue
		}
		p.Nums = append(p.Nums, fx(x, 1e6))
	}
	b2i := func(b bool) int {
		if b {
			return 1
		}
		return 0
	}
	p.Ints = []int{b2i(fi.IsFixedPitch), int(pr.BlueShift), int(pr.BlueFuzz), b2i(pr.ForceBold)}
	for _, x := range pr.BlueValues {
		p.Blues = append(p.Blues, int(x))
	}
	for _, x := range pr.OtherBlues {
		p.Other = append(p.Other, int(x))
	}
	if !f.CreationDate.IsZero() {
		d := f.CreationDate.UTC()
		p.Date = []int{d.Year(), int(d.Month()), d.Day(), d.Hour(), d.Minute(), d.Second()}
	}
	return p
}

// SegmentShapes classifies every line and curve of the font by the coincidences
// between its coordinates that the charstring writer's choice of command depends
// on: lines "L:h", "L:v", "L:0", "L:r"; curves "C:" + four flags (1 = coincidence)
// for y1=y0, x1=x0, x3=x2, y3=y2.  Used to show that a run exercised every class.
func SegmentShapes(f *type1.Font, into map[string]int) {
	bit := func(b bool) string {
		if b {
			return "1"
		}
		return "0"
	}
	for _, g := range f.Glyphs {
		var cx, cy float64
		for _, cmd := range g.Cmds {
			switch cmd.Op {
			case type1.OpMoveTo:
				cx, cy = cmd.Args[0], cmd.Args[1]
			case type1.OpLineTo:
				x, y := cmd.Args[0], cmd.Args[1]
				switch {
				case x == cx && y == cy:
					into["L:0"]++
				case y == cy:
					into["L:h"]++
				case x == cx:
					into["L:v"]++
				default:
					into["L:r"]++
				}
				cx, cy = x, y
			case type1.OpCurveTo:
				a := cmd.Args
				into["C:"+bit(a[1] == cy)+bit(a[0] == cx)+bit(a[4] == a[2])+bit(a[5] == a[3])]++
				cx, cy = a[4], a[5]
			}
		}
	}
}

// AllShapes lists the classes of SegmentShapes.
func AllShapes() []string {
	out := []string{"L:0", "L:h", "L:v", "L:r"}
	for i := 0; i < 16; i++ {
		out = append(out, fmt.Sprintf("C:%04b", i))
	}
	return out
}
