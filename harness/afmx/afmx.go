// Package afmx is the harness side of the AFM bindings (C15): the JSON form
// of the abstract metrics value of AFMFormat.tla, construction of
// *afm.Metrics from it, projection of *afm.Metrics back, an AFM writer with
// layout choices and an AFM line tokenizer, both independent of the library.
package afmx

import (
	"math"
	"sort"

	"seehuhn.de/go/geom/rect"
	"seehuhn.de/go/postscript/afm"
	"seehuhn.de/go/postscript/funit"

	"vharness/model"
)

// Lig is one ligature entry: the successor glyph and the resulting ligature.
type Lig struct {
	S string `json:"s"`
	L string `json:"l"`
}

// Glyph is one glyph of the abstract metrics value.
type Glyph struct {
	Name string   `json:"name"`
	Code int      `json:"code"`
	WX   int64    `json:"wx"`
	Box  [4]int64 `json:"box"`
	Lig  []Lig    `json:"lig"`
}

// Kern is one kerning pair.
type Kern struct {
	L   string `json:"l"`
	R   string `json:"r"`
	Adj int64  `json:"adj"`
}

// AM is the abstract metrics value (all numbers integral).
type AM struct {
	Txt    map[string]string `json:"txt"`
	Num    map[string]int64  `json:"num"`
	Fixed  bool              `json:"fixed"`
	Glyphs []Glyph           `json:"glyphs"`
	Kern   []Kern            `json:"kern"`
}

// TextKeys and NumKeys are the header keys of the subset, in the order the
// independent writer uses before rotation.
var TextKeys = []string{"FontName", "FullName", "Version", "Notice"}
var NumKeys = []string{"CapHeight", "XHeight", "Ascender", "Descender", "UnderlinePosition", "UnderlineThickness", "ItalicAngle"}

// numField gives access to the header numbers of *afm.Metrics by AFM key.
func numField(m *afm.Metrics, key string) *float64 {
	switch key {
	case "CapHeight":
		return &m.CapHeight
	case "XHeight":
		return &m.XHeight
	case "Ascender":
		return &m.Ascent
	case "Descender":
		return &m.Descent
	case "UnderlinePosition":
		return &m.UnderlinePosition
	case "UnderlineThickness":
		return &m.UnderlineThickness
	case "ItalicAngle":
		return &m.ItalicAngle
	}
	panic("unknown header number " + key)
}

func textField(m *afm.Metrics, key string) *string {
	switch key {
	case "FontName":
		return &m.FontName
	case "FullName":
		return &m.FullName
	case "Version":
		return &m.Version
	case "Notice":
		return &m.Notice
	}
	panic("unknown header text " + key)
}

// Build constructs the library value described by the abstract metrics.
func Build(a *AM) *afm.Metrics {
	m := &afm.Metrics{Glyphs: map[string]*afm.GlyphInfo{}}
	m.Encoding = make([]string, 256)
	for i := range m.Encoding {
		m.Encoding[i] = ".notdef"
	}
	for _, k := range TextKeys {
		*textField(m, k) = a.Txt[k]
	}
	for _, k := range NumKeys {
		*numField(m, k) = float64(a.Num[k])
	}
	m.IsFixedPitch = a.Fixed
	for _, g := range a.Glyphs {
		gi := &afm.GlyphInfo{
			WidthX: float64(g.WX),
			BBox:   rect.Rect{LLx: float64(g.Box[0]), LLy: float64(g.Box[1]), URx: float64(g.Box[2]), URy: float64(g.Box[3])},
		}
		if len(g.Lig) > 0 {
			gi.Ligatures = map[string]string{}
			for _, l := range g.Lig {
				gi.Ligatures[l.S] = l.L
			}
		}
		m.Glyphs[g.Name] = gi
		if g.Code >= 0 && g.Code < 256 {
			m.Encoding[g.Code] = g.Name
		}
	}
	for _, k := range a.Kern {
		m.Kern = append(m.Kern, &afm.KernPair{Left: k.L, Right: k.R, Adjust: funit.Int16(k.Adj)})
	}
	return m
}

// XNum is a float64 value, exactly: finite dyadic, NaN or an infinity
// (AFMCycle.tla).  Negative zero is zero.
type XNum struct {
	K string       `json:"k"`
	D model.Dyadic `json:"d"`
}

// X converts a float64.
func X(f float64) XNum {
	zero := model.Dyadic{N: model.FromInt64(0), E: 0}
	switch {
	case math.IsNaN(f):
		return XNum{K: "nan", D: zero}
	case math.IsInf(f, 1):
		return XNum{K: "pinf", D: zero}
	case math.IsInf(f, -1):
		return XNum{K: "ninf", D: zero}
	}
	d, _ := model.DyadicFromFloat(f)
	return XNum{K: "fin", D: d}
}

// XGlyph, XEnc and XAM are the projection of a library value for AFMCycle.tla:
// canonical order (glyphs by name, ligatures by successor).
type XGlyph struct {
	Name string  `json:"name"`
	Code int     `json:"code"`
	WX   XNum    `json:"wx"`
	Box  [4]XNum `json:"box"`
	Lig  []Lig   `json:"lig"`
}

type XEnc struct {
	C int    `json:"c"`
	N string `json:"n"`
}

type XAM struct {
	Txt    map[string]string `json:"txt"`
	Num    map[string]XNum   `json:"num"`
	Fixed  bool              `json:"fixed"`
	Glyphs []XGlyph          `json:"glyphs"`
	Enc    []XEnc            `json:"enc"`
	Kern   []Kern            `json:"kern"`
}

// Project maps a library value to the abstract state.
func Project(m *afm.Metrics) *XAM {
	x := &XAM{Txt: map[string]string{}, Num: map[string]XNum{}, Fixed: m.IsFixedPitch,
		Glyphs: []XGlyph{}, Enc: []XEnc{}, Kern: []Kern{}}
	for _, k := range TextKeys {
		x.Txt[k] = *textField(m, k)
	}
	for _, k := range NumKeys {
		x.Num[k] = X(*numField(m, k))
	}
	names := make([]string, 0, len(m.Glyphs))
	for n := range m.Glyphs {
		names = append(names, n)
	}
	sort.Strings(names)
	for _, n := range names {
		g := m.Glyphs[n]
		xg := XGlyph{Name: n, Code: -1, Lig: []Lig{}}
		if g != nil {
			xg.WX = X(g.WidthX)
			xg.Box = [4]XNum{X(g.BBox.LLx), X(g.BBox.LLy), X(g.BBox.URx), X(g.BBox.URy)}
			for s, l := range g.Ligatures {
				xg.Lig = append(xg.Lig, Lig{S: s, L: l})
			}
			sort.Slice(xg.Lig, func(i, j int) bool { return xg.Lig[i].S < xg.Lig[j].S })
		} else {
			xg.WX = X(0)
			xg.Box = [4]XNum{X(0), X(0), X(0), X(0)}
			xg.Name = n + " (nil)"
		}
		if n != ".notdef" {
			for i, e := range m.Encoding {
				if e == n {
					xg.Code = i
					break
				}
			}
		}
		x.Glyphs = append(x.Glyphs, xg)
	}
	for i, e := range m.Encoding {
		if e != ".notdef" {
			x.Enc = append(x.Enc, XEnc{C: i, N: e})
		}
	}
	for _, k := range m.Kern {
		if k == nil {
			x.Kern = append(x.Kern, Kern{L: "(nil)"})
			continue
		}
		x.Kern = append(x.Kern, Kern{L: k.Left, R: k.Right, Adj: int64(k.Adjust)})
	}
	return x
}
