package afmx

import (
	"fmt"
	"sort"

	"seehuhn.de/go/postscript/afm"
)

// ClassDiff is one class of fields in which a library value differs from the
// model, with one example.
type ClassDiff struct {
	Class    string
	Expected string
	Observed string
}

// Compare reports the classes of fields (those of AFMFormat!AfmDiff) in which
// the library value differs from the abstract metrics.  Only JSON-level
// comparison happens here: integers against float64 values, strings, maps.
func Compare(a *AM, m *afm.Metrics) []ClassDiff {
	var out []ClassDiff
	seen := map[string]bool{}
	add := func(class, exp, obs string) {
		if !seen[class] {
			seen[class] = true
			out = append(out, ClassDiff{class, exp, obs})
		}
	}
	if m == nil {
		add("glyph set", "metrics", "nil")
		return out
	}
	for _, k := range TextKeys {
		if got := *textField(m, k); got != a.Txt[k] {
			add(k, fmt.Sprintf("%s = %q", k, a.Txt[k]), fmt.Sprintf("%q", got))
		}
	}
	for _, k := range NumKeys {
		if got := *numField(m, k); got != float64(a.Num[k]) {
			add(k, fmt.Sprintf("%s = %d", k, a.Num[k]), fmt.Sprint(got))
		}
	}
	if m.IsFixedPitch != a.Fixed {
		add("IsFixedPitch", fmt.Sprint(a.Fixed), fmt.Sprint(m.IsFixedPitch))
	}
	// glyph set
	want := map[string]bool{}
	for _, g := range a.Glyphs {
		want[g.Name] = true
	}
	var wn, gn []string
	for n := range want {
		wn = append(wn, n)
	}
	for n := range m.Glyphs {
		gn = append(gn, n)
	}
	sort.Strings(wn)
	sort.Strings(gn)
	if fmt.Sprint(wn) != fmt.Sprint(gn) {
		add("glyph set", fmt.Sprint(wn), fmt.Sprint(gn))
	}
	// encoding vector as a whole, and per glyph
	enc := make([]string, 256)
	for i := range enc {
		enc[i] = ".notdef"
	}
	for _, g := range a.Glyphs {
		if g.Code >= 0 && g.Name != ".notdef" {
			enc[g.Code] = g.Name
		}
	}
	for i := 0; i < 256 || i < len(m.Encoding); i++ {
		w, g := ".notdef", ".notdef"
		if i < 256 {
			w = enc[i]
		}
		if i < len(m.Encoding) {
			g = m.Encoding[i]
		}
		if w != g {
			add("code", fmt.Sprintf("Encoding[%d] = %s", i, w), g)
		}
	}
	for _, g := range a.Glyphs {
		gi := m.Glyphs[g.Name]
		if gi == nil {
			continue
		}
		if gi.WidthX != float64(g.WX) {
			add("width", fmt.Sprintf("%s: WX %d", g.Name, g.WX), fmt.Sprint(gi.WidthX))
		}
		b := gi.BBox
		if b.LLx != float64(g.Box[0]) || b.LLy != float64(g.Box[1]) || b.URx != float64(g.Box[2]) || b.URy != float64(g.Box[3]) {
			add("bbox", fmt.Sprintf("%s: %v", g.Name, g.Box), fmt.Sprintf("%v", b))
		}
		ok := len(gi.Ligatures) == len(g.Lig)
		for _, l := range g.Lig {
			if got, has := gi.Ligatures[l.S]; !has || got != l.L {
				ok = false
			}
		}
		if !ok {
			add("ligatures", fmt.Sprintf("%s: %v", g.Name, g.Lig), fmt.Sprint(gi.Ligatures))
		}
	}
	// kerning pairs in order
	ks := func(l, r string, adj int64) string { return fmt.Sprintf("%s %s %d", l, r, adj) }
	var wk, gk []string
	for _, k := range a.Kern {
		wk = append(wk, ks(k.L, k.R, k.Adj))
	}
	for _, k := range m.Kern {
		if k == nil {
			gk = append(gk, "nil")
		} else {
			gk = append(gk, ks(k.Left, k.Right, int64(k.Adjust)))
		}
	}
	if fmt.Sprint(wk) != fmt.Sprint(gk) {
		add("kerning", fmt.Sprint(wk), fmt.Sprint(gk))
	}
	return out
}

// HasKey reports whether some line of the text starts with the key.
func HasKey(text []byte, key string) bool {
	for _, ev := range Tokenize(text) {
		if len(ev.Toks) > 0 && ev.Toks[0] == key {
			return true
		}
	}
	return false
}
