package indep

import (
	"bytes"
	"fmt"
	"strconv"
)

// PTok is a token of a font program as seen by the independent tokenizer.
type PTok struct {
	K   string // int | real | name | xname | str | raw | lbrace | rbrace
	S   string // name text / number text
	I   int64
	F   float64
	Raw []byte // str or raw payload
}

func isWS(c byte) bool    { return c == 0 || c == 9 || c == 10 || c == 12 || c == 13 || c == 32 }
func isDelim(c byte) bool { return bytes.IndexByte([]byte("()<>[]{}/%"), c) >= 0 }

// Tokenize splits a font program into tokens (PLRM 3.2), treating the binary
// payload after "n RD" / "n -|" as raw data, as the Type 1 book prescribes.
func Tokenize(b []byte) ([]PTok, error) {
	var out []PTok
	i := 0
	for i < len(b) {
		c := b[i]
		switch {
		case isWS(c):
			i++
		case c == '%':
			// a comment ends at the next newline or form feed (PLRM 3.2.2)
			for i < len(b) && b[i] != '\n' && b[i] != '\r' && b[i] != '\f' {
				i++
			}
		case c == '(':
			depth, j := 1, i+1
			var s []byte
			for ; j < len(b) && depth > 0; j++ {
				switch b[j] {
				case '(':
					depth++
					s = append(s, '(')
				case ')':
					depth--
					if depth > 0 {
						s = append(s, ')')
					}
				case '\\':
					j++
					if j >= len(b) {
						return nil, fmt.Errorf("string ends in backslash")
					}
					switch e := b[j]; {
					case e == 'n':
						s = append(s, '\n')
					case e == 'r':
						s = append(s, '\r')
					case e == 't':
						s = append(s, '\t')
					case e == 'b':
						s = append(s, '\b')
					case e == 'f':
						s = append(s, '\f')
					case e == '\n':
					case e == '\r':
						if j+1 < len(b) && b[j+1] == '\n' {
							j++
						}
					case e >= '0' && e <= '7':
						v := int(e - '0')
						for k := 0; k < 2 && j+1 < len(b) && b[j+1] >= '0' && b[j+1] <= '7'; k++ {
							j++
							v = v*8 + int(b[j]-'0')
						}
						s = append(s, byte(v))
					default:
						s = append(s, e)
					}
				case '\r':
					s = append(s, '\n')
					if j+1 < len(b) && b[j+1] == '\n' {
						j++
					}
				default:
					s = append(s, b[j])
				}
			}
			if depth != 0 {
				return nil, fmt.Errorf("unterminated string")
			}
			out = append(out, PTok{K: "str", Raw: s})
			i = j
		case c == '<' && i+1 < len(b) && b[i+1] == '<':
			out = append(out, PTok{K: "xname", S: "<<"})
			i += 2
		case c == '>' && i+1 < len(b) && b[i+1] == '>':
			out = append(out, PTok{K: "xname", S: ">>"})
			i += 2
		case c == '<':
			j := i + 1
			var s []byte
			hi := -1
			for ; j < len(b) && b[j] != '>'; j++ {
				if isWS(b[j]) {
					continue
				}
				v, err := strconv.ParseUint(string(b[j:j+1]), 16, 8)
				if err != nil {
					return nil, fmt.Errorf("bad hex string")
				}
				if hi < 0 {
					hi = int(v)
				} else {
					s = append(s, byte(hi<<4|int(v)))
					hi = -1
				}
			}
			if hi >= 0 {
				s = append(s, byte(hi<<4))
			}
			out = append(out, PTok{K: "str", Raw: s})
			i = j + 1
		case c == '{':
			out = append(out, PTok{K: "lbrace"})
			i++
		case c == '}':
			out = append(out, PTok{K: "rbrace"})
			i++
		case c == '[' || c == ']':
			out = append(out, PTok{K: "xname", S: string(c)})
			i++
		case c == '/':
			j := i + 1
			for j < len(b) && !isWS(b[j]) && !isDelim(b[j]) {
				j++
			}
			out = append(out, PTok{K: "name", S: string(b[i+1 : j])})
			i = j
		case c == ')' || c == '>':
			return nil, fmt.Errorf("unexpected %q", c)
		default:
			j := i
			for j < len(b) && !isWS(b[j]) && !isDelim(b[j]) {
				j++
			}
			w := string(b[i:j])
			i = j
			if v, err := strconv.ParseInt(w, 10, 64); err == nil {
				out = append(out, PTok{K: "int", S: w, I: v})
			} else if f, err := strconv.ParseFloat(w, 64); err == nil && isDecimal(w) {
				out = append(out, PTok{K: "real", S: w, F: f})
			} else {
				out = append(out, PTok{K: "xname", S: w})
				if (w == "RD" || w == "-|") && len(out) >= 2 && out[len(out)-2].K == "int" {
					n := int(out[len(out)-2].I)
					// one separator byte, then n bytes of binary data
					if i+1+n > len(b) {
						return nil, fmt.Errorf("binary data of %d bytes runs past the end", n)
					}
					out = append(out, PTok{K: "raw", Raw: append([]byte{}, b[i+1:i+1+n]...)})
					i += 1 + n
				}
			}
		}
	}
	return out, nil
}

func isDecimal(w string) bool {
	for _, c := range []byte(w) {
		if !(c >= '0' && c <= '9' || c == '+' || c == '-' || c == '.' || c == 'e' || c == 'E') {
			return false
		}
	}
	return true
}

// Seg is one PFB segment header as found in the file.
type Seg struct {
	Type     int `json:"type"`
	Declared int `json:"declared"`
	Payload  int `json:"payload"` // bytes actually present before the next header / end
}

// Apart is a written font file taken apart.
type Apart struct {
	Segs      []Seg
	EndMarker bool
	AfterEnd  int // bytes after the end marker
	Clear     []byte
	Cipher    []byte // binary cipher text (de-armoured for hex forms) of the encrypted portion
	CipherLen int    // number of bytes the encrypted portion occupies in the file
	Trailer   []byte
	Hex       bool
	Lead      []byte // first four bytes of the encrypted portion as they stand in the file
	Plain     []byte // decrypted portion without the four lead bytes
	Tokens    []PTok
	LenIV     int
	Order     []string
	Glyphs    map[string][]byte // plain charstrings, lenIV lead bytes removed
	Subrs     [][]byte
	Encrypted bool
}

var eexecMark = []byte("currentfile eexec")

// TakeApart dissects a Type 1 font file without using the library.
func TakeApart(data []byte) (*Apart, error) {
	a := &Apart{Glyphs: map[string][]byte{}, LenIV: 4}
	body := data
	if len(data) > 0 && data[0] == 0x80 {
		// PFB framing
		var text, bin []byte
		i := 0
		stage := 0
		for i < len(data) {
			if i+2 > len(data) || data[i] != 0x80 {
				return nil, fmt.Errorf("bad PFB marker at %d", i)
			}
			tp := int(data[i+1])
			if tp == 3 {
				a.EndMarker = true
				a.AfterEnd = len(data) - i - 2
				a.Segs = append(a.Segs, Seg{Type: 3})
				break
			}
			if i+6 > len(data) {
				return nil, fmt.Errorf("truncated PFB header")
			}
			n := int(data[i+2]) | int(data[i+3])<<8 | int(data[i+4])<<16 | int(data[i+5])<<24
			avail := len(data) - i - 6
			seg := Seg{Type: tp, Declared: n, Payload: min(n, avail)}
			a.Segs = append(a.Segs, seg)
			if n > avail {
				return nil, fmt.Errorf("PFB segment declares %d bytes, %d present", n, avail)
			}
			payload := data[i+6 : i+6+n]
			switch {
			case tp == 1 && stage == 0:
				text = append(text, payload...)
			case tp == 2:
				stage = 1
				bin = append(bin, payload...)
			case tp == 1:
				stage = 2
				a.Trailer = append(a.Trailer, payload...)
			default:
				return nil, fmt.Errorf("unknown PFB segment type %d", tp)
			}
			i += 6 + n
		}
		a.Clear = text
		a.Cipher = bin
		a.CipherLen = len(bin)
		a.Encrypted = true
		if len(bin) < 4 {
			return nil, fmt.Errorf("binary segment too short")
		}
		a.Lead = bin[:4]
		a.Plain = Decrypt(R0Eexec, bin)[4:]
	} else {
		k := bytes.Index(body, eexecMark)
		if k < 0 {
			// no eexec: the whole file is clear text
			a.Clear = body
			a.Plain = nil
		} else {
			a.Encrypted = true
			p := k + len(eexecMark)
			for p < len(body) && (body[p] == ' ' || body[p] == '\t' || body[p] == '\r' || body[p] == '\n') {
				p++
			}
			a.Clear = body[:p]
			rest := body[p:]
			if len(rest) < 4 {
				return nil, fmt.Errorf("encrypted portion too short")
			}
			a.Lead = rest[:4]
			a.Hex = true
			for _, c := range rest[:4] {
				if !(c >= '0' && c <= '9' || c >= 'a' && c <= 'f' || c >= 'A' && c <= 'F') {
					a.Hex = false
				}
			}
			// decrypt until the plaintext has said "closefile" and one more byte
			c := Cipher{R: R0Eexec}
			var plain []byte
			pos := 0
			done := -1
			nextByte := func() (byte, bool) {
				if !a.Hex {
					if pos >= len(rest) {
						return 0, false
					}
					pos++
					return rest[pos-1], true
				}
				v, n := 0, 0
				for n < 2 {
					if pos >= len(rest) {
						return 0, false
					}
					ch := rest[pos]
					pos++
					if ch <= 32 {
						continue
					}
					d, err := strconv.ParseUint(string(ch), 16, 8)
					if err != nil {
						return 0, false
					}
					v = v<<4 | int(d)
					n++
				}
				return byte(v), true
			}
			for {
				x, ok := nextByte()
				if !ok {
					break
				}
				a.Cipher = append(a.Cipher, x)
				plain = append(plain, c.Dec(x))
				if done < 0 && bytes.HasSuffix(plain, []byte("closefile")) {
					done = len(plain)
				} else if done >= 0 && len(plain) == done+1 {
					break
				}
			}
			a.CipherLen = pos
			a.Trailer = rest[pos:]
			if len(plain) < 4 {
				return nil, fmt.Errorf("encrypted portion too short")
			}
			a.Plain = plain[4:]
		}
	}
	prog := append(append(append([]byte{}, a.Clear...), '\n'), a.Plain...)
	prog = append(append(prog, '\n'), a.Trailer...)
	toks, err := Tokenize(prog)
	if err != nil {
		return nil, err
	}
	a.Tokens = toks
	// lenIV
	for i := 0; i+2 < len(toks); i++ {
		if toks[i].K == "name" && toks[i].S == "lenIV" && toks[i+1].K == "int" {
			a.LenIV = int(toks[i+1].I)
		}
	}
	strip := func(cs []byte) ([]byte, error) {
		if a.LenIV < 0 {
			return cs, nil
		}
		if len(cs) < a.LenIV {
			return nil, fmt.Errorf("charstring shorter than lenIV")
		}
		return Decrypt(R0Charstring, cs)[a.LenIV:], nil
	}
	inCS := false
	for i := 0; i < len(toks); i++ {
		t := toks[i]
		if t.K == "name" && t.S == "CharStrings" {
			inCS = true
			continue
		}
		if t.K != "raw" {
			continue
		}
		// pattern: ... <name|index> <len> RD <raw>
		if i < 3 {
			return nil, fmt.Errorf("binary data without a header")
		}
		if int(toks[i-2].I) != len(t.Raw) {
			return nil, fmt.Errorf("declared length %d, payload %d", toks[i-2].I, len(t.Raw))
		}
		plain, err := strip(t.Raw)
		if err != nil {
			return nil, err
		}
		if inCS {
			if toks[i-3].K != "name" {
				return nil, fmt.Errorf("charstring without a glyph name")
			}
			a.Order = append(a.Order, toks[i-3].S)
			a.Glyphs[toks[i-3].S] = plain
		} else {
			a.Subrs = append(a.Subrs, plain)
		}
	}
	return a, nil
}

// CSItem is one decoded element of a plain charstring.
type CSItem struct {
	Num   bool
	V     int64
	Bytes []byte // the bytes of the number as written
	Cmd   string
}

var cmdName = func() map[string]string {
	m := map[string]string{}
	for n, b := range opcodes {
		m[string(b)] = n
	}
	return m
}()

// DecodeCharstring splits a plain charstring into numbers and commands.
func DecodeCharstring(cs []byte) ([]CSItem, error) {
	var out []CSItem
	for i := 0; i < len(cs); {
		v := cs[i]
		switch {
		case v >= 32 && v <= 246:
			out = append(out, CSItem{Num: true, V: int64(v) - 139, Bytes: cs[i : i+1]})
			i++
		case v >= 247 && v <= 250:
			if i+1 >= len(cs) {
				return nil, fmt.Errorf("truncated number")
			}
			out = append(out, CSItem{Num: true, V: (int64(v)-247)*256 + int64(cs[i+1]) + 108, Bytes: cs[i : i+2]})
			i += 2
		case v >= 251 && v <= 254:
			if i+1 >= len(cs) {
				return nil, fmt.Errorf("truncated number")
			}
			out = append(out, CSItem{Num: true, V: -(int64(v)-251)*256 - int64(cs[i+1]) - 108, Bytes: cs[i : i+2]})
			i += 2
		case v == 255:
			if i+4 >= len(cs) {
				return nil, fmt.Errorf("truncated number")
			}
			u := uint32(cs[i+1])<<24 | uint32(cs[i+2])<<16 | uint32(cs[i+3])<<8 | uint32(cs[i+4])
			out = append(out, CSItem{Num: true, V: int64(int32(u)), Bytes: cs[i : i+5]})
			i += 5
		case v == 12:
			if i+1 >= len(cs) {
				return nil, fmt.Errorf("truncated escape")
			}
			n, ok := cmdName[string(cs[i:i+2])]
			if !ok {
				return nil, fmt.Errorf("unknown command 12 %d", cs[i+1])
			}
			out = append(out, CSItem{Cmd: n})
			i += 2
		default:
			n, ok := cmdName[string(cs[i:i+1])]
			if !ok {
				return nil, fmt.Errorf("unknown command %d", v)
			}
			out = append(out, CSItem{Cmd: n})
			i++
		}
	}
	return out, nil
}
