// Package indep holds format code that is independent of the library under
// test: the Type 1 ciphers, hex armouring, PFB framing.  It is written from
// the Adobe Type 1 Font Format book and cross-checked against Eexec.tla.
package indep

const (
	c1 = 52845
	c2 = 22719
	// R0Eexec is the initial key of eexec sections.
	R0Eexec = 55665
	// R0Charstring is the initial key of charstrings.
	R0Charstring = 4330
)

// Cipher is the running state of the Type 1 stream cipher.
type Cipher struct{ R uint16 }

// Enc encrypts one plaintext byte.
func (c *Cipher) Enc(p byte) byte {
	x := p ^ byte(c.R>>8)
	c.R = (uint16(x)+c.R)*c1 + c2
	return x
}

// Dec decrypts one cipher byte.
func (c *Cipher) Dec(x byte) byte {
	p := x ^ byte(c.R>>8)
	c.R = (uint16(x)+c.R)*c1 + c2
	return p
}

// Encrypt encrypts plain with initial key r0.
func Encrypt(r0 uint16, plain []byte) []byte {
	c := Cipher{r0}
	out := make([]byte, len(plain))
	for i, p := range plain {
		out[i] = c.Enc(p)
	}
	return out
}

// Decrypt decrypts cipher with initial key r0.
func Decrypt(r0 uint16, cipher []byte) []byte {
	c := Cipher{r0}
	out := make([]byte, len(cipher))
	for i, x := range cipher {
		out[i] = c.Dec(x)
	}
	return out
}
