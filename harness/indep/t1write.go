package indep

import (
	"bytes"
	"fmt"
	"strings"
)

// Tok is one charstring token of the model: a number or a command.
type Tok struct {
	T string `json:"t"`
	V int64  `json:"v"`
	C string `json:"c"`
}

var opcodes = map[string][]byte{
	"hstem": {1}, "vstem": {3}, "vmoveto": {4}, "rlineto": {5}, "hlineto": {6}, "vlineto": {7},
	"rrcurveto": {8}, "closepath": {9}, "callsubr": {10}, "return": {11}, "hsbw": {13}, "endchar": {14},
	"rmoveto": {21}, "hmoveto": {22}, "vhcurveto": {30}, "hvcurveto": {31},
	"dotsection": {12, 0}, "vstem3": {12, 1}, "hstem3": {12, 2}, "seac": {12, 6}, "sbw": {12, 7},
	"div": {12, 12}, "callothersubr": {12, 16}, "pop": {12, 17}, "setcurrentpoint": {12, 33},
}

// Opcode returns the byte encoding of a command.
func Opcode(name string) ([]byte, bool) { b, ok := opcodes[name]; return b, ok }

// EncodeNum is the charstring number encoding of the Type 1 book, section
// 6.2; long selects the five-byte form for every value.
func EncodeNum(x int64, long bool) []byte {
	switch {
	case long:
	case x >= -107 && x <= 107:
		return []byte{byte(x + 139)}
	case x >= 108 && x <= 1131:
		y := x - 108
		return []byte{byte(y/256 + 247), byte(y % 256)}
	case x >= -1131 && x <= -108:
		y := -x - 108
		return []byte{byte(y/256 + 251), byte(y % 256)}
	}
	u := uint32(int32(x))
	return []byte{255, byte(u >> 24), byte(u >> 16), byte(u >> 8), byte(u)}
}

// EncodeCharstring turns tokens into plain charstring bytes.
func EncodeCharstring(toks []Tok, long bool) ([]byte, error) {
	var out []byte
	for _, t := range toks {
		if t.T == "n" {
			out = append(out, EncodeNum(t.V, long)...)
			continue
		}
		op, ok := opcodes[t.C]
		if !ok {
			return nil, fmt.Errorf("unknown command %q", t.C)
		}
		out = append(out, op...)
	}
	return out, nil
}

// ObfuscateCharstring prepends lenIV lead bytes and encrypts with key 4330.
func ObfuscateCharstring(plain []byte, lenIV int) []byte {
	if lenIV < 0 {
		return plain // lenIV -1: charstrings are not encrypted
	}
	buf := make([]byte, 0, lenIV+len(plain))
	for i := 0; i < lenIV; i++ {
		buf = append(buf, byte(17*i+3))
	}
	buf = append(buf, plain...)
	return Encrypt(R0Charstring, buf)
}

// Layout selects one conforming serialisation.
type Layout struct {
	Cont    string `json:"cont"`    // pfa | bin | pfb | clear
	LenIV   int    `json:"leniv"`   // >= 0
	Names   string `json:"names"`   // RD | bar   (RD/ND/NP or -| |- |)
	LongNum bool   `json:"longnum"` // numbers in the five-byte form
	Enc     string `json:"enc"`     // std | custom | customseac | none
	Lead    int    `json:"lead"`    // binary container: which legal first cipher byte to use (see leadBytes)
	Eol     string `json:"eol"`     // line ends of the text: lf (default) | cr | crlf
	Fill    int    `json:"fill"`    // used by the replayer: so many copies of the last glyph under further names
}

// leadBytes are legal first bytes of a binary eexec section: the Type 1 book only
// forbids blank, tab, carriage return and line feed there (and asks for one
// non-hexadecimal byte among the first four).
var leadBytes = []byte{0, 0x01, '%', 0x0c, 0x00, 0x1f, 0x80, 'X', '(', '<', '/'}

// FontSpec is what the independent writer serialises.
type FontSpec struct {
	FontName string
	Glyphs   []string // names in file order
	Toks     map[string][]Tok
	RawCS    map[string][]byte // already encoded plain charstrings (overrides Toks)
	Subrs    [][]Tok
	Encoding map[int]string // explicit entries for custom encodings
	Info     []string       // lines inside FontInfo, e.g. "/version (001.000) readonly def"
	Private  []string       // extra lines inside Private, e.g. "/BlueValues [ -10 0 ] def"
	Header   []string       // comment lines after the %! line
	Matrix   string         // the six numbers of /FontMatrix ("" = 0.001 0 0 0.001 0 0)
	LenIVRaw *int64         // written verbatim as /lenIV (hostile values), cipher uses Layout.LenIV
}

// WriteFont writes a Type 1 font program in the chosen layout.  It follows
// the structure of fonts produced by Adobe tools (Type 1 book, chapter 2 and
// appendix), not the library's template.
func WriteFont(f *FontSpec, lay Layout) ([]byte, error) {
	var clear, priv, trailer bytes.Buffer
	// the line ends of the text portions; the byte after "eexec" stays a single line feed in front of
	// binary data (the Type 1 book asks for exactly one white-space character there)
	nl := "\n"
	switch lay.Eol {
	case "cr":
		nl = "\r"
	case "crlf":
		nl = "\r\n"
	}
	matrix := f.Matrix
	if matrix == "" {
		matrix = "0.001 0 0 0.001 0 0"
	}
	rd, nd, np := "RD", "ND", "NP"
	if lay.Names == "bar" {
		rd, nd, np = "-|", "|-", "|"
	}
	fmt.Fprintf(&clear, "%%!PS-AdobeFont-1.0: %s 001.001%s", f.FontName, nl)
	for _, h := range f.Header {
		clear.WriteString(h + nl)
	}
	clear.WriteString("11 dict begin" + nl + "/FontInfo 10 dict dup begin" + nl)
	for _, l := range f.Info {
		clear.WriteString(l + nl)
	}
	clear.WriteString("end readonly def" + nl)
	fmt.Fprintf(&clear, "/FontName /%s def%s", f.FontName, nl)
	switch lay.Enc {
	case "std":
		clear.WriteString("/Encoding StandardEncoding def" + nl)
	case "none":
	default:
		clear.WriteString("/Encoding 256 array" + nl + "0 1 255 {1 index exch /.notdef put} for" + nl)
		for c := 0; c < 256; c++ {
			if n, ok := f.Encoding[c]; ok {
				fmt.Fprintf(&clear, "dup %d /%s put%s", c, n, nl)
			}
		}
		clear.WriteString("readonly def" + nl)
	}
	clear.WriteString("/PaintType 0 def" + nl + "/FontType 1 def" + nl + "/FontMatrix [" + matrix + "] readonly def" + nl + "/FontBBox {0 0 0 0} readonly def" + nl + "currentdict end" + nl)
	if lay.Cont != "clear" {
		if lay.Cont == "pfa" {
			clear.WriteString("currentfile eexec" + nl)
		} else {
			clear.WriteString("currentfile eexec\n")
		}
	}

	priv.WriteString("dup /Private 17 dict dup begin" + nl)
	fmt.Fprintf(&priv, "/%s {string currentfile exch readstring pop} executeonly def%s", rd, nl)
	fmt.Fprintf(&priv, "/%s {noaccess def} executeonly def%s", nd, nl)
	fmt.Fprintf(&priv, "/%s {noaccess put} executeonly def%s", np, nl)
	for _, l := range f.Private {
		priv.WriteString(l + nl)
	}
	priv.WriteString("/MinFeature {16 16} def" + nl + "/password 5839 def" + nl)
	if f.LenIVRaw != nil {
		fmt.Fprintf(&priv, "/lenIV %d def%s", *f.LenIVRaw, nl)
	} else if lay.LenIV != 4 {
		fmt.Fprintf(&priv, "/lenIV %d def%s", lay.LenIV, nl)
	}
	fmt.Fprintf(&priv, "/Subrs %d array%s", len(f.Subrs), nl)
	for i, s := range f.Subrs {
		if s == nil {
			continue // an unassigned slot of the array (as a subsetter leaves behind)
		}
		plain, err := EncodeCharstring(s, lay.LongNum)
		if err != nil {
			return nil, err
		}
		cs := ObfuscateCharstring(plain, lay.LenIV)
		fmt.Fprintf(&priv, "dup %d %d %s ", i, len(cs), rd)
		priv.Write(cs)
		fmt.Fprintf(&priv, " %s%s", np, nl)
	}
	fmt.Fprintf(&priv, "%s%s", nd, nl)
	fmt.Fprintf(&priv, "2 index /CharStrings %d dict dup begin%s", len(f.Glyphs), nl)
	for _, name := range f.Glyphs {
		var plain []byte
		if raw, ok := f.RawCS[name]; ok {
			plain = raw
		} else {
			var err error
			plain, err = EncodeCharstring(f.Toks[name], lay.LongNum)
			if err != nil {
				return nil, err
			}
		}
		cs := ObfuscateCharstring(plain, lay.LenIV)
		fmt.Fprintf(&priv, "/%s %d %s ", name, len(cs), rd)
		priv.Write(cs)
		fmt.Fprintf(&priv, " %s%s", nd, nl)
	}
	priv.WriteString("end" + nl + "end" + nl + "readonly put" + nl + "noaccess put" + nl + "dup /FontName get exch definefont pop" + nl)
	if lay.Cont != "clear" {
		priv.WriteString("mark currentfile closefile" + nl)
		for i := 0; i < 8; i++ {
			trailer.WriteString(strings.Repeat("0", 64) + nl)
		}
		trailer.WriteString("cleartomark" + nl)
	}

	switch lay.Cont {
	case "clear":
		return append(clear.Bytes(), priv.Bytes()...), nil
	case "pfa", "bin", "pfb":
		// four random-looking plaintext lead bytes whose cipher text starts with a
		// non-blank byte and is not all hexadecimal
		lead := []byte{0x7c, 0x11, 0x93, 0x2e}
		if k := lay.Lead % len(leadBytes); lay.Cont == "bin" && k > 0 {
			lead[0] = leadBytes[k] ^ byte(R0Eexec>>8) // the first cipher byte becomes leadBytes[k]
		}
		cipher := Encrypt(R0Eexec, append(lead, priv.Bytes()...))
		switch lay.Cont {
		case "pfa":
			out := clear.Bytes()
			const hexd = "0123456789abcdef"
			for i, c := range cipher {
				out = append(out, hexd[c>>4], hexd[c&15])
				if i%32 == 31 {
					out = append(out, nl...)
				}
			}
			out = append(out, nl...)
			return append(out, trailer.Bytes()...), nil
		case "bin":
			out := append(clear.Bytes(), cipher...)
			out = append(out, nl...)
			return append(out, trailer.Bytes()...), nil
		default:
			return PFBWrap(clear.Bytes(), cipher, trailer.Bytes()), nil
		}
	}
	return nil, fmt.Errorf("unknown container %q", lay.Cont)
}

// PFBWrap frames the three portions as PFB segments (text, binary, text, end).
func PFBWrap(clear, cipher, trailer []byte) []byte {
	var out []byte
	seg := func(tp byte, data []byte) {
		n := len(data)
		out = append(out, 0x80, tp, byte(n), byte(n>>8), byte(n>>16), byte(n>>24))
		out = append(out, data...)
	}
	seg(1, clear)
	seg(2, cipher)
	seg(1, trailer)
	return append(out, 0x80, 3)
}
