package psbind

import (
	"bytes"
	"fmt"

	ps "seehuhn.de/go/postscript"

	"vharness/model"
)

func toBytes(x []int) []byte {
	b := make([]byte, len(x))
	for i, v := range x {
		b[i] = byte(v)
	}
	return b
}

// contentEqual compares a model value with a library object by content only
// (no identity), resolving views through the model heap.
func (c *cmp) contentEqual(mv model.Value, gv ps.Object) bool {
	switch mv.T {
	case "int":
		g, ok := gv.(ps.Integer)
		x, fits := mv.I.Int64()
		return ok && fits && int64(g) == x
	case "name":
		g, ok := gv.(ps.Name)
		return ok && string(g) == mv.S
	case "str":
		g, ok := gv.(ps.String)
		if !ok || len(g) != mv.Len {
			return false
		}
		cell, err := c.b.cell(mv.ID, c.over)
		if err != nil || cell.K != "str" {
			return false
		}
		for i := 0; i < mv.Len; i++ {
			if int(g[i]) != cell.Bytes[mv.Off+i] {
				return false
			}
		}
		return true
	case "real":
		g, ok := gv.(ps.Real)
		return ok && mv.R.CloseTo(float64(g))
	case "bool":
		g, ok := gv.(ps.Boolean)
		return ok && bool(g) == mv.B
	case "dict":
		g, ok := gv.(ps.Dict)
		if !ok {
			return false
		}
		cell, err := c.b.cell(mv.ID, c.over)
		if err != nil || cell.K != "dict" || len(cell.Dict) != len(g) {
			return false
		}
		for k, ev := range cell.Dict {
			o, ok := g[ps.Name(k)]
			if !ok || !c.contentEqual(ev, o) {
				return false
			}
		}
		return true
	case "cmapinfo":
		g, ok := gv.(*ps.CMapInfo)
		if !ok {
			return false
		}
		cell, err := c.b.cell(mv.ID, c.over)
		if err != nil {
			return false
		}
		c.lastErr = c.cmapinfo(cell, g, "CodeMap")
		return c.lastErr == nil
	case "arr":
		g, ok := gv.(ps.Array)
		if !ok || len(g) != mv.Len {
			return false
		}
		cell, err := c.b.cell(mv.ID, c.over)
		if err != nil || cell.K != "arr" {
			return false
		}
		for i := 0; i < mv.Len; i++ {
			ev, ok := cell.Elems[mv.Off+i]
			if !ok {
				if g[i] != nil {
					return false
				}
				continue
			}
			if !c.contentEqual(ev, g[i]) {
				return false
			}
		}
		return true
	}
	return false
}

// ContentCompare compares a library object with a model value by content
// (no identity), for results that come from an interpreter the harness does
// not own (ReadCMap).
func ContentCompare(base []model.Cell, over model.Heap, mv model.Value, gv ps.Object) error {
	b := &Binding{Base: base}
	c := &cmp{b: b, over: over}
	if mv.T == "dict" {
		g, ok := gv.(ps.Dict)
		if !ok {
			return fmt.Errorf("library returned %T, not a dictionary", gv)
		}
		cell, err := b.cell(mv.ID, over)
		if err != nil {
			return err
		}
		for k, ev := range cell.Dict {
			o, ok := g[ps.Name(k)]
			if !ok {
				return fmt.Errorf("key /%s missing in the returned dictionary", k)
			}
			if !c.contentEqual(ev, o) {
				if c.lastErr != nil {
					return fmt.Errorf("/%s: %v", k, c.lastErr)
				}
				return fmt.Errorf("/%s: model %s, library %s", k, Show(ev), ShowObj(o))
			}
		}
		for k := range g {
			if _, ok := cell.Dict[string(k)]; !ok {
				return fmt.Errorf("unexpected key /%s in the returned dictionary", k)
			}
		}
		return nil
	}
	if !c.contentEqual(mv, gv) {
		return fmt.Errorf("model %s, library %s", Show(mv), ShowObj(gv))
	}
	return nil
}

type gEntry struct {
	lo, hi []byte
	dst    ps.Object
	hasDst bool
}

func (c *cmp) table(name string, want []model.CMapEntry, got []gEntry, where string) error {
	if len(want) != len(got) {
		return fmt.Errorf("%s.%s: model has %d entries, library %d", where, name, len(want), len(got))
	}
	key := func(e model.CMapEntry) []byte {
		if e.Src != nil || e.Lo == nil {
			return toBytes(e.Src)
		}
		return toBytes(e.Lo)
	}
	used := make([]bool, len(got))
	for i, w := range want {
		// the library's sort is not stable: entries with equal keys may come in any order
		lo, hi := i, i
		for lo > 0 && bytes.Equal(key(want[lo-1]), key(w)) {
			lo--
		}
		for hi+1 < len(want) && bytes.Equal(key(want[hi+1]), key(w)) {
			hi++
		}
		found := false
		for j := lo; j <= hi && !found; j++ {
			if used[j] {
				continue
			}
			g := got[j]
			wl, wh := toBytes(w.Lo), toBytes(w.Hi)
			if w.Lo == nil {
				wl, wh = toBytes(w.Src), nil
			}
			if !bytes.Equal(wl, g.lo) || (w.Lo != nil && !bytes.Equal(wh, g.hi)) {
				continue
			}
			if w.Dst != nil {
				if !g.hasDst || !c.contentEqual(*w.Dst, g.dst) {
					continue
				}
			}
			used[j] = true
			found = true
		}
		if !found {
			return fmt.Errorf("%s.%s[%d]: entry of the model (key %x) not found at its sorted position in the library's table", where, name, i, key(w))
		}
	}
	return nil
}

func (c *cmp) cmapinfo(cell *model.Cell, g *ps.CMapInfo, where string) error {
	if cell.K != "cmapinfo" {
		return fmt.Errorf("%s: model cell is %s, not cmapinfo", where, cell.K)
	}
	if g == nil {
		return fmt.Errorf("%s: nil CMapInfo", where)
	}
	if string(g.UseCMap) != cell.Use {
		return fmt.Errorf("%s: usecmap: model %q, library %q", where, cell.Use, g.UseCMap)
	}
	var csr []gEntry
	for _, r := range g.CodeSpaceRanges {
		csr = append(csr, gEntry{lo: r.Low, hi: r.High})
	}
	chars := func(t []ps.CharMap) []gEntry {
		var out []gEntry
		for _, e := range t {
			out = append(out, gEntry{lo: e.Src, dst: e.Dst, hasDst: true})
		}
		return out
	}
	ranges := func(t []ps.RangeMap) []gEntry {
		var out []gEntry
		for _, e := range t {
			out = append(out, gEntry{lo: e.Low, hi: e.High, dst: e.Dst, hasDst: true})
		}
		return out
	}
	if err := c.table("codespace", cell.Csr, csr, where); err != nil {
		return err
	}
	if err := c.table("cidchars", cell.Cidchars, chars(g.CidChars), where); err != nil {
		return err
	}
	if err := c.table("cidranges", cell.Cidranges, ranges(g.CidRanges), where); err != nil {
		return err
	}
	if err := c.table("bfchars", cell.Bfchars, chars(g.BfChars), where); err != nil {
		return err
	}
	if err := c.table("bfranges", cell.Bfranges, ranges(g.BfRanges), where); err != nil {
		return err
	}
	if err := c.table("notdefchars", cell.Ndchars, chars(g.NotdefChars), where); err != nil {
		return err
	}
	return c.table("notdefranges", cell.Ndranges, ranges(g.NotdefRanges), where)
}
