// Package psbind binds the abstract state of PSMachine.tla to a real
// postscript.Interpreter: it materialises model values as Go objects (views
// become sub-slices of one backing array per heap cell, dictionaries Go
// maps) and compares a final interpreter state with the model's, up to the
// renaming of heap cells.
package psbind

import (
	"fmt"
	"math"
	"reflect"
	"sort"
	"strings"
	"unsafe"

	ps "seehuhn.de/go/postscript"

	"vharness/model"
)

// ids of the fixed cells of a fresh interpreter (PSOps.tla)
const (
	SysID = 1 + iota
	UserID
	ErrID
	FontDirID
	StdEncID
	InternalID
	ResID
	CIDFontCatID
	CMapCatID
	ProcSetCatID
	CIDInitID
	NFixed = CIDInitID
)

// Binding ties one interpreter to one model heap.
type Binding struct {
	Intp *ps.Interpreter
	Base []model.Cell // base heap, cell id i at Base[i-1]

	objs    map[int]any // cell id -> []ps.Object | []byte | ps.Dict | *ps.CMapInfo
	opByNm  map[string]ps.Object
	nmByPtr map[uintptr]string
	mark    ps.Object
}

func funcPtr(o ps.Object) (uintptr, bool) {
	if o == nil {
		return 0, false
	}
	v := reflect.ValueOf(o)
	if v.Kind() != reflect.Func {
		return 0, false
	}
	return v.Pointer(), true
}

// New creates a fresh interpreter and binds the fixed cells.
func New(base []model.Cell) (*Binding, error) {
	intp := ps.NewInterpreter()
	b := &Binding{Intp: intp, Base: base, objs: map[int]any{}, opByNm: map[string]ps.Object{}, nmByPtr: map[uintptr]string{}}
	for name, v := range intp.SystemDict {
		if p, ok := funcPtr(v); ok {
			b.opByNm[string(name)] = v
			b.nmByPtr[p] = string(name)
		}
	}
	procset, _ := intp.Resources["ProcSet"].(ps.Dict)
	cidinit, _ := procset["CIDInit"].(ps.Dict)
	if cidinit == nil {
		return nil, fmt.Errorf("no CIDInit procset")
	}
	for name, v := range cidinit {
		if p, ok := funcPtr(v); ok {
			b.opByNm[string(name)] = v
			b.nmByPtr[p] = string(name)
		}
	}
	if h, ok := intp.ErrorDict["typecheck"]; ok {
		if p, ok := funcPtr(h); ok {
			b.opByNm[".defaulterrorhandler"] = h
			b.nmByPtr[p] = ".defaulterrorhandler"
		}
	}
	// the mark object: run `mark` on a scratch interpreter
	tmp := ps.NewInterpreter()
	if err := tmp.ExecuteString("mark"); err != nil || len(tmp.Stack) != 1 {
		return nil, fmt.Errorf("cannot obtain mark: %v", err)
	}
	b.mark = tmp.Stack[0]

	std, _ := intp.SystemDict["StandardEncoding"].(ps.Array)
	cidfont, _ := intp.Resources["CIDFont"].(ps.Dict)
	b.objs[SysID] = intp.SystemDict
	b.objs[UserID] = intp.UserDict
	b.objs[ErrID] = intp.ErrorDict
	b.objs[FontDirID] = intp.FontDirectory
	b.objs[StdEncID] = []ps.Object(std)
	b.objs[InternalID] = intp.InternalDict
	b.objs[ResID] = intp.Resources
	b.objs[CIDFontCatID] = cidfont
	b.objs[CMapCatID] = intp.CMapDirectory
	b.objs[ProcSetCatID] = procset
	b.objs[CIDInitID] = cidinit
	for id := 1; id <= NFixed; id++ {
		if b.objs[id] == nil || reflect.ValueOf(b.objs[id]).IsNil() {
			return nil, fmt.Errorf("fixed cell %d missing in the interpreter", id)
		}
	}
	return b, nil
}

// SeedFixed adds to the interpreter's fixed dictionaries the entries that the
// base heap has and a fresh interpreter lacks (e.g. a font in FontDirectory).
func (b *Binding) SeedFixed() error {
	for id := 1; id <= NFixed && id <= len(b.Base); id++ {
		c := &b.Base[id-1]
		if c.K != "dict" {
			continue
		}
		d := b.objs[id].(ps.Dict)
		for k, v := range c.Dict {
			if _, ok := d[ps.Name(k)]; ok {
				continue
			}
			o, err := b.Object(v)
			if err != nil {
				return err
			}
			d[ps.Name(k)] = o
		}
	}
	return nil
}

func (b *Binding) cell(id int, over model.Heap) (*model.Cell, error) {
	if over != nil {
		if c, ok := over[id]; ok {
			return &c, nil
		}
	}
	if id < 1 || id > len(b.Base) {
		return nil, fmt.Errorf("cell %d out of range", id)
	}
	return &b.Base[id-1], nil
}

// materialise the backing object of base cell id (initial state only)
func (b *Binding) backing(id int) (any, error) {
	if o, ok := b.objs[id]; ok {
		return o, nil
	}
	c, err := b.cell(id, nil)
	if err != nil {
		return nil, err
	}
	switch c.K {
	case "str":
		buf := make([]byte, c.N)
		b.objs[id] = buf
		for i, v := range c.Bytes {
			buf[i] = byte(v)
		}
		return buf, nil
	case "arr":
		buf := make([]ps.Object, c.N)
		b.objs[id] = buf // before the elements: cells may refer to themselves
		for i, v := range c.Elems {
			o, err := b.Object(v)
			if err != nil {
				return nil, err
			}
			buf[i] = o
		}
		return buf, nil
	case "dict":
		d := ps.Dict{}
		b.objs[id] = d
		for k, v := range c.Dict {
			o, err := b.Object(v)
			if err != nil {
				return nil, err
			}
			d[ps.Name(k)] = o
		}
		return d, nil
	}
	return nil, fmt.Errorf("cannot materialise cell kind %q", c.K)
}

// Object materialises a model value of the initial state.
func (b *Binding) Object(v model.Value) (ps.Object, error) {
	switch v.T {
	case "int":
		x, ok := v.I.Int64()
		if !ok {
			return nil, fmt.Errorf("integer out of range")
		}
		return ps.Integer(x), nil
	case "real":
		f, _ := v.R.Float64()
		return ps.Real(f), nil
	case "bool":
		return ps.Boolean(v.B), nil
	case "name":
		return ps.Name(v.S), nil
	case "xname":
		return ps.Operator(v.S), nil
	case "op":
		o, ok := b.opByNm[v.S]
		if !ok {
			return nil, fmt.Errorf("unknown operator object %q", v.S)
		}
		return o, nil
	case "mark":
		return b.mark, nil
	case "nil":
		return nil, nil
	case "str":
		bk, err := b.backing(v.ID)
		if err != nil {
			return nil, err
		}
		return ps.String(bk.([]byte)[v.Off : v.Off+v.Len : v.Off+v.Len]), nil
	case "arr", "proc":
		bk, err := b.backing(v.ID)
		if err != nil {
			return nil, err
		}
		s := bk.([]ps.Object)[v.Off : v.Off+v.Len]
		if v.T == "arr" {
			return ps.Array(s), nil
		}
		return ps.Procedure(s), nil
	case "dict":
		bk, err := b.backing(v.ID)
		if err != nil {
			return nil, err
		}
		return bk.(ps.Dict), nil
	}
	return nil, fmt.Errorf("cannot materialise value type %q", v.T)
}

// ---------------------------------------------------------------- comparison

// Final is the model's terminal state.
type Final struct {
	Ost   []model.Value `json:"ost"`
	Dst   []int         `json:"dst"`
	Heap  model.Heap    `json:"heap"`
	NHeap int           `json:"nheap"`
}

type viewKey struct{ id, off, n int }

type cmp struct {
	b     *Binding
	over  model.Heap
	base  map[int]uintptr // model cell id -> Go address of element 0 (views) or map pointer
	owner map[uintptr]int // reverse
	seen  map[viewKey]bool
	ivals []ival
	work  []func() error

	lastErr error
}

type ival struct {
	lo, hi uintptr
	id     int
}

// Compare checks that the interpreter's state equals the model's final state
// up to renaming of heap cells.  It returns nil or a description of the first
// difference found.
func (b *Binding) Compare(f *Final) error {
	c := &cmp{b: b, over: f.Heap, base: map[int]uintptr{}, owner: map[uintptr]int{}, seen: map[viewKey]bool{}}
	intp := b.Intp
	if len(intp.Stack) != len(f.Ost) {
		return fmt.Errorf("operand stack depth: model %d, library %d", len(f.Ost), len(intp.Stack))
	}
	if len(intp.DictStack) != len(f.Dst) {
		return fmt.Errorf("dictionary stack depth: model %d, library %d", len(f.Dst), len(intp.DictStack))
	}
	for i := range f.Ost {
		if err := c.value(f.Ost[i], intp.Stack[i], fmt.Sprintf("ostack[%d]", i)); err != nil {
			return err
		}
	}
	for i, id := range f.Dst {
		if err := c.value(model.Value{T: "dict", ID: id}, intp.DictStack[i], fmt.Sprintf("dstack[%d]", i)); err != nil {
			return err
		}
	}
	// the fixed cells are roots as well: whatever the program did to systemdict,
	// userdict, errordict, the font directory, StandardEncoding, the resource
	// categories and CIDInit must be what the model says
	for id := 1; id <= NFixed; id++ {
		var mv model.Value
		var gv ps.Object
		if id == StdEncID {
			mv = model.Value{T: "arr", ID: id, Off: 0, Len: 256}
			gv = ps.Array(b.objs[id].([]ps.Object))
		} else {
			mv = model.Value{T: "dict", ID: id}
			gv = b.objs[id].(ps.Dict)
		}
		if err := c.value(mv, gv, fmt.Sprintf("cell%d", id)); err != nil {
			return err
		}
	}
	for len(c.work) > 0 {
		w := c.work[len(c.work)-1]
		c.work = c.work[:len(c.work)-1]
		if err := w(); err != nil {
			return err
		}
	}
	// distinct model cells must not overlap in Go memory
	sort.Slice(c.ivals, func(i, j int) bool { return c.ivals[i].lo < c.ivals[j].lo })
	for i := 1; i < len(c.ivals); i++ {
		if c.ivals[i].lo < c.ivals[i-1].hi && c.ivals[i].id != c.ivals[i-1].id {
			return fmt.Errorf("cells %d and %d are distinct in the model but share memory in the library", c.ivals[i-1].id, c.ivals[i].id)
		}
	}
	return nil
}

func (c *cmp) bind(id int, addr uintptr, size, off, n int, where string) error {
	// addr: address of the first element of the Go slice; element 0 of the cell is at addr - off*size
	if n == 0 {
		return nil // empty views carry no identity in Go
	}
	base := addr - uintptr(off*size)
	if old, ok := c.base[id]; ok {
		if old != base {
			return fmt.Errorf("%s: view (cell %d, off %d) does not alias the cell as the model says", where, id, off)
		}
	} else {
		if other, ok := c.owner[base]; ok && other != id {
			return fmt.Errorf("%s: model cells %d and %d are the same memory in the library", where, other, id)
		}
		c.base[id] = base
		c.owner[base] = id
	}
	c.ivals = append(c.ivals, ival{addr, addr + uintptr(n*size), id})
	return nil
}

func typeName(o ps.Object) string {
	if o == nil {
		return "nil"
	}
	return strings.TrimPrefix(fmt.Sprintf("%T", o), "postscript.")
}

func (c *cmp) value(mv model.Value, gv ps.Object, where string) error {
	mismatch := func() error {
		return fmt.Errorf("%s: model %s, library %s", where, Show(mv), ShowObj(gv))
	}
	switch mv.T {
	case "int":
		g, ok := gv.(ps.Integer)
		if !ok {
			return mismatch()
		}
		x, fits := mv.I.Int64()
		if !fits || int64(g) != x {
			return mismatch()
		}
	case "real":
		g, ok := gv.(ps.Real)
		if !ok || !mv.R.CloseTo(float64(g)) {
			return mismatch()
		}
	case "anyge":
		g, ok := gv.(ps.Integer)
		if !ok || int(g) < mv.N {
			return mismatch()
		}
	case "bool":
		g, ok := gv.(ps.Boolean)
		if !ok || bool(g) != mv.B {
			return mismatch()
		}
	case "anybool":
		if _, ok := gv.(ps.Boolean); !ok {
			return mismatch()
		}
	case "name":
		g, ok := gv.(ps.Name)
		if !ok || string(g) != mv.S {
			return mismatch()
		}
	case "xname":
		g, ok := gv.(ps.Operator)
		if !ok || string(g) != mv.S {
			return mismatch()
		}
	case "op":
		p, ok := funcPtr(gv)
		if !ok || c.b.nmByPtr[p] != mv.S {
			return mismatch()
		}
	case "mark":
		if gv == nil || gv != c.b.mark {
			return mismatch()
		}
	case "nil":
		if gv != nil {
			return mismatch()
		}
	case "str":
		g, ok := gv.(ps.String)
		if !ok || len(g) != mv.Len {
			return mismatch()
		}
		if err := c.bind(mv.ID, uintptr(unsafe.Pointer(unsafe.SliceData([]byte(g)))), 1, mv.Off, mv.Len, where); err != nil {
			return err
		}
		k := viewKey{mv.ID, mv.Off, mv.Len}
		if c.seen[k] {
			return nil
		}
		c.seen[k] = true
		cell, err := c.b.cell(mv.ID, c.over)
		if err != nil {
			return err
		}
		if cell.K != "str" {
			return fmt.Errorf("%s: model cell %d is %s, not str", where, mv.ID, cell.K)
		}
		for i := 0; i < mv.Len; i++ {
			want := 0
			if v, ok := cell.Bytes[mv.Off+i]; ok {
				want = v
			}
			if int(g[i]) != want {
				return fmt.Errorf("%s: string byte %d: model %d, library %d", where, i, want, g[i])
			}
		}
	case "arr", "proc":
		var g []ps.Object
		switch x := gv.(type) {
		case ps.Array:
			if mv.T != "arr" {
				return mismatch()
			}
			g = x
		case ps.Procedure:
			if mv.T != "proc" {
				return mismatch()
			}
			g = x
		default:
			return mismatch()
		}
		if len(g) != mv.Len {
			return mismatch()
		}
		if err := c.bind(mv.ID, uintptr(unsafe.Pointer(unsafe.SliceData(g))), int(unsafe.Sizeof(ps.Object(nil))), mv.Off, mv.Len, where); err != nil {
			return err
		}
		k := viewKey{mv.ID, mv.Off, mv.Len}
		if c.seen[k] {
			return nil
		}
		c.seen[k] = true
		cell, err := c.b.cell(mv.ID, c.over)
		if err != nil {
			return err
		}
		if cell.K != "arr" {
			return fmt.Errorf("%s: model cell %d is %s, not arr", where, mv.ID, cell.K)
		}
		c.work = append(c.work, func() error {
			explicit := 0
			for i := 0; i < mv.Len; i++ {
				ev, ok := cell.Elems[mv.Off+i]
				if !ok {
					if g[i] != nil {
						return fmt.Errorf("%s[%d]: model nil, library %s", where, i, ShowObj(g[i]))
					}
					continue
				}
				explicit++
				if err := c.value(ev, g[i], fmt.Sprintf("%s[%d]", where, i)); err != nil {
					return err
				}
			}
			return nil
		})
	case "dict":
		g, ok := gv.(ps.Dict)
		if !ok {
			return mismatch()
		}
		p := reflect.ValueOf(g).Pointer()
		if old, ok := c.base[mv.ID]; ok {
			if old != p {
				return fmt.Errorf("%s: dictionary identity differs (cell %d)", where, mv.ID)
			}
			return nil
		}
		if other, ok := c.owner[p]; ok && other != mv.ID {
			return fmt.Errorf("%s: model dicts %d and %d are one map in the library", where, other, mv.ID)
		}
		c.base[mv.ID] = p
		c.owner[p] = mv.ID
		cell, err := c.b.cell(mv.ID, c.over)
		if err != nil {
			return err
		}
		if cell.K != "dict" {
			return fmt.Errorf("%s: model cell %d is %s, not dict", where, mv.ID, cell.K)
		}
		c.work = append(c.work, func() error {
			if len(g) != len(cell.Dict) {
				return fmt.Errorf("%s: dictionary has %d entries in the model (%v), %d in the library (%v)", where, len(cell.Dict), keysOf(cell.Dict), len(g), gkeys(g))
			}
			for k, ev := range cell.Dict {
				o, ok := g[ps.Name(k)]
				if !ok {
					return fmt.Errorf("%s: key /%s missing in the library", where, k)
				}
				if err := c.value(ev, o, where+"/"+k); err != nil {
					return err
				}
			}
			return nil
		})
	case "cmapinfo":
		g, ok := gv.(*ps.CMapInfo)
		if !ok {
			return mismatch()
		}
		cell, err := c.b.cell(mv.ID, c.over)
		if err != nil {
			return err
		}
		return c.cmapinfo(cell, g, where)
	default:
		return fmt.Errorf("%s: unknown model value type %q", where, mv.T)
	}
	return nil
}

func keysOf(m model.StrMap[model.Value]) []string {
	var ks []string
	for k := range m {
		ks = append(ks, k)
	}
	sort.Strings(ks)
	if len(ks) > 12 {
		ks = append(ks[:12], "...")
	}
	return ks
}

func gkeys(d ps.Dict) []string {
	var ks []string
	for k := range d {
		ks = append(ks, string(k))
	}
	sort.Strings(ks)
	if len(ks) > 12 {
		ks = append(ks[:12], "...")
	}
	return ks
}

// Show renders a model value for messages.
func Show(v model.Value) string {
	switch v.T {
	case "int":
		return v.I.Big().String()
	case "real":
		f, _ := v.R.Float64()
		return fmt.Sprintf("real(%v)", f)
	case "bool":
		return fmt.Sprint(v.B)
	case "name":
		return "/" + v.S
	case "xname":
		return v.S
	case "op":
		return "--" + v.S + "--"
	case "str", "arr", "proc":
		return fmt.Sprintf("%s(cell %d, off %d, len %d)", v.T, v.ID, v.Off, v.Len)
	case "dict":
		return fmt.Sprintf("dict(cell %d)", v.ID)
	case "anyge":
		return fmt.Sprintf("int>=%d", v.N)
	}
	return v.T
}

// ShowObj renders a library object for messages.
func ShowObj(o ps.Object) string {
	switch x := o.(type) {
	case nil:
		return "nil"
	case ps.Integer:
		return fmt.Sprint(int64(x))
	case ps.Real:
		if math.IsInf(float64(x), 0) || math.IsNaN(float64(x)) {
			return fmt.Sprintf("real(%v)", float64(x))
		}
		return fmt.Sprintf("real(%v)", float64(x))
	case ps.Boolean:
		return fmt.Sprint(bool(x))
	case ps.Name:
		return "/" + string(x)
	case ps.Operator:
		return string(x)
	case ps.String:
		if len(x) > 16 {
			return fmt.Sprintf("str(len %d)", len(x))
		}
		return fmt.Sprintf("str(%q)", string(x))
	case ps.Array:
		return fmt.Sprintf("arr(len %d)", len(x))
	case ps.Procedure:
		return fmt.Sprintf("proc(len %d)", len(x))
	case ps.Dict:
		return fmt.Sprintf("dict(%d entries)", len(x))
	}
	if _, ok := funcPtr(o); ok {
		return "--operator--"
	}
	return typeName(o)
}
