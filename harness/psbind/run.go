package psbind

import (
	"errors"
	"fmt"
	"math/big"
	"strings"

	ps "seehuhn.de/go/postscript"

	"vharness/model"
)

// ErrName extracts the PostScript error name from an error returned by the
// interpreter ("name: message"); "budget" for the execution-limit sentinel,
// "notps" for ErrNoPostScript, "?" for anything else.
func ErrName(err error) string {
	if err == nil {
		return ""
	}
	if errors.Is(err, ps.ErrExecutionLimitExceeded) || err == ps.ErrExecutionLimitExceeded {
		return "budget"
	}
	if errors.Is(err, ps.ErrNoPostScript) {
		return "notps"
	}
	s := err.Error()
	if i := strings.Index(s, ": "); i > 0 {
		name := s[:i]
		if !strings.ContainsAny(name, " \t") {
			return name
		}
	}
	return "?" + s
}

// RenderToken writes one program token as PostScript text.
func RenderToken(sb *strings.Builder, v model.Value) error {
	switch v.T {
	case "int":
		sb.WriteString(v.I.Big().String())
	case "real":
		sb.WriteString(RealText(v.R))
	case "bool":
		if v.B {
			sb.WriteString("true")
		} else {
			sb.WriteString("false")
		}
	case "name":
		sb.WriteString("/" + v.S)
	case "xname":
		sb.WriteString(v.S)
	case "lbrace":
		sb.WriteString("{")
	case "rbrace":
		sb.WriteString("}")
	case "strlit":
		sb.WriteString("<")
		for _, c := range v.Bytes {
			fmt.Fprintf(sb, "%02x", c)
		}
		sb.WriteString(">")
	default:
		return fmt.Errorf("token type %q cannot be rendered", v.T)
	}
	return nil
}

// RealText is an exact decimal spelling of a dyadic real (always with a
// decimal point so that it is read as a real).
func RealText(d *model.Dyadic) string {
	r := d.Rat()
	if r.IsInt() {
		return r.Num().String() + ".0"
	}
	// denominator is a power of two: the decimal expansion is finite
	k := 0
	den := new(big.Int).Set(r.Denom())
	for den.Cmp(big.NewInt(1)) > 0 {
		den.Rsh(den, 1)
		k++
	}
	return r.FloatString(k)
}

// Calls splits a token sequence at the "eoc" boundaries and renders each
// part as the text of one Execute call.
func Calls(toks []model.Value) ([]string, error) {
	var calls []string
	var sb strings.Builder
	for _, t := range toks {
		if t.T == "eoc" {
			calls = append(calls, sb.String())
			sb.Reset()
			continue
		}
		if sb.Len() > 0 {
			sb.WriteByte(' ')
		}
		if err := RenderToken(&sb, t); err != nil {
			return nil, err
		}
	}
	calls = append(calls, sb.String())
	return calls, nil
}

// SelftestPanic is a call text that makes Run panic on purpose: the negative
// control of the crash detection (C01).
const SelftestPanic = ".verif-selftest-panic"

// Outcome of running a program on the library.
type Outcome struct {
	Err    error
	Panic  any
	NumOps int
}

// Run executes the calls one after the other; a call that fails ends the run.
func (b *Binding) Run(calls []string, maxops int) (out Outcome) {
	defer func() {
		if r := recover(); r != nil {
			out.Panic = r
		}
		out.NumOps = b.Intp.NumOps
	}()
	b.Intp.MaxOps = maxops
	for _, c := range calls {
		if c == SelftestPanic {
			panic("selftest: deliberate panic inside the replay scope")
		}
		if err := b.Intp.ExecuteString(c); err != nil {
			out.Err = err
			return
		}
	}
	return
}

// Class describes a value coarsely (used in violation signatures).
func Class(v model.Value) string {
	switch v.T {
	case "int":
		x := v.I.Big()
		switch {
		case x.Sign() == 0:
			return "0"
		case x.IsInt64() && x.Int64() == -1<<63:
			return "minint"
		case x.IsInt64() && x.Int64() == 1<<63-1:
			return "maxint"
		case x.BitLen() > 53:
			if x.Sign() > 0 {
				return "int>2^53"
			}
			return "int<-2^53"
		case x.BitLen() >= 31:
			if x.Sign() > 0 {
				return "int>=2^30"
			}
			return "int<=-2^30"
		case x.Sign() > 0:
			return "int+"
		}
		return "int-"
	case "str", "arr", "proc":
		if v.Len == 0 {
			return v.T + "0"
		}
		if v.Len > 1000 {
			return v.T + "big"
		}
		return v.T
	}
	return v.T
}
