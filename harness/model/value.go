package model

import (
	"encoding/json"
	"fmt"
	"sort"
	"strconv"
)

// Value mirrors the records of PSValues.tla.
type Value struct {
	T     string  `json:"t"`
	I     *BigInt `json:"i,omitempty"`
	R     *Dyadic `json:"r,omitempty"`
	B     bool    `json:"b,omitempty"`
	S     string  `json:"s,omitempty"`
	ID    int     `json:"id,omitempty"`
	Off   int     `json:"off,omitempty"`
	Len   int     `json:"len,omitempty"`
	N     int     `json:"n,omitempty"`
	Bytes []int   `json:"bytes,omitempty"`
}

// IntMap is a TLA+ function with integer domain as written by ToJson: an
// object keyed by decimal strings, or an array when the domain is 1..n.
type IntMap[V any] map[int]V

func (m *IntMap[V]) UnmarshalJSON(data []byte) error {
	*m = IntMap[V]{}
	if len(data) > 0 && data[0] == '[' {
		var arr []V
		if err := json.Unmarshal(data, &arr); err != nil {
			return err
		}
		for i, v := range arr {
			(*m)[i+1] = v
		}
		return nil
	}
	var obj map[string]V
	if err := json.Unmarshal(data, &obj); err != nil {
		return err
	}
	for k, v := range obj {
		i, err := strconv.Atoi(k)
		if err != nil {
			return fmt.Errorf("IntMap key %q", k)
		}
		(*m)[i] = v
	}
	return nil
}

// Keys returns the sorted keys.
func (m IntMap[V]) Keys() []int {
	ks := make([]int, 0, len(m))
	for k := range m {
		ks = append(ks, k)
	}
	sort.Ints(ks)
	return ks
}

// StrMap is a TLA+ function with string domain: an object, or [] when empty.
type StrMap[V any] map[string]V

func (m *StrMap[V]) UnmarshalJSON(data []byte) error {
	*m = StrMap[V]{}
	if len(data) > 0 && data[0] == '[' {
		var arr []json.RawMessage
		if err := json.Unmarshal(data, &arr); err != nil {
			return err
		}
		if len(arr) != 0 {
			return fmt.Errorf("StrMap: non-empty array")
		}
		return nil
	}
	var obj map[string]V
	if err := json.Unmarshal(data, &obj); err != nil {
		return err
	}
	*m = obj
	return nil
}

// CMapEntry is one entry of a cmapinfo table.
type CMapEntry struct {
	Lo  []int  `json:"lo,omitempty"`
	Hi  []int  `json:"hi,omitempty"`
	Src []int  `json:"src,omitempty"`
	Dst *Value `json:"dst,omitempty"`
}

// Cell mirrors a heap cell.
type Cell struct {
	K string `json:"k"`
	N int    `json:"n"`
	// exactly one of the following is used, depending on K
	Bytes IntMap[int]     `json:"-"`
	Elems IntMap[Value]   `json:"-"`
	Dict  StrMap[Value]   `json:"-"`
	Raw   json.RawMessage `json:"m"`
	// cmapinfo
	Use       string      `json:"use,omitempty"`
	Csr       []CMapEntry `json:"csr,omitempty"`
	Cidchars  []CMapEntry `json:"cidchars,omitempty"`
	Cidranges []CMapEntry `json:"cidranges,omitempty"`
	Bfchars   []CMapEntry `json:"bfchars,omitempty"`
	Bfranges  []CMapEntry `json:"bfranges,omitempty"`
	Ndchars   []CMapEntry `json:"ndchars,omitempty"`
	Ndranges  []CMapEntry `json:"ndranges,omitempty"`
}

type cellAlias Cell

func (c *Cell) UnmarshalJSON(data []byte) error {
	var a cellAlias
	if err := json.Unmarshal(data, &a); err != nil {
		return err
	}
	*c = Cell(a)
	switch c.K {
	case "str":
		return json.Unmarshal(c.Raw, &c.Bytes)
	case "arr":
		return json.Unmarshal(c.Raw, &c.Elems)
	case "dict":
		return json.Unmarshal(c.Raw, &c.Dict)
	case "cmapinfo":
		return nil
	}
	return fmt.Errorf("unknown cell kind %q", c.K)
}

// Heap is the overlay heap of a state: cells created or modified.
type Heap = IntMap[Cell]
