package model

import (
	"bufio"
	"encoding/json"
	"fmt"
	"io"
	"os"
	"path/filepath"
	"sort"
)

// ReadVectorDir reads every *.json file of a directory (one record per file,
// written by JsonSerialize) in name order.
func ReadVectorDir(dir string, fn func(n int, raw []byte) error) error {
	names, err := filepath.Glob(filepath.Join(dir, "*.json"))
	if err != nil {
		return err
	}
	sort.Strings(names)
	for i, p := range names {
		raw, err := os.ReadFile(p)
		if err != nil {
			return err
		}
		if err := fn(i+1, raw); err != nil {
			return fmt.Errorf("%s: %v", p, err)
		}
	}
	return nil
}

// ReadAny reads a vector file, or a directory of per-record files.
func ReadAny(path string, fn func(n int, raw []byte) error) error {
	if st, err := os.Stat(path); err == nil && st.IsDir() {
		return ReadVectorDir(path, fn)
	}
	return ReadVectors(path, fn)
}

// ReadVectors streams a file written by TLC with
// CSVWrite("%1$s", <<ToJson(x)>>, file): every line is a JSON string whose
// content is a JSON document.  Plain ndjson lines are accepted as well.
func ReadVectors(path string, fn func(line int, raw []byte) error) error {
	f, err := os.Open(path)
	if err != nil {
		return err
	}
	defer f.Close()
	r := bufio.NewReaderSize(f, 1<<20)
	n := 0
	for {
		line, err := r.ReadBytes('\n')
		if len(line) > 1 {
			n++
			raw := line
			if line[0] == '"' {
				var s string
				if e := json.Unmarshal(line, &s); e != nil {
					return fmt.Errorf("%s:%d: %v", path, n, e)
				}
				raw = []byte(s)
			}
			if e := fn(n, raw); e != nil {
				return e
			}
		}
		if err == io.EOF {
			return nil
		}
		if err != nil {
			return err
		}
	}
}
