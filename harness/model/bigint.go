// Package model holds the JSON interchange types shared between the TLA+
// specifications (values as emitted by ToJson) and the Go harness.
package model

import (
	"encoding/json"
	"fmt"
	"math"
	"math/big"
)

// BigInt mirrors BigInt.tla: sign and little-endian limbs in base 2^15.
type BigInt struct {
	S int     `json:"s"`
	M []int64 `json:"m"`
}

const limbBits = 15

// Big converts to a *big.Int.
func (b BigInt) Big() *big.Int {
	r := new(big.Int)
	for i := len(b.M) - 1; i >= 0; i-- {
		r.Lsh(r, limbBits)
		r.Add(r, big.NewInt(b.M[i]))
	}
	if b.S < 0 {
		r.Neg(r)
	}
	return r
}

// Canonical reports whether the representation is the canonical one.
func (b BigInt) Canonical() bool {
	if len(b.M) == 0 {
		return b.S == 0
	}
	if b.S != 1 && b.S != -1 {
		return false
	}
	for _, l := range b.M {
		if l < 0 || l >= 1<<limbBits {
			return false
		}
	}
	return b.M[len(b.M)-1] != 0
}

// FromBig converts a *big.Int into limb form.
func FromBig(x *big.Int) BigInt {
	r := BigInt{S: x.Sign(), M: []int64{}}
	a := new(big.Int).Abs(x)
	mask := big.NewInt(1<<limbBits - 1)
	for a.Sign() != 0 {
		l := new(big.Int).And(a, mask)
		r.M = append(r.M, l.Int64())
		a.Rsh(a, limbBits)
	}
	return r
}

// FromInt64 converts an int64.
func FromInt64(x int64) BigInt { return FromBig(big.NewInt(x)) }

// Int64 returns the value if it fits.
func (b BigInt) Int64() (int64, bool) {
	v := b.Big()
	if !v.IsInt64() {
		return 0, false
	}
	return v.Int64(), true
}

func (b *BigInt) UnmarshalJSON(data []byte) error {
	var raw struct {
		S int     `json:"s"`
		M []int64 `json:"m"`
	}
	if err := json.Unmarshal(data, &raw); err != nil {
		return err
	}
	b.S = raw.S
	b.M = raw.M
	return nil
}

// Dyadic mirrors Dyadic.tla: n * 2^e.
type Dyadic struct {
	N BigInt `json:"n"`
	E int    `json:"e"`
}

// Rat returns the exact value.
func (d Dyadic) Rat() *big.Rat {
	r := new(big.Rat).SetInt(d.N.Big())
	if d.E >= 0 {
		r.Mul(r, new(big.Rat).SetInt(new(big.Int).Lsh(big.NewInt(1), uint(d.E))))
	} else {
		r.Quo(r, new(big.Rat).SetInt(new(big.Int).Lsh(big.NewInt(1), uint(-d.E))))
	}
	return r
}

// Float64 returns the nearest float64 and whether the conversion was exact.
func (d Dyadic) Float64() (float64, bool) {
	return d.Rat().Float64()
}

// DyadicFromFloat returns the exact dyadic value of a finite float64 in the
// canonical form of Dyadic.tla (n odd, or zero with e = 0).
func DyadicFromFloat(f float64) (Dyadic, error) {
	if math.IsNaN(f) || math.IsInf(f, 0) {
		return Dyadic{}, fmt.Errorf("non-finite float %v", f)
	}
	if f == 0 {
		return Dyadic{N: FromInt64(0), E: 0}, nil
	}
	frac, exp := math.Frexp(f) // f = frac * 2^exp, 0.5 <= |frac| < 1
	m := int64(frac * (1 << 53))
	e := exp - 53
	for m%2 == 0 {
		m /= 2
		e++
	}
	return Dyadic{N: FromInt64(m), E: e}, nil
}

// CloseTo reports whether f is within relative 2^-50 of the dyadic value
// (exact equality required when the dyadic is zero).
func (d Dyadic) CloseTo(f float64) bool {
	if math.IsNaN(f) || math.IsInf(f, 0) {
		return false
	}
	want := d.Rat()
	got := new(big.Rat).SetFloat64(f)
	if want.Sign() == 0 {
		return got.Sign() == 0
	}
	diff := new(big.Rat).Sub(want, got)
	diff.Abs(diff)
	tol := new(big.Rat).Abs(want)
	tol.Quo(tol, new(big.Rat).SetInt(new(big.Int).Lsh(big.NewInt(1), 50)))
	return diff.Cmp(tol) <= 0
}
